"""Info-line rules (C18) and the mate-N arithmetic (R11.3)."""
import re
from wa.mir import AnchorMissing, ShapeNotRecognised, callee_of, operand_alias
from wa.expr import Exprs, show_expr, strip_refs, subexprs, root_local, data_slice
from wa.cond import dominating_facts, bool_facts
from wa.absint import Intervals, meet
from wa.interp import eval_expr, Unknown
from wa import fmtlit, strsym
from wa.implied import implying_edges
from wa.loopform import is_range_next, range_bounds
from .search import search_const, GBM, ABS, SEND_INFO, SET_PV, INS_LINE, abs_calls, params_by_type

SSI = "engine::send_search_info"
INFO_RE = re.compile(r"^info pv\{\} depth \{\} nodes \{\} score (cp|mate) \{\} time \{\}$")


def _info_sites(b):
    """[(loc, rendered template, Rendering|None)] of every format site of b whose text starts with
    `info`: the text is *rendered* (wa/strsym.py), i.e. a string argument chosen by an if/else, built
    by a nested format! or returned by an inlined helper is spliced into the template, one
    alternative per choice, each on the body restricted to that choice."""
    out = []
    for bb, t in strsym.fmt_sites(b):
        if t.startswith("info") or " info " in t[:12]:
            rs = strsym.renderings(b, bb)
            if not rs:
                out.append((b.term_loc(bb), t, None))
            for r in rs:
                out.append((r.anchor(), r.template, r))
    return out


def _pv_fold(f, r):
    """The PV text of an info rendering (its first hole) as a per-move fold: (pieces, slice) or None."""
    if r is None or not r.holes:
        return None
    fp = strsym.fold_piece(f, r.body, r.ex, r.holes[0][1])
    if fp is None:
        return None
    pieces, sources, (fb, fex) = fp
    sl = set()
    for e in sources:
        sl |= data_slice(r.ex if fb is r.body else fex, e)
    return pieces, sl


def r18_1(ctx):
    """All `info` output comes from one function with one template; `bestmove` only from the two
    reply functions."""
    f = ctx.facts
    n_info = 0
    for b in f.all_bodies():
        for loc, t, r in _info_sites(b):
            n_info += 1
            inside = b.name == SSI
            ok = inside and bool(INFO_RE.match(t))
            ctx.ob("info-template:%s#%d" % (b.name.split("::")[-1], n_info), ok, b.where(loc),
                   "rendered template `%s`%s" % (t, "" if inside else " outside send_search_info") + ("" if ok or not inside else "; must be `info pv<moves> depth D nodes N score (cp X|mate Y) time T`"))
        for loc, s in fmtlit.string_literals(b):
            if s.startswith("info ") and b.name != SSI:
                ctx.ob("info-literal:%s" % b.name.split("::")[-1], False, b.where(loc), "literal `%s` printed outside send_search_info" % s[:40])
    ctx.floor("info templates", n_info, 1)
    # the PV part: each move contributes " {}{}" of two Points (from, to)
    b = f.body(SSI)
    ctx.note_fn(SSI)
    sites = [r for loc, t, r in _info_sites(b) if r is not None]
    pvs = [_pv_fold(f, r) for r in sites]
    ok = bool(pvs)
    shown = []
    for pv in pvs:
        if pv is None:
            ok = False
            shown.append("not a per-move fold")
            continue
        pieces = pv[0]
        tmpl = "".join(p[1] if p[0] == "lit" else "{}" for p in pieces)
        shown.append(tmpl)
        hs = [strip_refs(p[2]) for p in pieces if p[0] == "hole"]
        order = len(hs) == 2 and all(h[0] == "field" for h in hs) and (hs[0][2], hs[1][2]) == ("0", "1") and strip_refs(hs[0][1]) == strip_refs(hs[1][1])
        if tmpl != " {}{}" or not order:
            ok = False
    ctx.ob("send_search_info:pv-template", ok, b.file, "the PV text is one piece per move: %s; must be ` {}{}` (space, from, to) appended per move" % sorted(set(shown)))


def _eval_interval(r, iv, ev):
    """Interval of the eval parameter at a rendering: the meet over every i32 local that holds the
    parameter there (an inlined helper tests its own copy of it)."""
    st = iv.state_at(r.loc)
    if st is None:
        return None
    x = iv.get(st, (ev, ()), "i32")
    for l in range(len(r.body.locals)):
        if l != ev and r.body.local_ty(l) == "i32" and r.ex.local(l, r.loc) == ("arg", ev):
            x = meet(x, iv.get(st, (l, ()), "i32"))
            if x is None:
                return None
    # bounds stated through named / composed conditions (`let is_mating = eval >= K; if is_mating {..}`):
    # the comparisons known on entry to the site, whatever boolean carried them there
    from .search import order_facts
    holds = {("arg", ev)} | {("var", l) for l in range(len(r.body.locals)) if l != ev and r.body.local_ty(l) == "i32" and r.ex.local(l, r.loc) == ("arg", ev)}

    def is_ev(e):
        e = strip_refs(e)
        return e == ("arg", ev) or (e[0] == "var" and ("var", e[1]) in holds)

    def const(e):
        e = strip_refs(e)
        return e[1] if e[0] == "const" and isinstance(e[1], int) and not isinstance(e[1], bool) else None
    for op, a, c in order_facts(r.body, r.ex, r.loc[0]):
        if is_ev(a) and const(c) is not None:
            x = meet(x, (const(c) + (1 if op == "Gt" else 0), 2**31 - 1))
        elif is_ev(c) and const(a) is not None:
            x = meet(x, (-2**31, const(a) - (1 if op == "Gt" else 0)))
        if x is None:
            return None
    return x


def r18_4(ctx):
    """cp arm: |eval| stays inside (−MATE+w, MATE−w), so neither the abort sentinel nor a mate-range
    value is printed as centipawns.  mate arms: guards use the same window (R11.3 arithmetic)."""
    f = ctx.facts
    b = f.body(SSI)
    ctx.note_fn(SSI)
    mate = search_const(f, "MATE_SCORE")
    pos_inf = search_const(f, "POS_INF")
    evp = params_by_type(b, "i32")
    if len(evp) != 1:
        raise ShapeNotRecognised("send_search_info(.., eval: i32, ..)")
    ev = evp[0]
    arms = []
    for loc, t, r in _info_sites(b):
        m = INFO_RE.match(t)
        if m and r is not None:
            arms.append((loc, m.group(1), r))
    sides = []
    windows = set()
    ivs = {}
    for loc, kind, r in arms:
        iv = ivs.get(r.body.dead_edges)
        if iv is None:
            iv = ivs[r.body.dead_edges] = Intervals(r.body)
        rg = _eval_interval(r, iv, ev)
        if rg is None:
            ctx.ob("send_search_info:%s-arm:reachable" % kind, False, b.where(loc), "arm unreachable")
            continue
        # the value printed after `score cp|mate `
        val = strip_refs(r.holes[3][1]) if len(r.holes) == 5 else None
        if kind == "cp":
            sides.append("cp")
            ok = rg[0] > -mate and rg[1] < mate and rg[1] < pos_inf and rg[0] > -pos_inf and -rg[0] == rg[1]
            windows.add(mate - rg[1] - 1)
            ctx.ob("send_search_info:cp-arm:interval", ok, b.where(loc),
                   "in the cp arm eval is in [%s, %s]; must be a symmetric interval strictly inside (-%d, %d): excludes the abort sentinel %d and every mate-range score" % (rg[0], rg[1], mate, mate, pos_inf))
            ctx.ob("send_search_info:cp-arm:value", val == ("arg", ev), b.where(loc), "the cp arm prints `%s`; must be the evaluation itself" % (show_expr(val, r.body)[:60] if val else "?"))
        else:
            side = "+" if rg[0] > 0 else "-"
            sides.append("mate" + side)
            w = (mate - rg[0]) if side == "+" else (rg[1] + mate)
            windows.add(w)
            okw = 0 < w < 1000
            ctx.ob("send_search_info:mate%s-arm:window" % side, okw, b.where(loc), "mate%s arm entered for eval in [%s, %s] (window %s)" % (side, rg[0], rg[1], w))
            # R11.3: the printed N over the window (only a sane window is enumerated)
            if not okw:
                continue
            if val is None or val == ("arg", ev) or ("arg", ev) not in set(subexprs(val)):
                ctx.ob("send_search_info:mate%s-arm:N-expression" % side, False, b.where(loc), "the value printed after `score mate` (`%s`) is not a mate distance computed from the evaluation" % (show_expr(val, r.body)[:60] if val else "?"), reason="shape-not-recognised")
                continue
            ne = val
            bad = []
            lo_p = 1 if side == "+" else 2
            for p in range(lo_p, w + 1):
                e = (mate - p) if side == "+" else -(mate - p)
                try:
                    n = eval_expr(ne, {("arg", ev): e})
                except Unknown:
                    raise ShapeNotRecognised("cannot evaluate `%s`" % show_expr(ne, r.body))
                want = (p + 1) // 2 if side == "+" else -(p // 2)
                if n != want:
                    bad.append((p, n, want))
            ctx.ob("send_search_info:mate%s-arm:N-arithmetic" % side, not bad, b.where(loc),
                   "N = `%s` evaluated for mate at ply p = %d..=%d: %s" % (show_expr(ne, r.body)[:70], lo_p, w,
                                                                         "N is ceil(p/2) for the winner / -floor(p/2) for the loser, never 0" if not bad else "wrong at (ply, printed, expected) %s" % bad[:4]))
    ctx.ob("send_search_info:three-arms", sorted(sides) == ["cp", "mate+", "mate-"], b.file, "output arms: %s; must be one centipawn arm and one mate arm per side" % sorted(sides))
    ctx.ob("send_search_info:one-window", len(windows) == 1, b.file, "the three arms agree on the mate window: %s" % sorted(windows))


def r18_356(ctx):
    """Depth starts at 1 and only grows; lines are strictly improving within a depth; PV head is the
    accepted root move."""
    f = ctx.facts
    b = f.body(GBM)
    ctx.note_fn(GBM)
    ex = Exprs(b)
    calls = b.calls_to(SEND_INFO)
    if len(calls) != 1:
        raise ShapeNotRecognised("get_best_move: %d calls of send_search_info" % len(calls))
    cbb, ct = calls[0]
    args = ex.call_args(cbb)
    loc = b.term_loc(cbb)
    # R18.3 depth: a counter that starts >= 1 and is only incremented outside the root-move loop, or
    # the item of a numeric range starting >= 1 that is advanced outside the root-move loop
    d = strip_refs(args[1])
    while d[0] == "cast":
        d = strip_refs(d[2])
    dl = root_local(d) if d[0] == "var" else None
    loops = b.loops()
    inner = None
    for h, body_ in loops.items():
        if cbb in body_ and (inner is None or len(body_) < len(loops[inner])):
            inner = h
    rng = None
    if d[0] == "field" and d[2] == "0" and d[1][0] == "downcast" and d[1][2] == "Some" and d[1][1][0] == "call" and is_range_next(d[1][1]):
        rng = d[1][1]
    if rng is not None:
        bounds = range_bounds(ex, rng)
        nloc = rng[3]
        lo = bounds[0] if bounds else None
        ok = lo is not None and lo[0] == "const" and isinstance(lo[1], int) and lo[1] >= 1
        ctx.ob("get_best_move:depth-init", ok, b.where(nloc), "the depth is the item of a range starting at %s; must be >= 1" % (show_expr(lo, b) if lo else "?"))
        ok = any(nloc[0] in body_ and cbb in body_ for body_ in loops.values()) and (inner is None or nloc[0] not in loops[inner])
        ctx.ob("get_best_move:depth-increment", ok, b.where(nloc), "depth counter only grows, once per completed pass over the root moves (the range is advanced by the depth loop, not inside the root-move loop)")
    elif dl is None:
        ctx.ob("get_best_move:depth-argument", False, b.where(loc), "depth argument `%s` is not the depth counter" % show_expr(d, b), reason="shape-not-recognised")
    else:
        nd = 0
        for dloc, kind in b.reaching().all_sites(dl):
            nd += 1
            bb, i = dloc
            st = b.stmts(bb)
            e = ex.rvalue(st[i]["rv"], dloc) if i < len(st) else ("opaque", "call")
            if e[0] == "const":
                ok = isinstance(e[1], int) and e[1] >= 1 and all(bb not in body_ for body_ in loops.values())
                ctx.ob("get_best_move:depth-init", ok, b.where(dloc), "depth counter initialised to %s before the loops; must be >= 1" % e[1])
            elif e[0] == "bin" and e[1] == "Add" and e[2][0] == "var" and e[2][1] == dl and e[3][0] == "const" and e[3][1] >= 1:
                ok = inner is None or bb not in loops[inner]
                ctx.ob("get_best_move:depth-increment", ok, b.where(dloc), "depth counter only grows, once per completed pass over the root moves")
            else:
                ctx.ob("get_best_move:depth-def#%d" % nd, False, b.where(dloc), "depth counter changed by `%s`" % show_expr(e, b)[:60])
    # R18.5 strictly increasing: the call is dominated by an edge that implies `evaluation > alpha`
    # (the test itself, its negation with an early `continue`, or a named / composed boolean), and
    # alpha = evaluation happens behind that edge before the call
    evalu = strip_refs(args[2])

    def improvement(e, truth):
        e = strip_refs(e)
        if e[0] != "bin":
            return None
        a, c = strip_refs(e[2]), strip_refs(e[3])
        if (e[1], truth) in (("Gt", True), ("Le", False)):
            hi, lo_ = a, c
        elif (e[1], truth) in (("Lt", True), ("Ge", False)):
            hi, lo_ = c, a
        else:
            return None
        return lo_ if hi == evalu and lo_[0] == "var" else None

    gt = None
    for s, tg, atom, fresh, lastdefs in implying_edges(b, ex, lambda e, truth: improvement(e, truth) is not None):
        if tg == cbb or b.edge_dominates((s, tg), cbb):
            gt = ((s, tg), improvement(atom[0], atom[1]))
    ctx.ob("get_best_move:info-only-on-improvement", gt is not None, b.where(loc),
           "send_search_info(.., evaluation, ..) is dominated by `evaluation > alpha` (strict)")
    if gt is not None:
        al = gt[1][1]
        upd = None
        others = []
        for dloc, kind in b.reaching().all_sites(al):
            bb, i = dloc
            e = ex.rvalue(b.stmts(bb)[i]["rv"], dloc)
            if strip_refs(e) == evalu:
                upd = dloc
            else:
                others.append((dloc, e))
        ok = upd is not None and b.node_dominates(upd[0], cbb) and (gt[0][1] == upd[0] or b.edge_dominates(gt[0], upd[0]))
        ctx.ob("get_best_move:alpha-raised-with-info", ok, b.where(upd) if upd else b.where(loc),
               "`alpha = evaluation` happens in the same guarded region before the line is printed, so the next line of this depth must beat it")
        neg_inf = search_const(f, "NEG_INF")
        for dloc, e in others:
            ctx.ob("get_best_move:alpha-other-def", e == ("const", neg_inf), b.where(dloc), "alpha is otherwise only reset to -infinity at the start of a depth (`%s`)" % show_expr(e, b))
    # R18.6 PV head
    ins = [(bb, t) for bb, t in b.iter_calls(callee=INS_LINE)]
    pvs = [bb for bb, t in b.iter_calls(callee=SET_PV)]
    absb = abs_calls(b)
    # which argument of the sub-search is the position searched: by parameter type, not position
    bpar = params_by_type(f.body(ABS), "&board::BoardState")
    bidx = bpar[0] - 1 if len(bpar) == 1 else 2
    ok = False
    why = "insert_into_cur_line(0, mov) then set_principle_variation() between the sub-search and the info line"
    from .search import _unref
    store = _ins_line_store(f)
    for ibb, it in ins:
        ia = ex.call_args(ibb)
        ply0 = ia[1] == ("const", 0)
        # the descriptor that ends up in cur_line[0]: the argument, or its `.last_move`, as the callee stores it
        stored = None
        if store is not None:
            given = _unref(ia[store[0]])
            stored = ("field", given, "last_move") if store[1] == "last_move" else given
        same_mov = stored is not None and any(("field", _unref(ex.call_args(a)[bidx]), "last_move") == stored for a in absb)
        order = any(b.node_dominates(a, ibb) for a in absb) and any(b.node_dominates(ibb, p) and b.node_dominates(p, cbb) for p in pvs)
        if ply0 and same_mov and order:
            ok = True
        else:
            why += " (ply 0: %s, same root move as searched: %s, order abs<insert<set_pv<info: %s)" % (ply0, same_mov, order)
    ctx.ob("get_best_move:pv-head-is-accepted-move", ok, b.where(loc), why)


def _ins_line_store(f):
    """What insert_into_cur_line writes: (index of the parameter the stored value comes from,
    "last_move" if it stores that board's `.last_move` / "id" if the parameter is the move descriptor
    itself, index expression is the ply parameter) or None."""
    b = f.body(INS_LINE)
    ex = Exprs(b)
    try:
        lm_ty = f.struct_field_ty("board::BoardState", "last_move")
    except Exception:
        lm_ty = None
    for loc, st in b.iter_stmts():
        if st["k"] == "assign" and st["place"]["proj"]:
            names = [e.get("name") for e in st["place"]["proj"] if e["k"] == "field"]
            idx = [ex.local(e["local"], loc) for e in st["place"]["proj"] if e["k"] == "index"]
            if names[:1] == ["cur_line"] and len(idx) == 1:
                v = strip_refs(ex.rvalue(st["rv"], loc))
                i32p = params_by_type(b, "i32")
                ie = idx[0]
                while ie[0] == "cast":
                    ie = ie[2]
                if not (i32p and ie == ("arg", i32p[0])):
                    return None
                if v[0] == "field" and v[2] == "last_move" and strip_refs(v[1])[0] == "arg" and b.local_ty(strip_refs(v[1])[1]) == "&board::BoardState":
                    return strip_refs(v[1])[1] - 1, "last_move"
                if v[0] == "arg" and lm_ty is not None and b.local_ty(v[1]) == lm_ty:
                    return v[1] - 1, "id"
                return None
    return None


def r18_7(ctx):
    """PV bookkeeping primitives: insert_into_cur_line stores the move's descriptor at the given ply,
    set_principle_variation copies the current line into the PV, the info line prints the PV array."""
    f = ctx.facts
    b = f.body(INS_LINE)
    ctx.note_fn(INS_LINE, SET_PV, SSI)
    ctx.ob("insert_into_cur_line", _ins_line_store(f) is not None, b.file,
           "cur_line[ply] = the move descriptor it is given (`mov.last_move` of a board, or the descriptor itself)")
    b = f.body(SET_PV)
    ex = Exprs(b)
    ok = False
    for bb, t in b.iter_calls():
        c = callee_of(t) or ""
        if c.endswith("clone_from_slice") or c.endswith("copy_from_slice"):
            a = ex.call_args(bb)
            flds = [[x[2] for x in subexprs(y) if x[0] == "field"] for y in a]
            ok = "pv_moves" in flds[0] and "cur_line" in flds[1]
    # or the whole-array assignment `self.pv_moves = self.cur_line` (arrays of Copy items)
    sp = params_by_type(b, "&mut search::Search")
    for loc, st in b.iter_stmts():
        if st["k"] == "assign" and [e_.get("name") for e_ in st["place"]["proj"] if e_["k"] == "field"] == ["pv_moves"] and not any(e_["k"] == "index" for e_ in st["place"]["proj"]):
            v = strip_refs(ex.rvalue(st["rv"], loc))
            if v[0] == "call" and v[1].endswith("Clone>::clone") and len(v[2]) == 1:
                v = strip_refs(v[2][0])
            ok = v[0] == "field" and v[2] == "cur_line" and len(sp) == 1 and root_local(v[1]) == sp[0] and st["place"]["local"] == sp[0]
    ctx.ob("set_principle_variation", ok, b.file, "pv_moves <- cur_line")
    b = f.body(SSI)
    pvs = [_pv_fold(f, r) for loc, t, r in _info_sites(b) if r is not None]
    ok = bool(pvs) and all(pv is not None and any(x[0] == "field" and x[2] == "pv_moves" and strip_refs(x[1])[0] == "arg" for x in pv[1]) for pv in pvs)
    ctx.ob("send_search_info:prints-pv_moves", ok, b.file, "the PV printed is folded over search_info.pv_moves (backward slice of the PV text of every info line)")
