"""Info-line rules (C18) and the mate-N arithmetic (R11.3)."""
import re
from wa.mir import AnchorMissing, ShapeNotRecognised, callee_of, operand_alias
from wa.expr import Exprs, show_expr, strip_refs, subexprs, root_local, data_slice
from wa.cond import dominating_facts, bool_facts
from wa.absint import Intervals
from wa.interp import eval_expr, Unknown
from wa import fmtlit
from .search import GBM, ABS, SEND_INFO, SET_PV, INS_LINE, abs_calls, params_by_type

SSI = "engine::send_search_info"
INFO_RE = re.compile(r"^info pv\{\} depth \{\} nodes \{\} score (cp|mate) \{\} time \{\}$")


def r18_1(ctx):
    """All `info` output comes from one function with one template; `bestmove` only from the two
    reply functions."""
    f = ctx.facts
    n_info = 0
    for b in f.all_bodies():
        for loc, t in fmtlit.templates(b):
            if t.startswith("info") or " info " in t[:12]:
                n_info += 1
                inside = b.name == SSI
                ok = inside and bool(INFO_RE.match(t))
                ctx.ob("info-template:%s#%d" % (b.name.split("::")[-1], n_info), ok, b.where(loc),
                       "template `%s`%s" % (t, "" if inside else " outside send_search_info") + ("" if ok or not inside else "; must be `info pv<moves> depth D nodes N score (cp X|mate Y) time T`"))
        for loc, s in fmtlit.string_literals(b):
            if s.startswith("info ") and b.name != SSI:
                ctx.ob("info-literal:%s" % b.name.split("::")[-1], False, b.where(loc), "literal `%s` printed outside send_search_info" % s[:40])
    ctx.floor("info templates", n_info, 3)
    # the PV part: each move is " {}{}" of two Points
    b = f.body(SSI)
    ctx.note_fn(SSI)
    pv = [t for loc, t in fmtlit.templates(b) if not t.startswith("info")]
    ctx.ob("send_search_info:pv-template", pv == ["{} {}{}"], b.file, "PV is accumulated with templates %s; must be `{} {}{}` (previous text, space, from, to)" % pv)


def _arms(b, ex):
    """{'cp'|'mate+'|'mate-': (template loc, block)} of send_search_info's three outputs."""
    out = []
    for loc, t in fmtlit.templates(b):
        m = INFO_RE.match(t)
        if m:
            out.append((loc, m.group(1)))
    return out


def r18_4(ctx):
    """cp arm: |eval| stays inside (−MATE+w, MATE−w), so neither the abort sentinel nor a mate-range
    value is printed as centipawns.  mate arms: guards use the same window (R11.3 arithmetic)."""
    f = ctx.facts
    b = f.body(SSI)
    ctx.note_fn(SSI)
    ex = Exprs(b)
    mate = f.const_value("engine::MATE_SCORE")
    pos_inf = f.const_value("engine::POS_INF")
    evp = params_by_type(b, "i32")
    if len(evp) != 1:
        raise ShapeNotRecognised("send_search_info(.., eval: i32, ..)")
    ev = evp[0]
    iv = Intervals(b)
    arms = _arms(b, ex)
    kinds = [k for _, k in arms]
    ctx.ob("send_search_info:three-arms", sorted(kinds) == ["cp", "mate", "mate"], b.file, "output arms: %s" % kinds)
    windows = set()
    for loc, kind in arms:
        st = iv.state_at(loc)
        if st is None:
            ctx.ob("send_search_info:%s-arm:reachable" % kind, False, b.where(loc), "arm unreachable")
            continue
        r = iv.get(st, (ev, ()), "i32")
        if kind == "cp":
            ok = r[0] > -mate and r[1] < mate and r[1] < pos_inf and r[0] > -pos_inf and -r[0] == r[1]
            windows.add(mate - r[1] - 1)
            ctx.ob("send_search_info:cp-arm:interval", ok, b.where(loc),
                   "in the cp arm eval is in [%s, %s]; must be a symmetric interval strictly inside (-%d, %d): excludes the abort sentinel %d and every mate-range score" % (r[0], r[1], mate, mate, pos_inf))
        else:
            side = "+" if r[0] > 0 else "-"
            w = (mate - r[0]) if side == "+" else (r[1] + mate)
            windows.add(w)
            okw = 0 < w < 1000
            ctx.ob("send_search_info:mate%s-arm:window" % side, okw, b.where(loc), "mate%s arm entered for eval in [%s, %s] (window %s)" % (side, r[0], r[1], w))
            # R11.3: the printed N over the window
            nexprs = []
            for bb, t in b.iter_calls():
                c = t.get("callee_full") or ""
                if "new_display::<i32>" in c:
                    a = strip_refs(ex.call_args(bb)[0])
                    # which arm: the call block is in the same arm as the template
                    if b.node_dominates(bb, loc[0]) or b.node_dominates(loc[0], bb):
                        same = all((x in [d2[3:] for d2 in dominating_facts(b, ex, loc[0])]) or True for x in [])
                        if a != ("arg", ev) and ("arg", ev) in set(subexprs(a)):
                            # restrict to the arm: block must be dominated by the arm's guard edge set
                            fa = {(s, tg) for d, vals, excl, s, tg in dominating_facts(b, ex, bb)}
                            fl = {(s, tg) for d, vals, excl, s, tg in dominating_facts(b, ex, loc[0])}
                            if fa == fl:
                                nexprs.append((bb, a))
            if len(nexprs) != 1:
                ctx.ob("send_search_info:mate%s-arm:N-expression" % side, False, b.where(loc), "expected one computed mate distance in this arm, found %d" % len(nexprs), reason="shape-not-recognised")
                continue
            bbn, ne = nexprs[0]
            bad = []
            lo_p = 1 if side == "+" else 2
            for p in range(lo_p, w + 1):
                e = (mate - p) if side == "+" else -(mate - p)
                try:
                    n = eval_expr(ne, {("arg", ev): e})
                except Unknown:
                    raise ShapeNotRecognised("cannot evaluate `%s`" % show_expr(ne, b))
                want = (p + 1) // 2 if side == "+" else -(p // 2)
                if n != want:
                    bad.append((p, n, want))
            ctx.ob("send_search_info:mate%s-arm:N-arithmetic" % side, not bad, b.where(b.term_loc(bbn)),
                   "N = `%s` evaluated for mate at ply p = %d..=%d: %s" % (show_expr(ne, b)[:70], lo_p, w,
                                                                         "N is ceil(p/2) for the winner / -floor(p/2) for the loser, never 0" if not bad else "wrong at (ply, printed, expected) %s" % bad[:4]))
    ctx.ob("send_search_info:one-window", len(windows) == 1, b.file, "the three arms agree on the mate window: %s" % sorted(windows))


def r18_356(ctx):
    """Depth starts at 1 and only grows; lines are strictly improving within a depth; PV head is the
    accepted root move."""
    f = ctx.facts
    b = f.body(GBM)
    ctx.note_fn(GBM)
    ex = Exprs(b)
    calls = b.calls_to(SEND_INFO)
    if len(calls) != 1:
        raise ShapeNotRecognised("get_best_move: %d calls of send_search_info" % len(calls))
    cbb, ct = calls[0]
    args = ex.call_args(cbb)
    loc = b.term_loc(cbb)
    # R18.3 depth
    d = strip_refs(args[1])
    dl = root_local(d) if d[0] == "var" else None
    if dl is None:
        ctx.ob("get_best_move:depth-argument", False, b.where(loc), "depth argument `%s` is not the depth counter" % show_expr(d, b), reason="shape-not-recognised")
    else:
        loops = b.loops()
        inner = None
        for h, body_ in loops.items():
            if cbb in body_ and (inner is None or len(body_) < len(loops[inner])):
                inner = h
        nd = 0
        for dloc, kind in b.reaching().all_sites(dl):
            nd += 1
            bb, i = dloc
            st = b.stmts(bb)
            e = ex.rvalue(st[i]["rv"], dloc) if i < len(st) else ("opaque", "call")
            if e[0] == "const":
                ok = isinstance(e[1], int) and e[1] >= 1 and all(bb not in body_ for body_ in loops.values())
                ctx.ob("get_best_move:depth-init", ok, b.where(dloc), "depth counter initialised to %s before the loops; must be >= 1" % e[1])
            elif e[0] == "bin" and e[1] == "Add" and e[2][0] == "var" and e[2][1] == dl and e[3][0] == "const" and e[3][1] >= 1:
                ok = inner is None or bb not in loops[inner]
                ctx.ob("get_best_move:depth-increment", ok, b.where(dloc), "depth counter only grows, once per completed pass over the root moves")
            else:
                ctx.ob("get_best_move:depth-def#%d" % nd, False, b.where(dloc), "depth counter changed by `%s`" % show_expr(e, b)[:60])
    # R18.5 strictly increasing: call under `evaluation > alpha`, alpha = evaluation before the call
    evalu = strip_refs(args[2])
    gt = None
    for dd, vals, excl, s, tg in dominating_facts(b, ex, cbb):
        truth = (vals is None and excl == [0]) or vals == [1]
        if dd[0] == "bin" and dd[1] in ("Gt", "Lt") and truth:
            a, c = (dd[2], dd[3]) if dd[1] == "Gt" else (dd[3], dd[2])
            if strip_refs(a) == evalu and strip_refs(c)[0] == "var":
                gt = (s, strip_refs(c))
    ctx.ob("get_best_move:info-only-on-improvement", gt is not None, b.where(loc),
           "send_search_info(.., evaluation, ..) is dominated by `evaluation > alpha` (strict)")
    if gt is not None:
        al = gt[1][1]
        upd = None
        others = []
        for dloc, kind in b.reaching().all_sites(al):
            bb, i = dloc
            e = ex.rvalue(b.stmts(bb)[i]["rv"], dloc)
            if strip_refs(e) == evalu:
                upd = dloc
            else:
                others.append((dloc, e))
        ok = upd is not None and b.node_dominates(upd[0], cbb) and b.edge_dominates((gt[0], b.term(gt[0])["otherwise"]), upd[0])
        ctx.ob("get_best_move:alpha-raised-with-info", ok, b.where(upd) if upd else b.where(loc),
               "`alpha = evaluation` happens in the same guarded region before the line is printed, so the next line of this depth must beat it")
        neg_inf = f.const_value("engine::NEG_INF")
        for dloc, e in others:
            ctx.ob("get_best_move:alpha-other-def", e == ("const", neg_inf), b.where(dloc), "alpha is otherwise only reset to -infinity at the start of a depth (`%s`)" % show_expr(e, b))
    # R18.6 PV head
    ins = [(bb, t) for bb, t in b.iter_calls(callee=INS_LINE)]
    pvs = [bb for bb, t in b.iter_calls(callee=SET_PV)]
    absb = abs_calls(b)
    ok = False
    why = "insert_into_cur_line(0, mov) then set_principle_variation() between the sub-search and the info line"
    for ibb, it in ins:
        ia = ex.call_args(ibb)
        ply0 = ia[1] == ("const", 0)
        mov = strip_refs(ia[2])
        same_mov = any(strip_refs(ex.call_args(a)[2]) == mov for a in absb)
        order = any(b.node_dominates(a, ibb) for a in absb) and any(b.node_dominates(ibb, p) and b.node_dominates(p, cbb) for p in pvs)
        if ply0 and same_mov and order:
            ok = True
        else:
            why += " (ply 0: %s, same root move as searched: %s, order abs<insert<set_pv<info: %s)" % (ply0, same_mov, order)
    ctx.ob("get_best_move:pv-head-is-accepted-move", ok, b.where(loc), why)


def r18_7(ctx):
    """PV bookkeeping primitives: insert_into_cur_line stores the move's descriptor at the given ply,
    set_principle_variation copies the current line into the PV, the info line prints the PV array."""
    f = ctx.facts
    b = f.body(INS_LINE)
    ctx.note_fn(INS_LINE, SET_PV, SSI)
    ex = Exprs(b)
    ok = False
    for loc, st in b.iter_stmts():
        if st["k"] == "assign" and st["place"]["proj"]:
            names = [e.get("name") for e in st["place"]["proj"] if e["k"] == "field"]
            idx = [ex.local(e["local"], loc) for e in st["place"]["proj"] if e["k"] == "index"]
            if names[:1] == ["cur_line"] and len(idx) == 1:
                v = strip_refs(ex.rvalue(st["rv"], loc))
                i32p = params_by_type(b, "i32")
                ie = idx[0]
                while ie[0] == "cast":
                    ie = ie[2]
                ok = v[0] == "field" and v[2] == "last_move" and strip_refs(v[1])[0] == "arg" and i32p and ie == ("arg", i32p[0])
    ctx.ob("insert_into_cur_line", ok, b.file, "cur_line[ply] = mov.last_move")
    b = f.body(SET_PV)
    ex = Exprs(b)
    ok = False
    for bb, t in b.iter_calls():
        c = callee_of(t) or ""
        if c.endswith("clone_from_slice") or c.endswith("copy_from_slice"):
            a = ex.call_args(bb)
            flds = [[x[2] for x in subexprs(y) if x[0] == "field"] for y in a]
            ok = "pv_moves" in flds[0] and "cur_line" in flds[1]
    ctx.ob("set_principle_variation", ok, b.file, "pv_moves <- cur_line")
    b = f.body(SSI)
    ex = Exprs(b)
    ok = False
    for bb, t in b.iter_calls():
        c = callee_of(t) or ""
        if c.endswith("::into_iter"):
            a = ex.call_args(bb)[0]
            if any(x[0] == "field" and x[2] == "pv_moves" for x in subexprs(a)):
                ok = True
    ctx.ob("send_search_info:prints-pv_moves", ok, b.file, "the PV printed is search_info.pv_moves")
