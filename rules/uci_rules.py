"""UCI loop rules: R8.1 (the wait for the search has a move-independent exit), R17.3 (EOF on
stdin reaches an exit)."""
from wa.mir import AnchorMissing, ShapeNotRecognised, callee_of
from wa.expr import Exprs, data_slice, show_expr, strip_refs, subexprs, root_local
from wa.interp import eval_expr, Unknown

READ = "uci::read_from_gui"
LOOP_FN = "uci::play_game_uci"
FIND = "uci::find_and_play_best_move"
GET_BEST = "engine::get_best_move"
TRY_RECV_ERR = {"Empty": 0, "Disconnected": 1}   # std::sync::mpsc::TryRecvError (std, stable layout of discriminants by declaration order)


def _is_exit_call(t):
    c = callee_of(t) or ""
    return t["k"] == "call" and t.get("target") is None and c in ("std::process::exit", "std::process::abort")


def exits_process(body, start):
    """Every path from block `start` ends in process::exit (none returns, none panics elsewhere)."""
    seen = body.reach_from(start)
    if any(body.term(x)["k"] == "return" for x in seen):
        return False
    ends = [x for x in seen if not body.succ.get(x)]
    return bool(ends) and all(_is_exit_call(body.term(x)) for x in ends)


def leaf_terms(e):
    """Maximal non-arithmetic subexpressions."""
    k = e[0]
    if k in ("bin",):
        yield from leaf_terms(e[2])
        yield from leaf_terms(e[3])
    elif k in ("un", "cast"):
        yield from leaf_terms(e[2])
    elif k in ("const", "float", "char", "str"):
        return
    else:
        yield e


CONTENT_FALLIBLE = ("::read_line", "::read_to_string", "String::from_utf8", "str::from_utf8", "::from_utf8")
PANICKING_TAKES = ("Result::<T, E>::unwrap", "Result::<T, E>::expect", "Option::<T>::unwrap", "Option::<T>::expect")


def line_reads(b, ex):
    """The calls that read one line from the GUI: `read_line(&mut String)`, or `read_until(b'\\n', &mut Vec<u8>)`
    (the same framing on bytes).  Returns [(bb, term, kind, delimiter_ok)]."""
    out = []
    for bb, t in b.iter_calls():
        c = callee_of(t) or ""
        if c.endswith("::read_line"):
            out.append((bb, t, "read_line", True))
        elif c.endswith("::read_until"):
            a = ex.call_args(bb)
            out.append((bb, t, "read_until", len(a) >= 2 and strip_refs(a[1]) == ("const", 10)))
    return out


def r17_3(ctx):
    f = ctx.facts
    b = f.body(READ)
    ctx.note_fn(READ)
    ex = Exprs(b)
    lr = line_reads(b, ex)
    rl = [(bb, t) for bb, t, _k, _d in lr]
    if not rl:
        raise AnchorMissing("no line read (read_line / read_until) in %s" % READ)
    ctx.floor("read_line calls", len(rl), 1)
    for bb, t, kind, dok in lr:
        if kind == "read_until":
            ctx.ob("read_from_gui:line-delimiter", dok, b.where(b.term_loc(bb)), "read_until splits the input at the newline byte")
    # no line can kill the engine by its content: a step that fails on *what the bytes are* (decoding to
    # UTF-8: read_line, read_to_string, from_utf8) must not have its failure taken by unwrap/expect - a
    # garbage line is to be ignored, not to end the process
    nf = 0
    for bb2, t2 in b.iter_calls():
        c2 = callee_of(t2) or ""
        if not any(c2.endswith(x) for x in PANICKING_TAKES):
            continue
        a2 = ex.call_args(bb2)
        if not a2:
            continue
        src = [x for x in data_slice(ex, a2[0]) if x[0] == "call" and any(x[1].endswith(y) or y in x[1] for y in CONTENT_FALLIBLE) and "lossy" not in x[1]]
        if src:
            nf += 1
            ctx.ob("read_from_gui:content-cannot-panic#%d" % nf, False, b.where(b.term_loc(bb2)),
                   "`%s` takes the result of `%s`, which fails when the line is not valid UTF-8: such a garbage line terminates the engine instead of being ignored" % (
                       b.text_at(b.term_loc(bb2))[:60], src[0][1].split("::")[-1]))
    if nf == 0:
        ctx.ob("read_from_gui:content-cannot-panic", True, b.file, "no unwrap/expect in read_from_gui takes the result of a decoding step (read_line, from_utf8, ..): %d found" % nf, nontrivial=False)
    # the read *appends* to the buffer it is given (read_line / read_until both do): the buffer must be
    # empty at the call, otherwise a line is answered together with what an earlier call left behind -
    # a fresh local buffer per call, or a buffer of the caller that every returning path clears again
    from wa.mir import operand_alias, alias_of
    FRESH = ("::new", "::with_capacity", "::default")
    for bb, t in rl:
        al = operand_alias(b, t["args"][-1]) if t["args"] else None
        where = b.where(b.term_loc(bb))
        key = "read_from_gui:appending-read-starts-empty"
        if al and al[1] == "ref" and not al[2] and al[0] > b.arg_count:
            R = al[0]
            defs = []
            for bb2, t2 in b.iter_calls():
                d2 = t2["dest"]
                if d2["local"] == R and not d2["proj"]:
                    defs.append((bb2, callee_of(t2) or ""))
            for loc, st in b.iter_stmts():
                if st["k"] == "assign" and st["place"]["local"] == R and not st["place"]["proj"]:
                    defs.append((loc[0], "<assignment>"))
            fresh = bool(defs) and all(any(c.endswith(x) or (x + "(") in c for x in FRESH) for _b, c in defs) and all(b.node_dominates(db, bb) for db, _c in defs)
            in_loops = [h for _x, h in b.back_edges() if bb in b.natural_loop(h)]
            if fresh and in_loops:
                fresh = all(any(db in b.natural_loop(h) for db, _c in defs) for h in in_loops)
            ctx.ob(key, fresh, where, "the line is read into `%s`, %s" % (b.lname(R), "created empty in this call before the read" if fresh else
                   "which is not a buffer created empty before this read on every path (%s): an appending read returns the earlier content with the new line" % [c for _b, c in defs]))
        elif al and al[1] == "val" and al[0] <= b.arg_count:
            P = al[0]
            clears = set()
            for bb2, t2 in b.iter_calls():
                c2 = callee_of(t2) or ""
                if (c2.endswith("::clear") or c2.endswith("::truncate")) and t2["args"]:
                    a2 = operand_alias(b, t2["args"][0])
                    if a2 and a2[0] == P:
                        clears.add(bb2)
            stale = [r for r in b.return_blocks() if b.reaches(bb, r, removed_nodes=clears)]
            ctx.ob(key, not stale, b.where(b.term_loc(stale[0])) if stale else where,
                   "the line is read into the caller's buffer `%s`; %s" % (b.lname(P), "every returning path clears it again" if not stale else
                   "a path from the read to this return does not clear it: the bytes of that line stay in front of every later line (one undecodable line and no further command is ever recognised)"))
        else:
            ctx.ob(key, False, where, "cannot tell which buffer the appending read fills", reason="shape-not-recognised")
    for bb, t in rl:
        call = ex.call_expr(t, b.term_loc(bb))
        # a failed read is not a command: the Err outcome must end the process (as `unwrap` does), not hand
        # an empty line back to the command loop - a read that fails once (terminal gone, EIO) fails on every
        # further call, so the loop would spin forever instead of ending
        bad = None
        for s in b.normal:
            if s not in b.reachable or b.term(s)["k"] != "switch":
                continue
            d = ex.switch_discr(s)
            if not (d[0] == "discr" and strip_refs(d[1]) == call):
                continue
            tt = b.term(s)
            errs = [tg for val, tg in tt["cases"] if val == 1]
            if not errs and b.blocks[tt["otherwise"]]["term"]["k"] != "unreachable":
                errs = [tt["otherwise"]]
            for tg in errs:
                if not exits_process(b, tg) and any(b.term(x)["k"] == "return" for x in b.reach_from(tg)):
                    bad = (s, tg)
        for bb2, t2 in b.iter_calls():
            c2 = callee_of(t2) or ""
            if c2.endswith("Result::<T, E>::unwrap_or") or c2.endswith("Result::<T, E>::unwrap_or_default") or c2.endswith("Result::<T, E>::unwrap_or_else"):
                a2 = ex.call_args(bb2)
                if a2 and strip_refs(a2[0]) == call:
                    dflt = strip_refs(a2[1]) if len(a2) > 1 else ("const", 0)
                    if c2.endswith("unwrap_or_else") or not (dflt[0] == "const" and dflt[1] == 0):
                        bad = (bb2, bb2)
        ctx.ob("read_from_gui:read-error-ends", bad is None, b.where(b.term_loc(bad[0])) if bad else b.where(b.term_loc(bb)),
               "a failed read_line %s" % ("is handed back to the command loop as if it were a line: a persistent read error (terminal gone) makes the loop spin forever instead of ending the process" if bad else
                                          "never comes back as a line (it ends the process or counts as end of input)"))
        key = "read_from_gui:read_line-count"
        found = None
        for s in b.normal:
            if s not in b.reachable or b.term(s)["k"] != "switch":
                continue
            d = ex.switch_discr(s)
            if call not in set(subexprs(d)):
                continue
            xs = [x for x in set(leaf_terms(d)) if call in set(subexprs(x))]
            if len(xs) != 1:
                continue
            x = xs[0]
            # x must be the Ok payload (a usize), not the Result's own discriminant
            if x[0] == "discr":
                continue
            try:
                v0 = eval_expr(d, {x: 0})
                v1 = eval_expr(d, {x: 1})
            except Unknown:
                continue
            tt = b.term(s)

            def tgt(v):
                v = int(v)
                for val, tg in tt["cases"]:
                    if val == v:
                        return tg
                return tt["otherwise"]
            t0, t1 = tgt(v0), tgt(v1)
            if t0 == t1:
                continue
            found = (s, t0, t1, d)
            break
        if found is None:
            ctx.ob(key, False, b.where(b.term_loc(bb)),
                   "the byte count returned by read_line never reaches a comparison: end of input (0 bytes) is indistinguishable from an empty line, so the command loop spins on \"\" forever")
            continue
        s, t0, t1, d = found
        if exits_process(b, t0):
            ok1 = any(b.term(x)["k"] == "return" for x in b.reach_from(t1))
            ctx.ob(key, ok1, b.where(b.term_loc(s)),
                   "`%s`: the 0-byte edge ends the process; the non-zero edge %s" % (show_expr(d, b)[:100], "returns the line" if ok1 else "never returns"))
            continue
        # form 2: the EOF edge returns and the caller's loop leaves on that value
        ok = False
        why = "the 0-byte edge neither ends the process nor is told apart by the command loop"
        if f.has_body(LOOP_FN):
            lb = f.body(LOOP_FN)
            lex = Exprs(lb)
            loops = lb.loops()
            for cbb, ct in lb.iter_calls(callee=READ):
                inl = [h for h, body_ in loops.items() if cbb in body_]
                if not inl:
                    continue
                h = min(inl, key=lambda hh: len(loops[hh]))
                cexpr = lex.call_expr(ct, lb.term_loc(cbb))
                for sbb in loops[h]:
                    if lb.term(sbb)["k"] != "switch":
                        continue
                    dd = lex.switch_discr(sbb)
                    if cexpr not in data_slice(lex, dd):
                        continue
                    dleaf = [x for x in leaf_terms(dd)]
                    # an exit edge that does not need a command token: the discriminant must be of the
                    # returned value itself (Option / enum / bool), not of text parsed from it
                    if not any(x[0] == "discr" and strip_refs(x[1]) == cexpr for x in dleaf) and dd != cexpr:
                        continue
                    for tg in lb.succ.get(sbb, []):
                        if tg not in loops[h] or exits_process(lb, tg):
                            ok = True
                            why = "EOF is returned as a distinct value and the command loop leaves on it"
        ctx.ob(key, ok, b.where(b.term_loc(s)), why)


def r8_1(ctx):
    f = ctx.facts
    b = f.body(FIND)
    ctx.note_fn(FIND)
    ex = Exprs(b)
    tr = [(bb, t) for bb, t in b.iter_calls() if (callee_of(t) or "").endswith("::try_recv")]
    if not tr:
        # no polling at all: a blocking recv()/recv_timeout() design would need its own rule
        raise ShapeNotRecognised("no try_recv polling loop in %s" % FIND)
    loops = b.loops()
    key = "find_and_play_best_move:poll-loop"
    for bb, t in tr:
        inl = [h for h, body_ in loops.items() if bb in body_]
        if not inl:
            raise ShapeNotRecognised("try_recv is not inside a loop")
        h = min(inl, key=lambda hh: len(loops[hh]))
        loop = loops[h]
        call = ex.call_expr(t, b.term_loc(bb))
        # the local that stores a received move
        best = set()
        for loc, st in b.iter_stmts():
            if st["k"] == "assign" and not st["place"]["proj"] and loc[0] in loop:
                e = ex.rvalue(st["rv"], loc)
                if e[0] == "agg" and e[2] == "Some" and call in set(subexprs(e)):
                    best.add(st["place"]["local"])
        # (i) an edge on the Disconnected state of the channel that leaves the loop without
        #     needing a received move
        ok_i, why = False, "`Err(_)` is one undifferentiated arm: a disconnected channel (search ended without sending: mate/stalemate root) is treated like 'nothing yet', and leaving the loop needs a received move"

        def none_consistent(sbb, tg):
            d = ex.switch_discr(sbb)
            tt = b.term(sbb)
            vals = [v for v, x in tt["cases"] if x == tg]
            is_oth = tt["otherwise"] == tg
            if d[0] == "call" and d[1].endswith("::is_none") and root_local(d[2][0]) in best:
                return is_oth and 0 not in vals or (1 in vals)
            if d[0] == "call" and d[1].endswith("::is_some") and root_local(d[2][0]) in best:
                return 0 in vals
            if d[0] == "discr" and root_local(d[1]) in best and strip_refs(d[1])[0] in ("var",):
                return 0 in vals or (is_oth and 0 not in [v for v, _ in tt["cases"]])
            return True

        for sbb in loop:
            if b.term(sbb)["k"] != "switch":
                continue
            d = ex.switch_discr(sbb)
            if call not in set(subexprs(d)):
                continue
            if not (d[0] == "discr" and "TryRecvError" in d[2]):
                continue
            tt = b.term(sbb)
            dis = TRY_RECV_ERR["Disconnected"]
            tg = tt["otherwise"]
            listed = [v for v, _ in tt["cases"]]
            for v, x in tt["cases"]:
                if v == dis:
                    tg = x
            if tg == tt["otherwise"] and dis not in listed and TRY_RECV_ERR["Empty"] not in listed:
                continue  # both error states take the same edge: undifferentiated
            # search from tg, inside the loop, not through the header, honouring best == None
            seen, st = set(), [tg]
            while st:
                x = st.pop()
                if x in seen:
                    continue
                seen.add(x)
                if x not in loop:
                    ok_i = True
                    why = "the Disconnected edge leaves the wait at %s without needing a received move" % b.where(b.term_loc(x))
                    break
                if x == h:
                    continue
                for y in b.succ.get(x, []):
                    if b.term(x)["k"] == "switch" and not none_consistent(x, y):
                        continue
                    st.append(y)
            if ok_i:
                break
        # (ii) the producer must-sends: every normally completing path of get_best_move passes a send
        ok_ii = False
        if not ok_i and f.has_body(GET_BEST):
            gb = f.body(GET_BEST)
            ctx.note_fn(GET_BEST)
            sends = [sbb for sbb, st_ in gb.iter_calls() if (callee_of(st_) or "").endswith("Sender::<T>::send")]
            rets = gb.return_blocks()
            if sends and rets and 0 not in sends:
                ok_ii = all(not (r == 0 or gb.reaches(0, r, removed_nodes=sends)) for r in rets)
            if ok_ii:
                why = "every path of get_best_move sends before it returns"
            else:
                why += "; and get_best_move can return without sending (empty root move list: the move loop body never runs)"
        ctx.ob(key, ok_i or ok_ii, b.where(b.term_loc(bb)), why)
    ctx.floor("try_recv polling sites", len(tr), 1)


def r17_4(ctx):
    """`go` parser: tokens are scanned one at a time; a token that is not a known name advances the
    scan by exactly one token, a known name consumes itself and its value.

    Decided on the token scan (wa/ucishape.py): which token positions, relative to the position an
    iteration starts at, are compared with the known names (must be position 0), and by how many
    tokens the scan has moved when the loop header is reached again -- per hypothesis "the current
    token is <name>" / "is no known name" (the body is specialised under the name tests, so flags and
    step sizes chosen by the match collapse to the feasible definition).  The scan may be an index,
    an iterator, a peekable iterator or windows(2)."""
    from wa.cond import specialise
    from wa import ucishape
    f = ctx.facts
    b = f.body("uci::parse_go_command")
    ctx.note_fn("uci::parse_go_command")
    try:
        sc, exk = ucishape.token_scan(b)
    except ShapeNotRecognised as e:
        raise ShapeNotRecognised("parse_go_command: cannot establish that an unknown token advances the scan by exactly one token (%s)" % e)
    h = sc.h
    names = ucishape.keyword_tests(sc)
    ctx.floor("known go tokens", len(names), 5)
    for nm, (s, tt, ft, offs, d) in sorted(names.items()):
        ctx.ob("parse_go_command:token(%s):tests-current-token" % nm, offs == {0}, b.where(b.term_loc(s)),
               "`%s` is compared with the token at offset %s of the scan position; must be the current token (0)" % (nm, sorted(map(str, offs))))
    gts = [l for l in range(len(b.locals)) if b.local_ty(l) == "time_control::GameTime"]

    def under(which):
        hyp = {d: ("eq", nm == which) for nm, (s, tt, ft, offs, d) in names.items()}
        b2, ex2, dead = specialise(b, hyp, keep=sc.counters)
        lp2 = b2.natural_loop(h) if h in b2.reachable else set()
        return ucishape.Scan(b2, ex2, sc.src, h, lp2, sc.counters)

    dflt = under(None).steps
    ctx.ob("parse_go_command:unknown-token-advances-by-one", dflt == {1}, b.where(b.term_loc(h)),
           "when no known name matches, the scan advances by %s per iteration (must be exactly 1, so the next token is examined)" % sorted(map(str, dflt)))
    for nm, (s, tt, ft, offs, d) in sorted(names.items()):
        sc2 = under(nm)
        st = sc2.steps
        ok = st == {2}
        why = "after `%s <value>` the scan advances by %s (must be 2)" % (nm, sorted(map(str, st)))
        if st == {1}:
            # resuming at the value token itself is the same scan when that token is known not to be
            # a name: it was parsed into an integer field (unwrap: the parse succeeded) on every
            # path of the iteration, and no text of an integer equals a known name
            b2, ex2 = sc2.b, sc2.ex
            for loc, stt in b2.iter_stmts():
                p = stt["place"] if stt["k"] == "assign" else None
                if p is None or loc[0] not in sc2.loop or p["local"] not in gts or not p["proj"] or p["proj"][0]["k"] != "field":
                    continue
                ty = f.struct_field_ty("time_control::GameTime", p["proj"][0]["name"]) or ""
                integer = ty.replace("std::option::Option<", "").rstrip(">") in ("i8", "i16", "i32", "i64", "i128", "isize", "u8", "u16", "u32", "u64", "u128", "usize")
                e = ex2.rvalue(stt["rv"], loc)
                unwrapped = any(x[0] == "call" and x[1].endswith("::unwrap") and any(y[0] == "call" and y[1].endswith("<impl str>::parse") for y in subexprs(x)) for x in subexprs(e))
                toks = [sc2.token_offsets(a) for a in ucishape.parsed_tokens(f, e)]
                always = not b2.reaches(tt, h, removed_nodes={loc[0]}) and tt != h
                if integer and unwrapped and toks == [{1}] and always:
                    ok = True
                    why = "after `%s <value>` the scan resumes at the value token, which was parsed into the integer field %s (so it is no known name): same scan as advancing by 2" % (nm, p["proj"][0]["name"])
        ctx.ob("parse_go_command:token(%s):consumes-name-and-value" % nm, ok, b.where(b.term_loc(s)), why)


BLOCKING = ("std::sync::mpsc::Receiver::<T>::recv", "std::sync::mpsc::Receiver::<T>::iter", "std::thread::JoinHandle::<T>::join",
            "<std::sync::mpsc::Receiver<T> as std::iter::IntoIterator>::into_iter", "<&'a std::sync::mpsc::Receiver<T> as std::iter::IntoIterator>::into_iter",
            "std::sync::Mutex::<T>::lock", "std::sync::Condvar::wait", "std::sync::Barrier::wait", "std::thread::park")


def r8_3(ctx):
    """The reply does not depend on the search thread's cooperation: (a) the only Sender is moved
    into the search thread, so the channel disconnects when the search ends; (b) the reply path
    makes no unbounded blocking call (recv / iter / join / lock)."""
    f = ctx.facts
    b = f.body(FIND)
    ctx.note_fn(FIND)
    ex = Exprs(b)
    senders = [l for l in range(len(b.locals)) if b.local_ty(l).startswith("std::sync::mpsc::Sender<")]
    ctx.floor("Sender locals in find_and_play_best_move", len(senders), 1)
    import json
    for l in senders:
        moved_into_closure = False
        other = []
        pat = '"local": %d,' % l
        for loc, st in b.iter_stmts():
            if st["k"] != "assign":
                continue
            rv = st["rv"]
            if rv["k"] == "aggregate" and rv.get("agg") == "closure":
                for fo in rv["fields"]:
                    if fo["k"] == "move" and fo["place"]["local"] == l and not fo["place"]["proj"]:
                        moved_into_closure = True
                    elif fo["k"] in ("copy", "move") and fo["place"]["local"] == l:
                        other.append(loc)
            elif pat in json.dumps(rv) or ('"local": %d}' % l) in json.dumps(rv):
                # moves between temporaries of the same value are fine; borrows are not
                if rv["k"] == "ref":
                    other.append(loc)
        for bb, t in b.iter_calls():
            for a in t["args"]:
                al = None
                from wa.mir import operand_alias
                al = operand_alias(b, a)
                if al and al[0] == l:
                    other.append(b.term_loc(bb))
        # senders that are only temporaries on the way into the closure are identified by aliasing
        if not moved_into_closure:
            # maybe this local is moved into another Sender local that is (channel() tuple field moves)
            feeds = [l2 for l2 in senders if l2 != l and any(
                st["k"] == "assign" and st["place"]["local"] == l2 and st["rv"]["k"] == "use" and st["rv"]["op"]["k"] == "move" and
                st["rv"]["op"]["place"]["local"] == l for _, st in b.iter_stmts())]
            if feeds:
                continue
        ok = moved_into_closure and not other
        ctx.ob("find_and_play_best_move:sender(%s):moved-into-search-thread" % b.lname(l), ok, b.where(other[0]) if other else b.file,
               "the channel's Sender must be owned by the search thread alone (moved into the spawned closure: %s; other uses: %s) — a sender kept alive elsewhere means try_recv never reports Disconnected and a move-less search is waited for forever" % (
                   moved_into_closure, [b.where(o) for o in other[:3]]))
    for bb, t in b.iter_calls():
        c = callee_of(t) or ""
        if c in BLOCKING:
            ctx.ob("find_and_play_best_move:blocking-call:%s" % c.split("::")[-1], False, b.where(b.term_loc(bb)),
                   "`%s` blocks until the search thread acts; the reply must be sent on the command thread's own clock" % c)
    ctx.ob("find_and_play_best_move:no-unbounded-blocking", True, b.file, "callees checked against the blocking list", nontrivial=False)


def _peel_view(e):
    """Through borrows and the view conversions that do not change the items (`&v`, `&*v`,
    Vec::deref / as_slice / borrow / as_ref, String::deref / as_str)."""
    while True:
        e = strip_refs(e)
        if e[0] == "call" and len(e[2]) == 1 and (e[1].endswith("as std::ops::Deref>::deref") or e[1].endswith("::as_slice") or e[1].endswith("::as_str")
                                                  or e[1].endswith(">::borrow") or e[1].endswith(">::as_ref")):
            e = e[2][0]
            continue
        return e


def _clean_input_by_split_join(ctx, b, ex):
    """The same normalisation stated with the library: `buffer.split_whitespace()` yields exactly the
    maximal runs of non-whitespace characters, unchanged and in order, never an empty one
    (char::is_whitespace, the definition the loop form tests); `join(" ")` writes one space between
    consecutive items and nothing before the first or after the last.  Decides the same four
    obligations as the loop form; returns False when the function is not of this form."""
    rets = b.return_blocks()
    if len(rets) != 1 or b.loops():
        return False
    e = _peel_view(ex.local(0, b.term_loc(rets[0])))
    # `.to_string()` / `String::from` of the joined text do not change it
    while e[0] == "call" and len(e[2]) == 1 and (e[1].endswith("ToString>::to_string") or e[1].endswith("::to_owned") or e[1].endswith("Clone>::clone")):
        e = _peel_view(e[2][0])
    if not (e[0] == "call" and len(e[2]) == 2 and (e[1].endswith("<impl [T]>::join") or e[1].endswith("::join"))):
        return False
    items, sep = _peel_view(e[2][0]), strip_refs(e[2][1])
    if not (items[0] == "call" and items[1].endswith("Iterator::collect") and len(items[2]) == 1):
        return False
    src = _peel_view(items[2][0])
    sp = [i for i in range(1, b.arg_count + 1) if b.local_ty(i) == "&str"]
    is_sw = src[0] == "call" and src[1] == "core::str::<impl str>::split_whitespace" and len(sp) == 1 and _peel_view(src[2][0]) == ("arg", sp[0])
    where = b.where(b.term_loc(rets[0]))
    ctx.ob("clean_input:copy-non-whitespace", is_sw, where,
           "the items joined are `%s`; must be split_whitespace() of the input: the maximal runs of non-whitespace characters, copied unchanged" % show_expr(src, b)[:80])
    ctx.ob("clean_input:single-space", sep == ("str", " "), where, "the separator written between two runs is `%s`; must be one space" % show_expr(sep, b))
    ctx.ob("clean_input:previous-tracks-current", is_sw, b.file, "runs are maximal: split_whitespace never yields an empty item, so a whitespace run of any length gives one separator")
    ctx.ob("clean_input:trimmed", is_sw and e[1].endswith("join"), b.file, "join writes separators only between items: nothing before the first run or after the last")
    return True


def r17_5(ctx):
    """clean_input: a character is copied iff it is not whitespace; a single space is emitted for a
    whitespace character only when the previous character was not whitespace; the result is trimmed."""
    from wa.cond import dominating_facts
    f = ctx.facts
    b = f.body("utils::clean_input")
    ctx.note_fn("utils::clean_input")
    ex = Exprs(b)
    pushes = [(bb, t) for bb, t in b.iter_calls() if (callee_of(t) or "").endswith("String::push")]
    if not pushes and _clean_input_by_split_join(ctx, b, ex):
        return
    kinds = {}
    item = None
    for bb, t in pushes:
        a = strip_refs(ex.call_args(bb)[1])
        ws = {}
        for d, vals, excl, s, tg in dominating_facts(b, ex, bb):
            truth = True if ((vals is None and excl == [0]) or vals == [1]) else (False if vals == [0] else None)
            d0 = strip_refs(d)
            if truth is None:
                continue
            if d0[0] == "un" and d0[1] == "Not":
                d0, truth = strip_refs(d0[2]), not truth
            if d0[0] == "call" and d0[1].endswith("<impl char>::is_whitespace"):
                ws[strip_refs(d0[2][0])] = truth
            elif d0[0] == "var" and b.local_ty(d0[1]) == "bool":
                ws[d0] = truth          # a remembered condition (decided below by what it is assigned)
        if a == ("char", " "):
            kinds["space"] = (bb, ws)
        else:
            kinds["copy"] = (bb, ws, a)
            item = a
    ok = set(kinds) == {"space", "copy"}
    if ok:
        cb, cws, ca = kinds["copy"]
        sb, sws = kinds["space"]
        cws = {k: v for k, v in cws.items() if not (k[0] == "var" and b.local_ty(k[1]) == "bool")}
        ok_copy = cws == {ca: False} and ca[0] == "field" and ca[1][0] == "downcast"   # the loop item
        others = [k for k in sws if k != ca]
        # what the one other fact remembers about the previous character: the character itself
        # (`prev = c`, tested with is_whitespace) or its classification (`flag = c.is_whitespace()`,
        # possibly negated); in both cases it must be re-assigned from the current item on every iteration
        ok_space, ok_prev = False, False
        if sws.get(ca) is True and len(others) == 1 and others[0][0] == "var":
            pl = others[0][1]
            is_flag = b.local_ty(pl) == "bool"
            means = set()       # 'ws': carrier true <=> previous char is whitespace; 'notws': the negation
            every = True
            lps = b.loops()
            for loc, k in b.reaching().all_sites(pl):
                inl = [h for h, body_ in lps.items() if loc[0] in body_]
                if not inl:
                    continue
                if k != "whole" or loc[1] >= len(b.stmts(loc[0])):
                    means.add("?")
                    continue
                e = strip_refs(ex.rvalue(b.stmts(loc[0])[loc[1]]["rv"], loc))
                neg = False
                if e[0] == "un" and e[1] == "Not":
                    e, neg = strip_refs(e[2]), True
                if not is_flag and e == ca and not neg:
                    means.add("ws")
                elif is_flag and e[0] == "call" and e[1].endswith("<impl char>::is_whitespace") and strip_refs(e[2][0]) == ca:
                    means.add("notws" if neg else "ws")
                else:
                    means.add("?")
                # executed on every iteration: no way from either push back to the header around it
                every = every and not b.reaches(cb, inl[0], removed_nodes={loc[0]}) and not b.reaches(sb, inl[0], removed_nodes={loc[0]})
            if means == {"ws"}:
                ok_space = sws[others[0]] is False
            elif means == {"notws"}:
                ok_space = sws[others[0]] is True
            ok_prev = means in ({"ws"}, {"notws"}) and every
        ctx.ob("clean_input:copy-non-whitespace", ok_copy, b.where(b.term_loc(cb)), "a character is pushed unchanged exactly under !is_whitespace(c)")
        ctx.ob("clean_input:single-space", ok_space, b.where(b.term_loc(sb)), "a space is pushed exactly under is_whitespace(c) && !is_whitespace(previous)")
        ctx.ob("clean_input:previous-tracks-current", ok_prev, b.file, "what is remembered about the previous character is re-assigned from the current one on every iteration")
    else:
        ctx.ob("clean_input:push-sites", False, b.file, "expected one copying push and one space push, found %s" % sorted(kinds), reason="shape-not-recognised")
    rets = []
    for loc, st in b.iter_stmts():
        if st["k"] == "assign" and st["place"]["local"] == 0:
            rets.append(ex.rvalue(st["rv"], loc))
    for bb, t in b.iter_calls():
        if t["dest"]["local"] == 0:
            rets.append(ex.call_expr(t, b.term_loc(bb)))
    okr = len(rets) == 1 and any(x[0] == "call" and x[1].endswith("<impl str>::trim") for x in subexprs(rets[0]))
    ctx.ob("clean_input:trimmed", okr, b.file, "the result is the trimmed buffer")


# entry points the reply path (find_and_play_best_move and the helpers it runs on the command
# thread) may call without a panic being possible, one reason each
REPLY_NOPANIC = {
    "std::sync::mpsc::channel": "constructor",
    "std::thread::spawn": "panics only if the OS cannot create a thread (treated as an environment failure)",
    "std::sync::mpsc::Receiver::<T>::try_recv": "returns Result",
    "std::time::Duration::from_millis": "constructor",
    "std::thread::sleep": "no panic",
    "std::time::Instant::now": "no panic",
    "std::time::Instant::duration_since": "saturating since Rust 1.60",
    "std::time::Instant::elapsed": "saturating",
    "std::time::Duration::as_millis": "field arithmetic in u128",
    "std::option::Option::<T>::is_none": "discriminant test",
    "std::option::Option::<T>::is_some": "discriminant test",
    "std::option::Option::<T>::unwrap_or": "total",
    "<std::string::String as std::ops::Deref>::deref": "total (pointer and length of the buffer)",
    "std::option::Option::<T>::take": "total (mem::replace with None)", "std::option::Option::<T>::replace": "total",
    "std::option::Option::<T>::as_ref": "total", "std::option::Option::<T>::as_mut": "total",
    "<std::sync::mpsc::TryRecvError as std::cmp::PartialEq>::eq": "derived comparison of a field-less enum",
    "<std::sync::mpmc::TryRecvError as std::cmp::PartialEq>::eq": "derived comparison of a field-less enum",
    "<std::sync::mpsc::TryRecvError as std::cmp::PartialEq>::ne": "derived comparison of a field-less enum",
    "<std::sync::mpmc::TryRecvError as std::cmp::PartialEq>::ne": "derived comparison of a field-less enum",
    "std::f64::<impl f64>::round": "total",
    "std::cmp::Ord::min": "total", "std::cmp::Ord::max": "total", "std::cmp::min": "total", "std::cmp::max": "total",
    "std::time::Duration::saturating_sub": "saturating", "std::time::Duration::checked_sub": "returns Option",
    "<board::BoardState as std::clone::Clone>::clone": "allocation only",
    "<draw_table::DrawTable as std::clone::Clone>::clone": "allocation only",
}
REPLY_PANICKY_HINT = ("as std::ops::Sub", "as std::ops::Add", "as std::ops::Mul", "as std::ops::Div", "::unwrap", "::expect", "Index", "::remove", "::split_at",
                      "::copy_from_slice", "::checked_", "core::panicking", "std::rt::begin_panic")


def r8_4(ctx):
    """The reply path cannot panic for reasons of its own: every call made by
    find_and_play_best_move and by the clock helpers it uses is either known not to panic or is an
    `unwrap` discharged by the loop's exit condition."""
    from wa.cond import bool_facts
    f = ctx.facts
    # the clock predicate is examined where it lives: as a function of its own, or (a method of a
    # clock object that is out of the reference vocabulary) inlined into find_and_play_best_move
    fns = [FIND] + [x for x in ("utils::out_of_time", "time_control::GameTime::calculate_time_slice") if f.has_body(x)]
    # plus any crate-local helper FIND calls directly that is not the search, the parser or the printers
    b0 = f.body(FIND)
    skip = {"uci::parse_go_command", "uci::send_best_move_to_gui", "uci::send_to_gui", "engine::get_best_move", "board::BoardState::simple_board"}
    for bb, t in b0.iter_calls():
        c = callee_of(t)
        if c and f.has_body(c) and c not in skip and c not in fns and not c.startswith("<"):
            fns.append(c)
    # and helpers of helpers (one level)
    for fn in list(fns):
        for bb, t in f.body(fn).iter_calls():
            c = callee_of(t)
            if c and f.has_body(c) and c not in skip and c not in fns and not c.startswith("<"):
                fns.append(c)
    ctx.note_fn(*fns)
    n = 0
    for fn in fns:
        b = f.body(fn)
        ex = Exprs(b)
        short = fn.split("::")[-1]
        for bb, t in b.iter_calls():
            c = callee_of(t) or ""
            if f.has_body(c) or c in REPLY_NOPANIC:
                continue
            if t["span"].get("exp") and (c.startswith("log::") or c.startswith("std::fmt::") or c.startswith("core::fmt::") or "PartialOrd" in c or c.startswith("std::hint::") or "as std::ops::Deref" in c):
                continue    # logging macro expansion
            n += 1
            loc = b.term_loc(bb)
            if c.endswith("Option::<T>::unwrap"):
                a = strip_refs(ex.call_args(bb)[0])
                bf = bool_facts(b, ex, bb)
                ok = any(d[0] == "call" and d[1].endswith("::is_none") and v is False and root_local(d[2][0]) == root_local(a) for d, v in bf.items()) or \
                    any(d[0] == "call" and d[1].endswith("::is_some") and v is True and root_local(d[2][0]) == root_local(a) for d, v in bf.items())
                if not ok and a[0] == "field" and a[2] == "last_move":
                    # the move descriptor of the board being announced (what the reply helper unwraps,
                    # wherever its body lives): Some on every board the search sends (R2.1 / R2.7), so
                    # it is discharged when that board can only be one received from the channel
                    sl = data_slice(ex, a[1])
                    from_recv = any(x[0] == "call" and x[1].endswith("::try_recv") for x in sl)
                    from_param = any(x[0] in ("arg", "mem") and "BoardState" in b.local_ty(x[1]) for x in sl)
                    if from_recv and not from_param:
                        ctx.ob("%s:unwrap(last_move)" % short, True, b.where(loc), "`%s.unwrap()`: the board comes from the search channel only, and every board the search sends carries its move descriptor (R2.1)" % show_expr(a, b)[:50])
                        continue
                ctx.ob("%s:unwrap(%s)" % (short, b.lname(root_local(a)) if root_local(a) is not None else "?"), ok, b.where(loc),
                       "`%s.unwrap()` is reached only when the value is known to be Some (loop exit condition)" % show_expr(a, b)[:40])
                continue
            panicky = any(h in c for h in REPLY_PANICKY_HINT)
            ctx.ob("%s:call:%s" % (short, c.split("::")[-1] if not c.startswith("<") else c[:60]), False, b.where(loc),
                   "`%s` on the command thread's reply path%s: a panic here kills the UCI loop, no bestmove and no readyok afterwards" % (
                       c, " can panic (overflow/underflow/None)" if panicky else " is not in the table of calls known not to panic"),
                   reason="rule-breach" if panicky else "shape-not-recognised")
        # compiler-inserted asserts in these functions
        for bb in b.normal:
            if bb in b.reachable and b.term(bb)["k"] == "assert":
                n += 1
                from wa.absint import Intervals
                ok, d = Intervals(b).assert_holds(bb)
                ctx.ob("%s:assert:%s" % (short, b.term(bb)["assert_kind"]), ok, b.where(b.term_loc(bb)), d)
    ctx.ob("reply-path-calls-classified", True, "", "%d call/assert sites outside the tables examined in %s" % (n, [x.split("::")[-1] for x in fns]), nontrivial=False)


def r9_7(ctx):
    """Once a move has been received the wait ends only through the expired edge of
    out_of_time(start, slice): the reply is neither early nor dependent on the search thread ending."""
    f = ctx.facts
    b = f.body(FIND)
    ctx.note_fn(FIND)
    ex = Exprs(b)
    tr = [(bb, t) for bb, t in b.iter_calls() if (callee_of(t) or "").endswith("::try_recv")]
    if not tr:
        raise ShapeNotRecognised("no try_recv polling loop in %s" % FIND)
    loops = b.loops()
    # the *wait* loop is the innermost loop around a try_recv that also tests the clock; a loop that only
    # drains the channel after the deadline (`while let Ok(b) = rx.try_recv()`) is not it
    from wa.implied import implying_edges as _ie
    from .search import clock_test as _ct
    clock_blocks = {s for s, tg, (e, truth), fresh, lastdefs in _ie(b, ex, lambda e, t: _ct(e, t) is not None)}
    cand = []
    for bb_, t_ in tr:
        inl_ = [h for h, body_ in loops.items() if bb_ in body_]
        if not inl_:
            continue
        h_ = min(inl_, key=lambda hh: len(loops[hh]))
        cand.append((bb_, t_, h_))
    if not cand:
        raise ShapeNotRecognised("try_recv is not inside a loop")
    with_clock = [c for c in cand if clock_blocks & set(loops[c[2]])]
    bb, t, h = (with_clock or cand)[0]
    loop = loops[h]
    call = ex.call_expr(t, b.term_loc(bb))
    best = set()
    for loc, st in b.iter_stmts():
        if st["k"] == "assign" and not st["place"]["proj"] and loc[0] in loop:
            e = ex.rvalue(st["rv"], loc)
            if e[0] == "agg" and e[2] == "Some" and call in set(subexprs(e)):
                best.add(st["place"]["local"])
    # edges that say "the clock has expired"
    # (the deadline test may be the call of out_of_time, its negation, a named boolean built from it,
    # or the comparison `elapsed_ms(start) >= slice` it stands for: rules/search.py::clock_test)
    from wa.implied import implying_edges
    from .search import clock_test
    ot_true = set()
    for s, tg, (e, truth), fresh, lastdefs in implying_edges(b, ex, lambda e, t: clock_test(e, t) is not None):
        ct = clock_test(e, truth)
        if s in loop and ct[0] is True:
            ot_true.add((s, tg))
    # edges inconsistent with "a move is in hand" (best is Some)
    refuted = set()
    for s in loop:
        if b.term(s)["k"] != "switch":
            continue
        d = ex.switch_discr(s)
        tt = b.term(s)
        for tg in b.succ.get(s, []):
            vals = [v for v, x in tt["cases"] if x == tg]
            is_oth = tt["otherwise"] == tg
            if d[0] == "call" and d[1].endswith("::is_none") and root_local(d[2][0]) in best:
                if is_oth and 0 in [v for v, _ in tt["cases"]] and 0 not in vals:
                    refuted.add((s, tg))       # is_none == true
            if d[0] == "call" and d[1].endswith("::is_some") and root_local(d[2][0]) in best and vals == [0]:
                refuted.add((s, tg))
    exits = {(x, y) for x in loop for y in b.succ.get(x, []) if y not in loop}
    # from the point where a move has just been stored, can the loop be left without the expiry edge?
    stores = [loc[0] for loc, st in b.iter_stmts() if st["k"] == "assign" and not st["place"]["proj"] and st["place"]["local"] in best and loc[0] in loop]
    bad = []
    for sb in stores:
        seen = b.reach_from(sb, (), ot_true | refuted)
        for (x, y) in exits:
            if x in seen and (x, y) not in ot_true and (x, y) not in refuted:
                bad.append((x, y))
    ctx.ob("find_and_play_best_move:wait-ends-on-expiry-only", not bad and bool(stores) and bool(ot_true), b.where(b.term_loc(bad[0][0])) if bad else b.where(b.term_loc(h)),
           "with a move in hand the polling loop is left only through `out_of_time(start, slice) == true`%s" % (
               "" if not bad else ": NOT so — it can also be left at %s (e.g. when the search thread ends early), so the reply does not wait for the planned time" % b.where(b.term_loc(bad[0][0]))))
