"""Chess oracle tables (FIDE / FEN / UCI facts) in algebraic notation, independent of the code,
and the translation to the engine's 12x12 mailbox coordinates (file a..h -> column 2..9, rank
8..1 -> row 2..9; this mapping is what R3.6 pins against Point::from_str / Point::fmt)."""

FILES = "abcdefgh"


def sq(name):
    """algebraic square -> (row, col) in the 12x12 board."""
    return (10 - int(name[1]), FILES.index(name[0]) + 2)


def name(rc):
    return "%s%d" % (FILES[rc[1] - 2], 10 - rc[0])


# castling right -> (king from, king to, rook from, rook to, squares that must be empty,
#                    squares the king crosses/lands on that must not be attacked)
CASTLING = {
    "WhiteKingSide": ("e1", "g1", "h1", "f1", ["f1", "g1"], ["f1", "g1"]),
    "WhiteQueenSide": ("e1", "c1", "a1", "d1", ["b1", "c1", "d1"], ["d1", "c1"]),
    "BlackKingSide": ("e8", "g8", "h8", "f8", ["f8", "g8"], ["f8", "g8"]),
    "BlackQueenSide": ("e8", "c8", "a8", "d8", ["b8", "c8", "d8"], ["d8", "c8"]),
}
RIGHT_COLOUR = {"WhiteKingSide": "White", "WhiteQueenSide": "White", "BlackKingSide": "Black", "BlackQueenSide": "Black"}
# rook home corner -> the right that dies when a piece leaves it or lands on it
CORNER_RIGHT = {"h1": "WhiteKingSide", "a1": "WhiteQueenSide", "a8": "BlackQueenSide", "h8": "BlackKingSide"}
ROOK_DIRS = {(1, 0), (-1, 0), (0, 1), (0, -1)}
BISHOP_DIRS = {(1, 1), (1, -1), (-1, 1), (-1, -1)}
KNIGHT_OFFSETS = {(1, 2), (1, -2), (2, 1), (2, -1), (-1, 2), (-1, -2), (-2, -1), (-2, 1)}
# pawns: direction of travel in row index, start row (double step from), row reached by a double
# step, row from which en passant is captured, promotion row
PAWN = {"White": {"dir": -1, "start": sq("a2")[0], "ep_from": sq("a5")[0], "promo": sq("a8")[0]},
        "Black": {"dir": +1, "start": sq("a7")[0], "ep_from": sq("a4")[0], "promo": sq("a1")[0]}}
PROMOTION_KINDS = {"Queen", "Knight", "Bishop", "Rook"}
PROMOTION_LETTERS = {"q": "Queen", "r": "Rook", "b": "Bishop", "n": "Knight"}
FEN_LETTERS = {"p": "Pawn", "n": "Knight", "b": "Bishop", "r": "Rook", "q": "Queen", "k": "King"}
