"""Search rules: R7.1-R7.3 (time-out safety), R10.5 (repetition table balance), R3.2 (provenance
of sent boards), R11.1 (terminal node), R12.1/R12.2 (negamax discipline), R18.x (info lines)."""
from wa.mir import AnchorMissing, ShapeNotRecognised, callee_of, operand_alias
from wa.expr import Exprs, show_expr, subexprs, strip_refs, data_slice, root_local
from wa.flow import forward_states
from wa.cond import dominating_facts, specialise
from wa.implied import implying_edges, known_atoms, known_switch_facts, feasible_reach, edge_truths
from wa import loopform
from wa.linear import linear

ABS = "engine::alpha_beta_search"
QUIESCE = "engine::quiesce"
GBM = "engine::get_best_move"
OOT = "utils::out_of_time"
SEND_INFO = "engine::send_search_info"
SET_PV = "search::Search::set_principle_variation"
INS_LINE = "search::Search::insert_into_cur_line"
GEN = "move_generation::generate_moves"
IS_CHECK = "move_generation::is_check"
ADD = "draw_table::DrawTable::add_board_to_draw_table"
REMOVE = "draw_table::DrawTable::remove_board_from_draw_table"
IS3 = "draw_table::DrawTable::is_threefold_repetition"


def search_const(f, name):
    """Value of a search constant (MATE_SCORE, POS_INF, NEG_INF) wherever the crate defines it: the
    engine module, or the one const item of that name."""
    if f.has_const("engine::" + name):
        return f.const_value("engine::" + name)
    cands = [k for k in f.d["consts"] if k.split("::")[-1] == name]
    if len(cands) != 1:
        raise AnchorMissing("const `%s` not found (candidates: %s)" % (name, cands))
    return f.const_value(cands[0])


def params_by_type(b, ty):
    return [i for i in range(1, b.arg_count + 1) if b.local_ty(i) == ty]


def one_param(b, ty):
    ps = params_by_type(b, ty)
    if len(ps) != 1:
        raise ShapeNotRecognised("%s: expected one parameter of type %s, found %d" % (b.name, ty, len(ps)))
    return ps[0]


def param_continuations(b):
    """{local: parameter}: a named local that is initialised with the value of a parameter which is
    itself never reassigned *is* that parameter from then on (`fn f(alpha) { g(alpha) }` +
    `fn g(mut alpha)` after inlining, or `let mut a = alpha;`).  Rules that speak about "this node's
    alpha / beta / depth" look a local up here before comparing it with the parameter."""
    from wa.mir import alias_of
    rd = b.reaching()
    out = {}
    for l in range(b.arg_count + 1, len(b.locals)):
        if l not in b.names:
            continue
        whole = [loc for loc, kind in rd.all_sites(l) if kind == "whole"]
        for loc in whole:
            bb, i = loc
            st = b.stmts(bb)
            if i >= len(st):
                continue
            rv = st[i]["rv"]
            if not (rv["k"] == "use" and rv["op"]["k"] in ("copy", "move") and not rv["op"]["place"]["proj"]):
                continue
            p, mode, _ = alias_of(b, rv["op"]["place"]["local"])
            if mode != "val":
                continue
            p = out.get(p, p)
            if not (1 <= p <= b.arg_count) or b.local_ty(p) != b.local_ty(l):
                continue
            if any(kind == "whole" for _, kind in rd.all_sites(p)):
                continue        # the parameter is reassigned: the local is a snapshot, not the parameter
            if all(b.node_dominates(bb, o[0]) for o in whole):
                out[l] = p
            break
    return out


def _canon(b, l):
    if not hasattr(b, "_param_cont"):
        b._param_cont = param_continuations(b)
    return b._param_cont.get(l, l)


def return_carriers(b):
    """Locals whose value is the function result: the return place and every local that is only ever
    moved into such a local (`let score = ..; score`, the result local of an inlined helper)."""
    R = {0}
    changed = True
    while changed:
        changed = False
        for loc, st in b.iter_stmts():
            if st["k"] != "assign" or st["place"]["proj"] or st["place"]["local"] not in R:
                continue
            rv = st["rv"]
            if rv["k"] == "use" and rv["op"]["k"] in ("copy", "move") and not rv["op"]["place"]["proj"]:
                y = rv["op"]["place"]["local"]
                if y in R or y <= b.arg_count or b.local_ty(y) != b.local_ty(0):
                    continue
                # y is a carrier if every use of y is such a move into a carrier
                ok = True
                for u in _uses_of_local(b, y):
                    ubb, ui = u
                    sts = b.stmts(ubb)
                    if ui >= len(sts):
                        ok = False
                        break
                    s2 = sts[ui]
                    r2 = s2["rv"]
                    if not (s2["k"] == "assign" and not s2["place"]["proj"] and r2["k"] == "use" and r2["op"]["k"] in ("copy", "move") and
                            not r2["op"]["place"]["proj"] and r2["op"]["place"]["local"] == y and
                            (s2["place"]["local"] in R or s2["place"]["local"] == st["place"]["local"])):
                        ok = False
                        break
                # and it is not a user variable that is also read elsewhere (checked above); accumulators such
                # as `best_score` have other uses (comparisons) and stay ordinary locals
                if ok:
                    R.add(y)
                    changed = True
    return R


def return_sites(b):
    """[(loc, stmt-or-None)] where the function result is produced: assignments (and call
    destinations, stmt None) to a return carrier whose value is not just another carrier."""
    R = return_carriers(b)
    out = []
    for loc, st in b.iter_stmts():
        if st["k"] != "assign" or st["place"]["proj"] or st["place"]["local"] not in R:
            continue
        rv = st["rv"]
        if rv["k"] == "use" and rv["op"]["k"] in ("copy", "move") and not rv["op"]["place"]["proj"] and rv["op"]["place"]["local"] in R:
            continue
        out.append((loc, st))
    for bb, t in b.iter_calls():
        if not t["dest"]["proj"] and t["dest"]["local"] in R:
            out.append((b.term_loc(bb), None))
    return out


def _unref(e):
    """Expression with every ref / deref layer removed (a field read through `&self` is the field)."""
    if not isinstance(e, tuple) or not e or not isinstance(e[0], str):
        return e
    if e[0] in ("ref", "deref"):
        return _unref(e[1])
    if e[0] in ("field", "downcast", "cast"):
        return (e[0],) + tuple(_unref(x) if isinstance(x, tuple) else x for x in e[1:])
    return e


CLOCK_TYS = ("std::time::Instant", "u128")


def _clock_fields(facts, ty):
    """[(field index, name, ty)] of the Instant / u128 fields of a struct type (a deadline bundle)."""
    ty = ty[5:] if ty.startswith("&mut ") else (ty[1:] if ty.startswith("&") else ty)
    ty = ty.split("<")[0]        # `SearchContext<'_>` is the struct `SearchContext`
    try:
        vs = facts.adt(ty)["variants"]
    except Exception:
        return []
    if len(vs) != 1:
        return []
    return [(i, fd["name"], fd["ty"]) for i, fd in enumerate(vs[0]["fields"]) if fd["ty"] in CLOCK_TYS]


def clock_leaves_of(facts, e, ty):
    """{clock type: expr} carried by a value `e` of type `ty`: the value itself for an Instant / u128,
    the Instant / u128 fields of a struct that bundles them (`Deadline { start, time_to_move_ms }`)."""
    if ty in CLOCK_TYS:
        return {ty: _unref(e)}
    out = {}
    for i, name, fty in _clock_fields(facts, ty):
        e0 = _unref(e)
        if e0[0] == "named":
            e0 = e0[2]
        if e0[0] == "agg" and e0[1] not in ("tuple", "array", "closure") and i < len(e0[3]):
            leaf = _unref(e0[3][i])
        else:
            leaf = ("field", e0, name)
        if fty in out:
            return {}       # two fields of the same clock type: not a (start, allowance) bundle
        out[fty] = leaf
    return out


def own_clock(b):
    """{clock type: expr}: this function's own deadline, i.e. its Instant and u128 parameters, given
    one by one or bundled in a struct parameter.  Empty when ambiguous."""
    out = {}
    for p in range(1, b.arg_count + 1):
        for ty, leaf in clock_leaves_of(b.facts, ("arg", p), b.local_ty(p)).items():
            if ty in out:
                return {}
            out[ty] = leaf
    return out


def _elapsed_ms_since(e):
    """(start expr, location of the clock read) if e is "milliseconds elapsed since `start`":
    `Instant::now().duration_since(start).as_millis()` / `start.elapsed().as_millis()`."""
    e = _unref(e)
    if not (e[0] == "call" and e[1].endswith("Duration::as_millis") and e[2]):
        return None
    d = _unref(e[2][0])
    if d[0] != "call":
        return None
    if d[1].endswith("Instant::duration_since") and len(d[2]) == 2:
        now = _unref(d[2][0])
        if now[0] == "call" and now[1] == "std::time::Instant::now":
            return _unref(d[2][1]), now[3]
    if d[1].endswith("Instant::elapsed") and len(d[2]) == 1:
        return _unref(d[2][0]), d[3]
    return None


def _closure_result(facts, call):
    """The value a call of a capture-only, branch-free local closure returns, with its captures
    substituted by the captured expressions of the closure value it is called on; None otherwise."""
    clo = _unref(call[2][0])
    if not (clo[0] == "agg" and clo[1] == "closure" and clo[2] == call[1]):
        return None
    cb = facts.body(call[1])
    if any(cb.term(x)["k"] == "switch" for x in cb.normal if x in cb.reachable):
        return None
    cex = Exprs(cb)
    rs = return_sites(cb)
    if len(rs) != 1:
        return None
    loc, st = rs[0]
    r = cex.rvalue(st["rv"], loc) if st is not None else cex.call_expr(cb.term(loc[0]), loc)
    caps = clo[3]

    def sub(x):
        if not isinstance(x, tuple) or not x or not isinstance(x[0], str):
            return x
        if x[0] == "field" and _unref(x[1]) == ("arg", 1):
            try:
                return caps[int(x[2])]
            except (ValueError, IndexError):
                return ("opaque", "capture")
        if x[0] == "arg":
            return ("opaque", "closure argument")
        return tuple(tuple(sub(y) for y in z) if isinstance(z, tuple) and z and isinstance(z[0], tuple) else sub(z) for z in x)
    return sub(r)


def clock_test(e, truth=True, facts=None):
    """The boolean `e` (having the value `truth`) is a verdict of the deadline test, spelled as a call
    of out_of_time(start, t) or as the comparison it stands for (`elapsed_ms(start) >= t`, flipped or
    negated: what is left when the predicate is a method of a clock object and gets inlined).
    Returns (expired, start expr, allowance expr, location of the clock read) or None."""
    if e[0] == "call" and e[1] == OOT and len(e[2]) == 2:
        return truth, _unref(e[2][0]), _unref(e[2][1]), e[3]
    if facts is not None and e[0] == "call" and "{closure" in e[1] and e[2] and facts.has_body(e[1]):
        # `let timed_out = || out_of_time(start, t); .. if timed_out() ..`: the verdict of a local closure
        # whose body is the deadline test of its captured values; the clock is read where it is called
        r = _closure_result(facts, e)
        if r is not None:
            ct = clock_test(r, truth, None)
            if ct is not None:
                return ct[0], ct[1], ct[2], e[3]
    for neg in (False, True):
        c = _cmp_norm(("un", "Not", e) if neg else e)
        if c is not None and c[0] in ("Ge", "Gt"):
            el = _elapsed_ms_since(c[1])
            if el is not None and el[1] is not None:
                return (truth != neg), el[0], _unref(c[2]), el[1]
    return None


def _own_clock_test(b, ct):
    """The clock test is on the function's own deadline (its Instant / u128 parameters or bundle)."""
    own = own_clock(b)
    return ct is not None and len(own) == 2 and ct[1] == own["std::time::Instant"] and ct[2] == own["u128"]


def _straight_from_entry(b, bb):
    """Block bb is reached from the entry by plain gotos only: nothing is called or decided before it."""
    x, seen = 0, set()
    while x != bb:
        if x in seen or b.term(x)["k"] != "goto":
            return False
        seen.add(x)
        x = b.term(x)["target"]
    return True


def ot_edges(b, ex, own_only=True):
    """CFG edges that decide an evaluation of out_of_time(start, t): the switch may test the call
    itself, its negation, or a named / `&&`-composed boolean built from it (wa/implied.py).
    Yields (switch_bb, target, truth, call_bb, fresh_blocks, lastdefs, own)."""
    for s, tg, (e, truth), fresh, lastdefs in implying_edges(b, ex, lambda e, t: clock_test(e, t, b.facts) is not None):
        ct = clock_test(e, truth, b.facts)
        own = _own_clock_test(b, ct)
        if own_only and not own:
            continue
        yield s, tg, ct[0], ct[3][0], fresh, lastdefs, own


def ot_guards(b, ex):
    """Switches on out_of_time(start, t) (directly or through a boolean built from it), grouped per
    switch block.  Yields (switch_bb, false_target, true_target, call_bb, own)."""
    per = {}
    for s, tg, truth, cb, fresh, lastdefs, own in ot_edges(b, ex, own_only=False):
        r = per.setdefault((s, cb), {"own": own})
        r[truth] = tg
    for (s, cb), r in sorted(per.items()):
        yield s, r.get(False), r.get(True), cb, r["own"]


def abs_calls(b):
    return [bb for bb, t in b.iter_calls(callee=ABS)]


def _accept_guard(b, ex):
    """Not-expired edges of a clock read: [(edge, call_bb, fresh_blocks, lastdefs)] for own-clock reads."""
    out = []
    for s, tg, truth, cb, fresh, lastdefs, own in ot_edges(b, ex):
        if truth is False:
            out.append(((s, tg), cb, fresh, lastdefs))
    return out


def _guards_after(b, guards, a):
    """The guard edges that certify a clock read made *after* the sub-search call in block a: every
    path from a to the switch passes a block that (re)computes the tested value, and every path from
    a to the definition the edge implies passes the clock read."""
    out = set()
    for (s, tg), cb, fresh, lastdefs in guards:
        if b.reaches(a, s, removed_nodes=fresh):
            continue        # a stale value can reach the test
        if any(dl[0] != cb and b.reaches(a, dl[0], removed_nodes={cb}) for l, dl in lastdefs):
            continue
        out.add((s, tg))
    return out


def empty_indicators(b, ex, bb):
    """Locals known to be "empty" on entry to bb: an Option local known to be None (`x.is_none()`,
    `!x.is_some()`, `match x { None => .. }`) or a bool local known to be false.  The fallback send is
    guarded by such a "nothing sent yet" indicator, whatever it stores (the board, the move, a flag)."""
    out = set()
    for d, v in known_atoms(b, ex, bb):
        if d[0] == "call" and d[2] and ((d[1].endswith("::is_none") and v is True) or (d[1].endswith("::is_some") and v is False)):
            l = root_local(d[2][0])
            if l is not None and b.local_ty(l).startswith("std::option::Option<"):
                out.add(l)
    for d, vals, excl in known_switch_facts(b, ex, bb):
        if d[0] == "discr":
            l = root_local(d[1])
            if l is not None and b.local_ty(l).startswith("std::option::Option<") and (vals == [0] or (vals is None and excl == [1])):
                out.add(l)
    for s in b.normal:
        if s not in b.reachable or b.term(s)["k"] != "switch":
            continue
        for tg, tr in edge_truths(b, s).items():
            if not ((tg == bb and len(b.pred.get(bb, [])) == 1) or b.edge_dominates((s, tg), bb)):
                continue
            d = strip_refs(ex.switch_discr(s))
            while d[0] == "un" and d[1] == "Not":
                d, tr = strip_refs(d[2]), not tr
            if d[0] == "var" and b.local_ty(d[1]) == "bool" and d[1] in b.names and tr is False:
                out.add(d[1])
    return out


def sent_indicators(b, ex):
    """The "a move has been sent" indicators of the root driver: Option / bool locals whose emptiness
    guards a send."""
    out = set()
    for bb, t in b.iter_calls():
        if (callee_of(t) or "").endswith("Sender::<T>::send"):
            out |= empty_indicators(b, ex, bb)
    return out


def record_sites(b, ex):
    """[(loc, local, label)]: writes that make a sent-indicator non-empty (`x = Some(..)`, `flag = true`),
    and `Some(..)` written to any Option<BoardState> place (the classic best_move)."""
    ind = sent_indicators(b, ex)
    ind_tys = {b.local_ty(l) for l in ind if b.local_ty(l) != "bool"}
    out = []
    for loc, st in b.iter_stmts():
        if st["k"] != "assign":
            continue
        p = st["place"]
        l = p["local"]
        if _is_best_move_place(b, p) or (not p["proj"] and b.local_ty(l) in ind_tys):
            e = ex.rvalue(st["rv"], loc)
            if e[0] == "agg" and e[2] == "Some":
                tgt = l
                if p["proj"]:
                    from wa.mir import alias_of
                    r, mode, pr = alias_of(b, l)
                    if mode == "ref" and not pr:
                        tgt = r         # written through `&mut best_move`
                out.append((loc, tgt, "%s%s = Some(..)" % ("*" if p["proj"] else "", b.lname(l))))
        elif not p["proj"] and l in ind and b.local_ty(l) == "bool":
            e = ex.rvalue(st["rv"], loc)
            if e == ("const", True):
                out.append((loc, l, "%s = true" % b.lname(l)))
    return out


def _fallback_ok(b, ex, bb):
    """R7.3 shape for a send that is not in the accept region."""
    why = []
    # under out_of_time == true
    under_ot = False
    for s, tg, truth, cb, fresh, lastdefs, own in ot_edges(b, ex):
        if truth is True and (b.edge_dominates((s, tg), bb) or (tg == bb and len(b.pred.get(bb, [])) == 1)):
            under_ot = True
    if not under_ot:
        why.append("not under `out_of_time(start, t) == true`")
    # under "nothing sent yet": an indicator that is empty here and that is filled where moves are sent
    recorded = {l for _, l, _lab in record_sites(b, ex)}
    loops_ = b.loops()
    none_ok = False
    for l in empty_indicators(b, ex, bb):
        if l not in recorded:
            continue
        # it is never emptied again once the search runs: its other definitions lie outside the loops
        rec_locs = {x[0] for x in record_sites(b, ex)}
        resets = [dl for dl, kd in b.reaching().all_sites(l)
                  if kd == "whole" and dl not in rec_locs and any(dl[0] in body_ for body_ in loops_.values())]
        if not resets:
            none_ok = True
    if not none_ok:
        why.append("not under `best_move.is_none()`")
    args = ex.call_args(bb)
    sent = strip_refs(args[1]) if len(args) > 1 else ("opaque", "?")
    okv = False
    if sent[0] == "call" and sent[1].endswith("BoardState as std::clone::Clone>::clone"):
        src = strip_refs(sent[2][0])
        if loopform.element_index(src) == 0:
            roots = loopform.receiver_roots(b, ex, src, "std::vec::Vec<board::BoardState>")
            vec = next(iter(roots)) if len(roots) == 1 else None
            if vec is not None:
                # I3: index 0 where an iterator over the same vector has yielded an element => non-empty
                # (the `Some` edge of its `next` dominates the send, or guarded the definition of the
                # flag the send is under: `let all = walk(&moves); if !all { send(moves[0]) }`)
                for d, vals, excl in known_switch_facts(b, ex, bb):
                    if d[0] == "discr" and d[1][0] == "call" and d[1][1].endswith("::next") and vals == [1]:
                        it = strip_refs(d[1][2][0])
                        if vec in loopform.receiver_roots(b, ex, it, "std::vec::Vec<board::BoardState>"):
                            okv = True
    if not okv:
        why.append("does not send `moves[0].clone()` from inside the loop over `moves`")
    # followed by return: no ABS call and no further send reachable
    # (on paths consistent in the constant flags they set and test: `return false` out of an inlined
    # pass followed by the caller's `if !done { return }`)
    after = feasible_reach(b, ex, bb) - {bb}
    if any(x in after for x in abs_calls(b)):
        why.append("search continues after the fallback send")
    return (not why), "; ".join(why)


OPT_BOARD = "std::option::Option<board::BoardState>"


def _is_best_move_place(b, p):
    """The place is an `Option<BoardState>` variable: a local, or the pointee of a `&mut Option<BoardState>`."""
    if not p["proj"]:
        return b.local_ty(p["local"]) == OPT_BOARD
    return len(p["proj"]) == 1 and p["proj"][0]["k"] == "deref" and b.local_ty(p["local"]) == "&mut " + OPT_BOARD


def r7_1(ctx):
    """Nothing from a sub-search is accepted unless the clock is re-read afterwards and not expired."""
    f = ctx.facts
    b = f.body(GBM)
    ctx.note_fn(GBM)
    ex = Exprs(b)
    absb = abs_calls(b)
    if not absb:
        raise AnchorMissing("no call of alpha_beta_search in get_best_move")
    guards = _accept_guard(b, ex)
    after_guards = {a: _guards_after(b, guards, a) for a in absb}
    abs_exprs = set()
    for a in absb:
        abs_exprs.add(ex.call_expr(b.term(a), b.term_loc(a)))
    sites = []   # (loc, kind, label)
    rec_at = {loc: lab for loc, l, lab in record_sites(b, ex)}
    for loc, st in b.iter_stmts():
        if st["k"] != "assign":
            continue
        p = st["place"]
        l = p["local"]
        if loc in rec_at:
            sites.append((loc, "best_move", rec_at[loc]))
            continue
        if _is_best_move_place(b, p) or p["proj"]:
            continue
        e = ex.rvalue(st["rv"], loc)
        nd = len([1 for _, k in b.reaching().all_sites(l) if k == "whole"])
        if nd > 1 and l in b.names and any(x in abs_exprs for x in data_slice(ex, e)):
            sites.append((loc, "score", "%s = <value of the sub-search>" % b.lname(l)))
    nsend = 0
    for bb, t in b.iter_calls():
        c = callee_of(t) or ""
        if c.endswith("Sender::<T>::send"):
            nsend += 1
            sites.append((b.term_loc(bb), "send", "tx.send(..)#%d" % nsend))
        elif c == SEND_INFO:
            sites.append((b.term_loc(bb), "info", "send_search_info(..)"))
        elif c == SET_PV:
            sites.append((b.term_loc(bb), "pv", "set_principle_variation()"))
    n = {}
    for loc, kind, label in sites:
        n[kind] = n.get(kind, 0) + 1
        key = "get_best_move:%s#%d" % (kind, n[kind])
        # every path from a sub-search call to the site passes the not-expired edge of a clock read made
        # after that call (reachability with the certified guard edges removed)
        x = loc[0]
        after = [a for a in absb if a == x or b.reaches(a, x)]
        guarded = bool(after) and all(after_guards[a] and not b.reaches(a, x, removed_edges=after_guards[a]) for a in after)
        if guarded:
            g0 = sorted(after_guards[after[0]])[0]
            ctx.ob(key, True, b.where(loc), "`%s`: every path from the sub-search passes the not-expired edge of out_of_time re-read after it (guard at %s)" % (
                label, b.where(b.term_loc(g0[0]))))
            continue
        if kind == "send":
            ok, why = _fallback_ok(b, ex, loc[0])
            ctx.ob(key, ok, b.where(loc), "fallback send (R7.3): under expiry with no move yet, sends moves[0], search ends" if ok else
                   "`%s` is neither in the accept region (clock re-read after the sub-search, not expired) nor the fallback: %s" % (label, why))
            continue
        ctx.ob(key, False, b.where(loc),
               "`%s` can execute with a value from a sub-search that the clock aborted: it is not dominated by the not-expired edge of an out_of_time(start, t) re-read after alpha_beta_search" % label)
    ctx.floor("accept sites", len(sites), 6)     # score, record, 2 sends, pv, info
    ctx.floor("accept guards", len(set().union(*after_guards.values())) if after_guards else 0, 1)


_FLIP = {"Gt": "Lt", "Ge": "Le", "Lt": "Gt", "Le": "Ge"}
_NEG = {"Gt": "Le", "Ge": "Lt", "Lt": "Ge", "Le": "Gt"}


def _cmp_norm(e):
    """An order comparison as (op, lhs, rhs) with op in {Gt, Ge}: `a >= b`, `b <= a`, `!(a < b)` are
    the same predicate."""
    neg = False
    while e[0] == "un" and e[1] == "Not":
        e = e[2]
        neg = not neg
    if e[0] != "bin" or e[1] not in _FLIP:
        return None
    op, a, c = e[1], e[2], e[3]
    if neg:
        op = _NEG[op]
    if op in ("Lt", "Le"):
        op, a, c = _FLIP[op], c, a
    return op, a, c


def r7_2(ctx):
    """The abort sentinel is produced only under the clock test at function entry."""
    f = ctx.facts
    neg_inf = search_const(f, "NEG_INF")
    pos_inf = search_const(f, "POS_INF")
    n = 0
    for fn in (ABS, QUIESCE):
        b = f.body(fn)
        ctx.note_fn(fn)
        ex = Exprs(b)
        entry_guard = None
        for s, ft, tt, cb, own in ot_guards(b, ex):
            if own and _straight_from_entry(b, cb) and tt is not None and entry_guard is None:
                entry_guard = (s, tt)
        if fn == ABS:
            ctx.ob("alpha_beta_search:entry-clock-test", entry_guard is not None, b.where((0, 0)),
                   "out_of_time(start, t) is the first thing evaluated and its true edge is the abort")
            if entry_guard is not None:
                # it dominates every recursive call and every table event
                s, tt = entry_guard
                ft = [tg for v, tg in b.term(s)["cases"] if v == 0]
                for bb, t in b.iter_calls():
                    c = callee_of(t)
                    if c in (ABS, ADD, REMOVE, IS3) :
                        ok = bool(ft) and b.edge_dominates((s, ft[0]), bb)
                        n += 1
                        if not ok:
                            ctx.ob("alpha_beta_search:%s-before-clock-test" % c.split("::")[-1], False, b.where(b.term_loc(bb)),
                                   "this call can run before the clock was consulted")
        for loc, st in return_sites(b):
            if st is not None:
                e = ex.rvalue(st["rv"], loc)
                if e == ("const", neg_inf) or e == ("const", pos_inf):
                    n += 1
                    ok = entry_guard is not None and (b.edge_dominates(entry_guard, loc[0]) or entry_guard[1] == loc[0])
                    ctx.ob("%s:returns-sentinel" % fn.split("::")[-1], ok, b.where(loc),
                           "returns the abort sentinel %d %s" % (e[1], "under the entry clock test" if ok else "on a path that is not the clock abort"))
    # one deadline for the whole tree: every recursive search receives this node's own (start, t)
    for fn in (GBM, ABS):
        b = f.body(fn)
        ex = Exprs(b)
        own = own_clock(b)
        cb = f.body(ABS)
        k = 0
        for bb, t in sorted(b.iter_calls(callee=ABS)):
            k += 1
            a = ex.call_args(bb)
            given = {}
            amb = False
            for p in range(1, cb.arg_count + 1):
                for ty, leaf in clock_leaves_of(f, a[p - 1], cb.local_ty(p)).items():
                    amb = amb or ty in given
                    given[ty] = leaf
            ok = len(own) == 2 and not amb and given == own
            n += 1
            ctx.ob("%s:call#%d:same-deadline" % (fn.split("::")[-1], k), bool(ok), b.where(b.term_loc(bb)),
                   "sub-search is given (%s); must be this search's own (start, time allowance) so that every node and the root agree on expiry" % (
                       ", ".join(show_expr(given[ty], b) for ty in sorted(given))))
    if f.has_body(OOT):
        # out_of_time is a pure comparison of a monotonic clock with its argument
        ob = f.body(OOT)
        callees = sorted({callee_of(t) for _, t in ob.iter_calls()})
        allowed = {"std::time::Instant::now", "std::time::Instant::duration_since", "std::time::Duration::as_millis",
                   "std::time::Instant::elapsed"}
        ctx.ob("out_of_time:pure-clock-comparison", set(callees) <= allowed and bool(callees), ob.where((0, 0)),
               "callees: %s" % callees)
        # and its verdict is `elapsed >= allowance` of exactly its two parameters (monotone in the clock)
        oex = Exprs(ob)
        rets = [oex.rvalue(st["rv"], loc) for loc, st in ob.iter_stmts() if st["k"] == "assign" and st["place"]["local"] == 0]
        okc = False
        if len(rets) == 1:
            c = _cmp_norm(rets[0])
            tp, sp = params_by_type(ob, "u128"), params_by_type(ob, "std::time::Instant")
            if c is not None and c[0] in ("Ge", "Gt") and tp and sp and strip_refs(c[2]) == ("arg", tp[0]):
                start = ("arg", sp[0])
                okc = any(x[0] == "call" and ((x[1].endswith("duration_since") and start in [strip_refs(y) for y in x[2][1:]]) or
                                              (x[1].endswith("Instant::elapsed") and strip_refs(x[2][0]) == start)) for x in subexprs(c[1]))
        ctx.ob("out_of_time:elapsed>=allowance", okc, ob.where((0, 0)), "returns `%s`" % (show_expr(rets[0], ob)[:90] if rets else "?"))
    else:
        # the predicate is not a function of its own (a method of a clock object, inlined): the entry
        # test of alpha_beta_search was recognised as the comparison `elapsed_ms(start) >= allowance`
        # of the node's own deadline, which is what these two obligations state
        ab = f.body(ABS)
        aex = Exprs(ab)
        inl = [ct for s_, tg, (e, truth), fresh, lastdefs in implying_edges(ab, aex, lambda e, t: clock_test(e, t) is not None)
               for ct in [clock_test(e, truth)] if _own_clock_test(ab, ct) and _straight_from_entry(ab, ct[3][0])]
        ctx.ob("out_of_time:pure-clock-comparison", bool(inl), ab.where((0, 0)), "the deadline test is the inlined comparison of the monotonic clock with the allowance")
        ctx.ob("out_of_time:elapsed>=allowance", bool(inl), ab.where((0, 0)), "the deadline test is `elapsed_ms(start) >= allowance` on the node's own deadline")
    ctx.floor("sentinel sites", n, 3)


def table_param(b):
    return one_param(b, "&mut draw_table::DrawTable")


def r10_5(ctx):
    """add/remove on the repetition table balance on every exit of alpha_beta_search; the repetition
    test precedes add; quiesce and get_best_move contain no table events."""
    f = ctx.facts
    b = f.body(ABS)
    ctx.note_fn(ABS, QUIESCE, GBM)
    ex = Exprs(b)
    tp = table_param(b)
    bp = one_param(b, "&board::BoardState")
    events = {}
    counts = {"add": 0, "remove": 0, "test": 0}
    for bb, t in b.iter_calls():
        c = callee_of(t)
        if c not in (ADD, REMOVE, IS3):
            continue
        a0 = operand_alias(b, t["args"][0])
        a1 = operand_alias(b, t["args"][1])
        kind = {ADD: "add", REMOVE: "remove", IS3: "test"}[c]
        counts[kind] += 1
        same_table = a0 is not None and a0[0] == tp and a0[1] == "val"
        same_board = a1 is not None and a1[0] == bp and a1[1] == "val"
        events[b.term_loc(bb)] = (kind, same_table and same_board)
    bad = []

    def step(loc, s):
        ev = events.get(loc)
        if ev is None:
            return [s]
        kind, own = ev
        if not own:
            bad.append((loc, "%s on another table/board than this node's own" % kind))
            return [s]
        if kind == "add":
            if s != "out":
                bad.append((loc, "add while the node is already counted"))
            return ["in"]
        if kind == "remove":
            if s != "in":
                bad.append((loc, "remove while the node is not counted"))
            return ["out"]
        if kind == "test" and s != "out":
            bad.append((loc, "repetition test after the node counted itself (it would see its own entry)"))
        return [s]

    before, at_ret = forward_states(b, (0, -1), {"out"}, step, restart_kills=False)
    nret = 0
    for rb, sts in at_ret.items():
        nret += 1
        ok = sts == {"out"}
        if not ok:
            # name the assignments to the return place that reach here in state `in`
            offenders = [loc for loc, st in return_sites(b) if "in" in before.get(loc, ())]
            for loc in offenders or [b.term_loc(rb)]:
                ctx.ob("alpha_beta_search:return-with-node-still-counted:%s" % b.text_at(loc).split("=")[-1].strip()[:30].replace(" ", ""),
                       False, b.where(loc), "this return leaves the position counted in the repetition table (no remove on this exit): the record is not left as it was given")
        else:
            ctx.ob("alpha_beta_search:balanced-at-return", True, b.where(b.term_loc(rb)), "every path reaches `return` with the node removed again")
    seen = set()
    for loc, why in bad:
        if (loc, why) in seen:
            continue
        seen.add((loc, why))
        ctx.ob("alpha_beta_search:%s" % why.split(" ")[0] + ":" + why.replace(" ", "-")[:40], False, b.where(loc), why)
    ctx.floor("add sites", counts["add"], 1)
    ctx.floor("remove sites", counts["remove"], 1)
    ctx.floor("repetition tests", counts["test"], 1)
    for fn in (QUIESCE, GBM):
        fb = f.body(fn)
        ev = [callee_of(t) for _, t in fb.iter_calls() if callee_of(t) in (ADD, REMOVE, "draw_table::DrawTable::clear")]
        ctx.ob("%s:no-table-events" % fn.split("::")[-1], not ev, fb.where((0, 0)), "table events: %s" % ev)


def _value_origins(b, ex, e, seen):
    """[(def loc or None, expr)]: the non-trivial definitions a value comes from, looking through
    locals of the same type that merely carry it (moves between locals)."""
    if e[0] == "var":
        out = []
        for dloc, kind in sorted(e[2]):
            if kind != "whole" or (e[1], dloc) in seen:
                continue
            seen.add((e[1], dloc))
            de = ex._def_expr(e[1], dloc)
            for dl, x in _value_origins(b, ex, de, seen):
                out.append((dl if dl is not None else dloc, x))
        return out
    if e[0] == "call" and e[1].endswith("as std::clone::Clone>::clone") and "Vec<" in e[1] and len(e[2]) == 1:
        return _value_origins(b, ex, strip_refs(e[2][0]), seen)        # a clone of the list is the list
    return [(None, e)]


def r3_2(ctx):
    """Every board sent by get_best_move is a clone of an element of the legal root move list."""
    f = ctx.facts
    b = f.body(GBM)
    ctx.note_fn(GBM)
    ex = Exprs(b)
    bp = one_param(b, "&board::BoardState")
    vecs = set()
    nsend = 0
    for bb, t in b.iter_calls():
        c = callee_of(t) or ""
        if not c.endswith("Sender::<T>::send"):
            continue
        nsend += 1
        args = ex.call_args(bb)
        sent = strip_refs(args[1])
        ok, what = False, show_expr(sent, b)[:100]
        if sent[0] == "call" and sent[1].endswith("BoardState as std::clone::Clone>::clone"):
            src = strip_refs(sent[2][0])
            vec = None
            if loopform.element_index(src) is not None:
                roots = loopform.receiver_roots(b, ex, src, "std::vec::Vec<board::BoardState>")
                vec = next(iter(roots)) if len(roots) == 1 else None
            elif src[0] == "call" and src[1].endswith("::index"):
                vec = root_local(src[2][0])
            elif src[0] == "field" and src[1][0] == "downcast" and src[1][1][0] == "call" and src[1][1][1].endswith("::next"):
                # the item of an iterator over the list (`for m in &moves`, over a slice of it, ..)
                roots = loopform.receiver_roots(b, ex, src[1][1], "std::vec::Vec<board::BoardState>")
                if len(roots) == 1:
                    vec = next(iter(roots))
            if vec is not None and b.local_ty(vec) == "std::vec::Vec<board::BoardState>":
                vecs.add(vec)
                ok = True
        ctx.ob("get_best_move:send#%d:element-of-root-list" % nsend, ok, b.where(b.term_loc(bb)),
               "sends `%s`; it must be a clone of an element of the root move list" % what)
    ctx.floor("sends", nsend, 2)
    for v in sorted(vecs):
        nd = 0
        origins = []
        for loc, kind in sorted(b.reaching().all_sites(v)):
            if kind != "whole":
                continue
            bb, i = loc
            st = b.stmts(bb)
            e = ex.rvalue(st[i]["rv"], loc) if i < len(st) else ex.call_expr(b.term(bb), loc)
            # a list moved in from another local (`let l = gen(..); ..; moves = l`) is defined where that one is
            origins += [(dl if dl is not None else loc, de) for dl, de in _value_origins(b, ex, e, set())]
        for loc, e in origins:
            nd += 1
            ok = e[0] == "call" and e[1] == GEN and strip_refs(e[2][0]) == ("arg", bp) and \
                e[2][1] == ("agg", "move_generation::MoveGenerationMode", "AllMoves", ())
            ctx.ob("get_best_move:%s:def#%d" % (b.lname(v), nd), ok, b.where(loc),
                   "`%s = %s`; the root list must be generate_moves(<own board>, AllMoves, _)" % (b.lname(v), show_expr(e, b)[:90]))
        ctx.floor("definitions of the root list", nd, 1)


def _moves_empty_region(b, ex):
    """(switch block, true target) for `if moves.is_empty()` on the generate_moves result."""
    for s in b.normal:
        if s not in b.reachable or b.term(s)["k"] != "switch":
            continue
        d = ex.switch_discr(s)
        if d[0] == "call" and d[1].endswith("Vec::<T, A>::is_empty"):
            return s, b.term(s)["otherwise"]
        if d[0] == "bin" and d[1] == "Eq" and d[3] == ("const", 0) and strip_refs(d[2])[0] == "call" and strip_refs(d[2])[1].endswith("Vec::<T, A>::len"):
            return s, b.term(s)["otherwise"]
    return None


def r11_1(ctx):
    """Move-less node: 0 unless in check, else ply - MATE_SCORE."""
    f = ctx.facts
    b = f.body(ABS)
    ctx.note_fn(ABS)
    ex = Exprs(b)
    mate = search_const(f, "MATE_SCORE")
    bp = one_param(b, "&board::BoardState")
    reg = _moves_empty_region(b, ex)
    if reg is None:
        raise ShapeNotRecognised("no `moves.is_empty()` test in alpha_beta_search")
    s, tt = reg
    ply = one_param(b, "i32") if len(params_by_type(b, "i32")) == 1 else None
    i32s = params_by_type(b, "i32")
    found = {"check": [], "nocheck": []}
    for loc, st in return_sites(b):
        if not (b.edge_dominates((s, tt), loc[0]) or (tt == loc[0] and len(b.pred.get(tt, [])) == 1)):
            continue
        e = ex.rvalue(st["rv"], loc) if st is not None else ex.call_expr(b.term(loc[0]), loc)
        chk = None
        for d, v in known_atoms(b, ex, loc[0]):
            if d[0] == "call" and d[1] == IS_CHECK:
                own = strip_refs(d[2][0]) == ("arg", bp) and strip_refs(d[2][1]) == ("field", ("deref", ("arg", bp)), "to_move")
                if own:
                    chk = v
        if chk is None:
            ctx.ob("alpha_beta_search:terminal:undecided-return", False, b.where(loc),
                   "a move-less node returns `%s` without testing whether the side to move is in check" % show_expr(e, b))
            continue
        found["check" if chk else "nocheck"].append((loc, e))
    for loc, e in found["nocheck"]:
        ctx.ob("alpha_beta_search:terminal:stalemate-score", e == ("const", 0), b.where(loc),
               "no legal move and not in check returns `%s`; must be the draw score 0" % show_expr(e, b))
    for loc, e in found["check"]:
        le = linear(e)
        ok = False
        if le is not None and le[1] == -mate and len(le[0]) == 1:
            (term, coeff), = le[0].items()
            ok = coeff == 1 and term[0] in ("arg", "var") and _canon(b, term[1]) in i32s
        ctx.ob("alpha_beta_search:terminal:mate-score", ok, b.where(loc),
               "no legal move and in check returns `%s`; must be ply_from_root - MATE_SCORE (%d), so that nearer mates score worse for the mated side" % (show_expr(e, b), mate))
    ctx.floor("stalemate returns", len(found["nocheck"]), 1)
    ctx.floor("checkmate returns", len(found["check"]), 1)


def _uses_of_local(b, l):
    """Locations whose operands read local l (statements and terminators)."""
    import json
    out = []
    pat = '"local": %d,' % l
    for loc, st in b.iter_stmts():
        txt = json.dumps(st.get("rv", {}))
        if pat in txt or ('"local": %d}' % l) in txt:
            out.append(loc)
    for bb in b.normal:
        if bb not in b.reachable:
            continue
        t = b.term(bb)
        if t["k"] == "assert":
            continue  # compiler-inserted checks are not uses
        parts = [t.get("args"), t.get("discr")]
        txt = json.dumps(parts)
        if pat in txt:
            out.append(b.term_loc(bb))
    return out


def r12_1(ctx):
    """Negamax discipline: the result of a search on a *child* position is negated exactly once and
    its window is the negated, swapped window; a search on the *same* node (leaf -> quiesce) keeps
    sign and window."""
    f = ctx.facts
    ncalls = 0
    for fn in (GBM, ABS, QUIESCE):
        b = f.body(fn)
        ctx.note_fn(fn)
        ex = Exprs(b)
        bps = params_by_type(b, "&board::BoardState")
        k = 0
        for bb, t in sorted(b.iter_calls()):
            c = callee_of(t)
            if c not in (ABS, QUIESCE):
                continue
            k += 1
            ncalls += 1
            args = ex.call_args(bb)
            # board argument position
            cb = f.body(c)
            bpos = one_param(cb, "&board::BoardState") - 1
            board_arg = strip_refs(args[bpos])
            same_node = board_arg[0] == "arg" and board_arg[1] in bps
            key = "%s:call#%d(%s)" % (fn.split("::")[-1], k, c.split("::")[-1])
            dest = t["dest"]
            loc = b.term_loc(bb)
            if same_node:
                ok = dest["local"] in return_carriers(b) and not dest["proj"]
                ctx.ob(key + ":same-node-unnegated", ok, b.where(loc),
                       "search of the same position (leaf handed to quiescence) must be returned as is")
                continue
            if dest["proj"]:
                ctx.ob(key + ":negated-once", False, b.where(loc), "result stored into a projection")
                continue
            r = dest["local"]
            uses = _uses_of_local(b, r)
            negs, others = [], []
            for u in uses:
                ubb, ui = u
                st = b.stmts(ubb)
                if ui < len(st):
                    rv = st[ui]["rv"]
                    if rv["k"] == "unop" and rv["op"] == "Neg":
                        negs.append(u)
                        continue
                    if rv["k"] == "binop" and rv["op"] == "Eq" and rv["b"]["k"] == "const" and rv["b"].get("val") == -2**31:
                        continue  # the overflow check of the negation
                others.append(u)
            ok = len(negs) == 1 and not others
            ctx.ob(key + ":negated-once", ok, b.where(loc),
                   "the child's score is from the opponent's point of view: it must flow into exactly one negation before any use (negations: %d, other uses: %s)" % (
                       len(negs), [b.where(u) for u in others]))
    ctx.floor("recursive search calls", ncalls, 3)


def r12_5(ctx):
    """Speculative (null-move) pruning only at remaining depth >= 3, only when allowed, and never
    while in check; the null-move search is a zero-window search with reduced depth."""
    f = ctx.facts
    b = f.body(ABS)
    ctx.note_fn(ABS)
    ex = Exprs(b)
    bp = one_param(b, "&board::BoardState")
    boolp = params_by_type(b, "bool")
    depthp = params_by_type(b, "u8")
    n = 0
    for bb, t in sorted(b.iter_calls(callee=ABS)):
        args = ex.call_args(bb)
        board_arg = strip_refs(args[bp - 1])
        # the null move: searched position is a clone of this node's board with the side flipped
        # (a BoardState value built here: a mutated clone, or a struct-update literal of the own board)
        if not ((board_arg[0] == "var" and b.local_ty(board_arg[1]) == "board::BoardState") or
                (board_arg[0] == "agg" and board_arg[1] == "board::BoardState")):
            continue
        n += 1
        ok_allow = ok_depth = ok_check = False
        dmin = None
        for d, truth in known_atoms(b, ex, bb):
            if d[0] in ("arg", "var") and _canon(b, d[1]) in boolp and truth:
                ok_allow = True
            if d[0] == "call" and d[1] == IS_CHECK and truth is False:
                own = strip_refs(d[2][0]) == ("arg", bp) and strip_refs(d[2][1]) == ("field", ("deref", ("arg", bp)), "to_move")
                ok_check = ok_check or own
        for op, x, y in order_facts(b, ex, bb):
            x, y = strip_refs(x), strip_refs(y)
            while x[0] == "cast":
                x = x[2]
            if y[0] == "const" and x[0] in ("arg", "var") and _canon(b, x[1]) in depthp:
                k = y[1] + (1 if op == "Gt" else 0)
                dmin = k if dmin is None else max(dmin, k)
        ok_depth = dmin is not None and dmin >= 3
        loc = b.term_loc(bb)
        ctx.ob("alpha_beta_search:null-move:only-when-allowed", ok_allow, b.where(loc), "null move is tried only when the caller allows it (no two null moves in a row)")
        ctx.ob("alpha_beta_search:null-move:depth>=3", ok_depth, b.where(loc),
               "null move is tried only at remaining depth >= 3 (guard found: depth >= %s): shallower iterations must stay exact" % dmin)
        ctx.ob("alpha_beta_search:null-move:not-in-check", ok_check, b.where(loc),
               "null move is tried only when the side to move is not in check (passing while in check is illegal: a mated node would be scored by its material)")
    ctx.floor("null-move searches", n, 1)


def r12_4(ctx):
    """Coverage of the move list: every generated move is searched (no per-move skip) unless the
    node returns by a cut-off; alpha_beta_search searches moves[0] first and then skip(1)."""
    f = ctx.facts
    n = 0
    for fn in (QUIESCE, ABS, GBM):
        b = f.body(fn)
        ctx.note_fn(fn)
        ex = Exprs(b)
        loops = b.loops()
        rec = {bb for bb, t in b.iter_calls() if callee_of(t) in (ABS, QUIESCE)}
        for h, body_ in sorted(loops.items()):
            # a loop over the move list: iterator item is a BoardState (by value or reference) of a Vec<BoardState>
            item_edge = None
            src = None
            for x in body_:
                if b.term(x)["k"] != "switch":
                    continue
                if any(x in b2 and b2 < body_ for b2 in loops.values()):
                    continue    # belongs to a nested loop
                d = ex.switch_discr(x)
                if d[0] == "discr" and d[1][0] == "call" and d[1][1].endswith("::next") and "board::BoardState" in d[2]:
                    t = b.term(x)
                    some = [tg for v, tg in t["cases"] if v == 1]
                    if some:
                        item_edge = (x, some[0])
                        src = d[1]
            if item_edge is None:
                continue
            inner_rec = rec & body_
            if not inner_rec:
                continue    # a loop over moves that does not search (ordering loops)
            n += 1
            # (paths consistent in the constant flags they set and test: `return false` out of an
            # inlined pass followed by `if !all_done { return }` does not continue the loop)
            # (when the block the `Some` edge leads to is itself the block that ends in the recursive call -
            # the release shape, where no overflow check separates them - nothing can be skipped from there)
            skip = item_edge[1] not in inner_rec and (h in feasible_reach(b, ex, item_edge[1], removed_nodes=inner_rec) or item_edge[1] == h)
            ctx.ob("%s:loop@%d:every-move-searched" % (fn.split("::")[-1], n), not skip, b.where(b.term_loc(item_edge[0])),
                   "every move taken from the list reaches the recursive search before the next one is taken%s" % (
                       "" if not skip else ": NOT so — some moves are skipped (`continue`), so the value is no longer the minimax value over the engine's own move generation"))
            if fn == ABS:
                # iterator must be moves.iter().skip(1) and moves[0] searched before the loop
                off = loopform.iter_start_offset(ex, src[2][0])
                ctx.ob("alpha_beta_search:rest-loop-starts-at-second-move", off == 1, b.where(b.term_loc(h)),
                       "the loop over the remaining moves starts at index 1 (`.skip(1)` / `[1..]` / the tail of `split_first()`): first index visited = %s" % off)
                first = []
                for bb in rec - body_:
                    a = ex.call_args(bb)
                    bpos = one_param(b, "&board::BoardState") - 1
                    if loopform.element_index(a[bpos]) == 0:
                        first.append(bb)
                ctx.ob("alpha_beta_search:first-move-searched-first", len(first) == 1 and b.node_dominates(first[0], h), b.where(b.term_loc(first[0])) if first else b.file,
                       "moves[0] is searched with the full window before the loop over the rest")
    ctx.floor("searching loops over move lists", n, 3)


def _lin_locals(e, b=None):
    """linear form with terms keyed by the local they are rooted in (versions ignored; with `b`,
    a local that continues a parameter is keyed by the parameter)."""
    le = linear(e)
    if le is None:
        return None
    out = {}
    for t, c in le[0].items():
        t0 = strip_refs(t)
        key = ("local", _canon(b, t0[1]) if b is not None else t0[1]) if t0[0] in ("var", "arg") else t0
        out[key] = out.get(key, 0) + c
        if out[key] == 0:
            del out[key]
    return (out, le[1])


def _is_snapshot(b, l):
    """A local that is written exactly once, with a plain copy of another local (a parameter of an
    inlined helper, `let a = alpha;`): it stands for that value, it is not a variable of its own."""
    if l <= b.arg_count:
        return False
    sites = b.reaching().all_sites(l)
    if len(sites) != 1 or sites[0][1] != "whole":
        return False
    bb, i = sites[0][0]
    st = b.stmts(bb)
    if i >= len(st):
        return False
    rv = st[i]["rv"]
    return rv["k"] == "use" and rv["op"]["k"] in ("copy", "move") and not rv["op"]["place"]["proj"]


def _named_i32(b):
    """User variables of type i32 that rules keep symbolic ("the current alpha"); snapshots of other
    locals are looked through instead."""
    return {l for l in b.names if b.local_ty(l) == "i32" and not _is_snapshot(b, l)}


def r12_2(ctx):
    """Child window polarity: a child is searched with (-hi, -lo) where (lo, hi) is (alpha, beta),
    (alpha, alpha+1) or (beta-1, beta); the leaf hand-over keeps (alpha, beta)."""
    f = ctx.facts
    pos_inf = search_const(f, "POS_INF")
    n = 0
    for fn in (GBM, ABS, QUIESCE):
        b = f.body(fn)
        ctx.note_fn(fn)
        ex = Exprs(b, keep=_named_i32(b))
        bps = params_by_type(b, "&board::BoardState")
        # alpha / beta of this node: i32 parameters in declaration order (alpha, beta) for the search
        # functions; in the root driver: the locals named by the window it builds
        i32p = params_by_type(b, "i32")
        if fn == ABS:
            ply, alpha, beta = i32p[0], i32p[1], i32p[2]
        elif fn == QUIESCE:
            alpha, beta = i32p[0], i32p[1]
        else:
            alpha = beta = None
        k = 0
        for bb, t in sorted(b.iter_calls()):
            c = callee_of(t)
            if c not in (ABS, QUIESCE):
                continue
            k += 1
            n += 1
            cb = f.body(c)
            ci32 = params_by_type(cb, "i32")
            apos, bpos = (ci32[1] - 1, ci32[2] - 1) if c == ABS else (ci32[0] - 1, ci32[1] - 1)
            args = ex.call_args(bb)
            board_arg = strip_refs(args[one_param(cb, "&board::BoardState") - 1])
            same_node = board_arg[0] == "arg" and board_arg[1] in bps
            la, lb = _lin_locals(args[apos], b), _lin_locals(args[bpos], b)
            key = "%s:call#%d(%s):window" % (fn.split("::")[-1], k, c.split("::")[-1])
            loc = b.term_loc(bb)
            if la is None or lb is None:
                ctx.ob(key, False, b.where(loc), "window arguments are not affine in alpha/beta", reason="shape-not-recognised")
                continue
            if fn == GBM:
                # root: (-beta, -alpha) with beta the constant +infinity and alpha the running best
                def is_inf_local(form):
                    if form == ({}, -pos_inf):
                        return True
                    if form[1] != 0 or list(form[0].values()) != [-1]:
                        return False
                    k0 = next(iter(form[0]))
                    if k0[0] != "local":
                        return False
                    ds = [(dl, kd) for dl, kd in b.reaching().all_sites(k0[1])]
                    return bool(ds) and all(kd == "whole" and Exprs(b).rvalue(b.stmts(dl[0])[dl[1]]["rv"], dl) == ("const", pos_inf) for dl, kd in ds)
                ok = is_inf_local(la) and lb[1] == 0 and list(lb[0].values()) == [-1] and not is_inf_local(lb)
                ctx.ob(key, ok, b.where(loc), "root searches each move with (-inf, -alpha): (%s, %s)" % (show_expr(args[apos], b), show_expr(args[bpos], b)))
                continue
            A, B = ("local", alpha), ("local", beta)
            if same_node:
                ok = la == ({A: 1}, 0) and lb == ({B: 1}, 0)
                ctx.ob(key, ok, b.where(loc), "the leaf hand-over keeps the window (alpha, beta): (%s, %s)" % (show_expr(args[apos], b), show_expr(args[bpos], b)))
                continue
            # child window (a', b') = (-hi, -lo)
            hi = ({t: -c for t, c in la[0].items()}, -la[1])
            lo = ({t: -c for t, c in lb[0].items()}, -lb[1])
            full = lo == ({A: 1}, 0) and hi == ({B: 1}, 0)
            zero = lo == ({A: 1}, 0) and hi == ({A: 1}, 1)
            nullw = lo == ({B: 1}, -1) and hi == ({B: 1}, 0)
            kind = "full" if full else "zero-window on alpha" if zero else "zero-window on beta" if nullw else None
            ctx.ob(key, kind is not None, b.where(loc),
                   "child searched with (%s, %s) = (-hi, -lo) for (lo, hi) = %s" % (show_expr(args[apos], b), show_expr(args[bpos], b),
                                                                                  kind or "NONE of (alpha,beta), (alpha,alpha+1), (beta-1,beta): the child's window is not the negated window of this node"))
    ctx.floor("recursive search calls", n, 3)


def order_facts(b, ex, bb):
    """Order comparisons known true on entry to bb, each as (op, lhs, rhs) with op in {Gt, Ge}
    (`a < b` is `b > a`, a false `a < b` is `a >= b`; named and `&&`-composed conditions included)."""
    out = []
    for e, truth in known_atoms(b, ex, bb):
        c = _cmp_norm(e if truth else ("un", "Not", e))
        if c is not None:
            out.append(c)
    return out


def _cmp_facts(b, ex, bb):
    """[(op, lhs, rhs)] (op in Gt/Ge) of comparisons known true on entry to bb; operands that are
    plain locals are keyed ("local", l) with parameter continuations resolved."""
    def key(x):
        x = strip_refs(x)
        return ("local", _canon(b, x[1])) if x[0] in ("var", "arg") else x
    return [(op, key(a), key(c)) for op, a, c in order_facts(b, ex, bb)]


def _is_max_raise(b, e, l):
    """e is `max(l, y)` / `max(y, l)` for the local l (by parameter continuation): returns y's key."""
    if e[0] != "call" or e[1] != "std::cmp::max" or len(e[2]) != 2:
        return None
    a, c = strip_refs(e[2][0]), strip_refs(e[2][1])
    for x, y in ((a, c), (c, a)):
        if x[0] in ("var", "arg") and _canon(b, x[1]) == _canon(b, l):
            return y
    return None


def r12_3(ctx):
    """Order-valid guards: an early return during/after the search of the moves needs score >= beta;
    alpha is raised only by a strictly better score; best_score only by a strictly better score;
    the re-search needs alpha < score < beta; after the loop the best score is returned."""
    f = ctx.facts
    for fn in (ABS, QUIESCE):
        b = f.body(fn)
        ctx.note_fn(fn)
        ex = Exprs(b, keep=_named_i32(b))
        i32p = params_by_type(b, "i32")
        alpha, beta = (i32p[1], i32p[2]) if fn == ABS else (i32p[0], i32p[1])
        A, B = ("local", alpha), ("local", beta)
        short = fn.split("::")[-1]
        bps = params_by_type(b, "&board::BoardState")
        child = []
        for bb, t in b.iter_calls():
            if callee_of(t) in (ABS, QUIESCE):
                cb = f.body(callee_of(t))
                ba = strip_refs(ex.call_args(bb)[one_param(cb, "&board::BoardState") - 1])
                if not (ba[0] == "arg" and ba[1] in bps):
                    # exclude the null move (its cut-off rule is `eval >= beta` too, handled like the others)
                    child.append(bb)
        if not child:
            raise ShapeNotRecognised("%s: no child searches" % fn)
        loops = b.loops()
        search_loops = [body_ for h, body_ in loops.items() if any(c in body_ for c in child)]
        # exit edges of the searching loops (iterator exhausted): a return dominated by all of them
        # comes after every move was searched
        exit_edges = []
        for body_ in search_loops:
            for x, call, some, none in loopform.next_switches(b, ex, body_):
                if none is not None and none not in body_:
                    exit_edges.append((x, none))

        def after_all_moves(bb):
            return bool(exit_edges) and all(b.edge_dominates(e, bb) or e[1] == bb for e in exit_edges)
        # static evaluation / stand-pat in quiesce counts as a "score" source too
        n = 0
        final = None
        for loc, st in return_sites(b):
            after = [c for c in child if b.node_dominates(c, loc[0])]
            e = strip_refs(ex.rvalue(st["rv"], loc)) if st is not None else ex.call_expr(b.term(loc[0]), loc)
            in_loop = not after_all_moves(loc[0])
            facts_ = _cmp_facts(b, ex, loc[0])
            el = _canon(b, e[1]) if e[0] in ("var", "arg") else None
            if fn == QUIESCE:
                scores = [x for x in facts_ if x[0] == "Ge" and x[2] == B]
                if el == alpha and not in_loop and not scores:
                    final = loc
                    continue
                n += 1
                ok = bool(scores) and el is not None and (el == beta or ("local", el) in [s[1] for s in scores])
                ctx.ob("%s:cut-off-return#%d" % (short, n), ok, b.where(loc),
                       "returns `%s` early: needs a value >= beta on this path (facts: %s)" % (show_expr(e, b), [(o, _n(b, x), _n(b, y)) for o, x, y in facts_]))
                continue
            if not after:
                continue     # returns before any child search: classified by R12.5 / R11.1 / R7.2
            ek = ("local", el) if el is not None else e
            cut = any(o == "Ge" and y == B and (x == ek or ek == B) for o, x, y in facts_)
            if cut:
                n += 1
                ctx.ob("%s:cut-off-return#%d" % (short, n), True, b.where(loc), "returns `%s` under `%s >= beta`" % (show_expr(e, b), show_expr(e, b)))
                continue
            if in_loop:
                n += 1
                ctx.ob("%s:cut-off-return#%d" % (short, n), False, b.where(loc),
                       "returns `%s` while moves remain to be searched, without a value >= beta on this path: the result is not the minimax value (facts: %s)" % (
                           show_expr(e, b), [(o, _n(b, x), _n(b, y)) for o, x, y in facts_]))
            else:
                final = loc
        if fn == ABS:
            # the value returned after the loop is the running best score: the local raised under score > best
            ctx.ob("%s:final-return" % short, final is not None, b.where(final) if final else b.file, "after all moves the running best score is returned")
        else:
            ctx.ob("%s:final-return" % short, final is not None, b.where(final) if final else b.file, "after all captures alpha is returned")
        ctx.floor("%s cut-off returns" % short, n, 1)
        # raises: `X = Y` with a guard Gt(Y, X), or `X = max(X, Y)` (which is that guarded assignment)
        nr = 0
        writes = []
        for loc, st in b.iter_stmts():
            if st["k"] == "assign" and not st["place"]["proj"]:
                writes.append((loc, st["place"]["local"], strip_refs(ex.rvalue(st["rv"], loc))))
        for bb, t in b.iter_calls():
            if not t["dest"]["proj"]:
                writes.append((b.term_loc(bb), t["dest"]["local"], ex.call_expr(t, b.term_loc(bb))))
        carriers = return_carriers(b)
        for loc, l, e in sorted(writes):
            if l not in b.names or b.local_ty(l) != "i32" or l in carriers:
                continue        # (a write to a result carrier, `break 'node v`, is a return: judged above)
            nwhole = len([1 for _, kd in b.reaching().all_sites(l) if kd == "whole"]) + (1 if l <= b.arg_count else 0)
            if nwhole < 2:
                continue        # the one initialisation of a variable is not a raise
            if fn == ABS and not any(b.node_dominates(c, loc[0]) and c != loc[0] for c in child):
                continue
            y = _is_max_raise(b, e, l)
            if y is not None:
                nr += 1
                ctx.ob("%s:raise:%s=max(%s,%s)#%d" % (short, b.lname(l), b.lname(l), _n(b, ("local", y[1]) if y[0] in ("var", "arg") else y), nr), True, b.where(loc),
                       "`%s = max(%s, ..)` raises %s exactly when the other value is strictly greater" % (b.lname(l), b.lname(l), b.lname(l)))
                continue
            if e[0] == "call" and e[1] == "std::cmp::min" and any(strip_refs(x)[0] in ("var", "arg") and _canon(b, strip_refs(x)[1]) == _canon(b, l) for x in e[2]):
                nr += 1
                ctx.ob("%s:raise:%s=min(..)#%d" % (short, b.lname(l), nr), False, b.where(loc),
                       "`%s = min(%s, ..)` lowers a bound that may only be raised by a strictly better score" % (b.lname(l), b.lname(l)))
                continue
            if e[0] not in ("var", "arg") or e[1] == l or _canon(b, e[1]) == _canon(b, l):
                continue
            src = ("local", _canon(b, e[1]))
            nr += 1
            facts_ = _cmp_facts(b, ex, loc[0])
            ok = any(o == "Gt" and x == src and y == ("local", _canon(b, l)) for o, x, y in facts_)
            ctx.ob("%s:raise:%s=%s#%d" % (short, b.lname(l), b.lname(e[1]), nr), ok, b.where(loc),
                   "`%s = %s` must be guarded by `%s > %s` (strict)" % (b.lname(l), b.lname(e[1]), b.lname(e[1]), b.lname(l)))
        ctx.floor("%s raises" % short, nr, 1)
        if fn == ABS:
            # re-search: the second search of the same move is guarded by alpha < score < beta and uses the full window
            byarg = {}
            for c in child:
                a = strip_refs(ex.call_args(c)[one_param(f.body(ABS), "&board::BoardState") - 1])
                byarg.setdefault(a, []).append(c)
            res = [sorted(v) for v in byarg.values() if len(v) == 2]
            ctx.ob("%s:re-search-present" % short, len(res) == 1, b.file, "moves searched twice (zero window, then re-search): %d" % len(res))
            for first, second in res:
                if not b.node_dominates(first, second):
                    first, second = second, first
                facts_ = _cmp_facts(b, ex, second)
                gt = [x for o, x, y in facts_ if o == "Gt" and y == A]
                lt = [y for o, x, y in facts_ if o == "Gt" and x == B]
                ok = bool(gt) and bool(lt) and set(gt) & set(lt)
                ctx.ob("%s:re-search-guard" % short, bool(ok), b.where(b.term_loc(second)),
                       "the re-search happens only when alpha < score < beta (facts: %s)" % [(o, _n(b, x), _n(b, y)) for o, x, y in facts_])


def _n(b, k):
    if isinstance(k, tuple) and k and k[0] == "local":
        return b.lname(k[1])
    return show_expr(k, b)[:30] if isinstance(k, tuple) else str(k)


def r11_2(ctx):
    """Mate-distance clamps and the ordering of the special scores."""
    f = ctx.facts
    mate = search_const(f, "MATE_SCORE")
    pos_inf = search_const(f, "POS_INF")
    neg_inf = search_const(f, "NEG_INF")
    ctx.ob("constants:POS_INF>MATE_SCORE", pos_inf > mate > 0 and neg_inf == -pos_inf, "src/engine.rs", "POS_INF=%d, NEG_INF=%d, MATE_SCORE=%d" % (pos_inf, neg_inf, mate))
    b = f.body(ABS)
    ctx.note_fn(ABS)
    ex = Exprs(b)
    i32p = params_by_type(b, "i32")
    ply, alpha, beta = i32p
    # the clamps are the max/min calls that involve a mate-range constant; other uses of max/min
    # (e.g. `alpha = max(alpha, score)`) are not clamps
    found = {"max": [], "min": []}
    for bb, t in sorted(b.iter_calls()):
        c = callee_of(t) or ""
        if c in ("std::cmp::max", "std::cmp::min"):
            a = ex.call_args(bb)
            la, lb = _lin_locals(a[0], b), _lin_locals(a[1], b)
            if any(fm is not None and abs(fm[1]) >= mate - 1000 for fm in (la, lb)):
                found[c.split("::")[-1]].append((la, lb, b.term_loc(bb)))
    want = {"max": [({("local", alpha): 1}, 0), ({("local", ply): 1}, -mate)],
            "min": [({("local", beta): 1}, 0), ({("local", ply): -1}, mate)]}
    text = {"max": "alpha = max(alpha, ply - MATE_SCORE): the worst that can happen to this node is being mated right here",
            "min": "beta = min(beta, MATE_SCORE - ply)"}
    for kind, key in (("max", "alpha"), ("min", "beta")):
        calls = found[kind]
        ok = bool(calls) and all(want[kind][0] in (la, lb) and want[kind][1] in (la, lb) for la, lb, _ in calls)
        ctx.ob("alpha_beta_search:mate-distance:%s" % key, ok, b.where(calls[0][2]) if calls else b.file, text[kind])


CLOCK_READS = ("std::time::Instant::now", "std::time::Instant::elapsed")      # reads of the monotonic clock
# point operations on one map entry: no dependence on iteration order or hasher state
HASH_POINT_OPS = ("std::collections::hash_map::Entry::", "std::collections::hash_map::OccupiedEntry::", "std::collections::hash_map::VacantEntry::")
NONDET = ("std::time::Instant::now", "std::time::Instant::elapsed", "std::time::SystemTime::now", "std::time::SystemTime::elapsed", "rand::thread_rng", "std::env::", "std::thread::current",
          "std::collections::HashMap::<K, V, S, A>::iter", "std::collections::HashMap::<K, V, S, A>::keys", "std::collections::HashMap::<K, V, S, A>::values",
          "std::collections::HashMap::<K, V, S, A>::drain", "std::collections::hash_map", "std::process::id", "getrandom", "rand::random",
          "rand_chacha::rand_core::SeedableRng::from_entropy", "SeedableRng::from_os_rng", "from_entropy")


_CLOCK_CHAIN = ("Instant::duration_since", "Duration::as_millis", "Instant::elapsed")


def _clock_reads_only_decide_deadline(b):
    """Every clock read in this body feeds only the deadline test on the function's own deadline
    (`elapsed_ms(start) >= allowance`, the inlined form of out_of_time) and nothing else."""
    ex = Exprs(b)
    reads = {b.term_loc(bb) for bb, t in b.iter_calls() if (callee_of(t) or "") in CLOCK_READS}
    if not reads:
        return False
    roots = []
    for s_ in b.normal:
        if s_ in b.reachable and b.term(s_)["k"] == "switch":
            roots.append(ex.switch_discr(s_))
    rd = b.reaching()
    for loc, st in b.iter_stmts():
        if st["k"] != "assign":
            continue
        l = st["place"]["local"]
        if not st["place"]["proj"] and l not in b.names and l != 0 and len(rd.all_sites(l)) == 1:
            continue        # a single-definition temporary: seen through by value numbering
        roots.append(ex.rvalue(st["rv"], loc))
    for bb, t in b.iter_calls():
        c = callee_of(t) or ""
        if c in CLOCK_READS or any(c.endswith(x) for x in _CLOCK_CHAIN):
            continue
        roots += list(ex.call_args(bb))
    covered = set()
    for r in roots:
        mine = {x[3] for x in subexprs(r) if x[0] == "call" and x[1] in CLOCK_READS and x[3] in reads}
        if not mine:
            continue
        e = r
        while e[0] in ("ref", "deref") or (e[0] == "un" and e[1] == "Not"):
            e = e[2] if e[0] == "un" else e[1]
        ct = clock_test(e)
        if not _own_clock_test(b, ct) or mine != {ct[3]}:
            return False
        covered |= mine
    return covered == reads


def r7_5(ctx):
    """Clock-only nondeterminism: in cone(get_best_move) the only nondeterministic inputs are the
    clock reads of out_of_time (decision-relevant) and of send_search_info (output field only)."""
    from wa import callgraph
    f = ctx.facts
    cg = callgraph.get(f)
    cone = sorted(cg.cone(GBM))
    ctx.note_fn(*cone)
    n = 0
    for fn in cone:
        for c in sorted(cg.ext[fn]):
            if any(c.startswith(p) for p in HASH_POINT_OPS):
                continue
            if any(c.startswith(p) or p in c for p in NONDET):
                n += 1
                ok = c in CLOCK_READS and (fn in (OOT, SEND_INFO) or _clock_reads_only_decide_deadline(f.body(fn)))
                ctx.ob("cone(get_best_move):%s:%s" % (fn.split("::")[-1], c.split("::")[-1]), ok, f.body(fn).file,
                       "`%s` in %s: the search may consult nothing nondeterministic but the clock (in out_of_time, and for the `time` field of info lines)" % (c, fn))
    # the global log level (set by `setoption`, i.e. by earlier traffic) is consulted by the logging macros
    # only to decide whether to write a log record: a value derived from it is kept in no named variable
    # and controls nothing but calls into the logger / formatting machinery
    LOG_READS = ("log::max_level", "log::__private_api::enabled", "log::logger")
    for fn in cone:
        if not any(c in LOG_READS for c in cg.ext[fn]):
            continue
        b = f.body(fn)
        ex = Exprs(b)
        short = fn.split("::")[-1]

        def from_log(e):
            return any(x[0] == "call" and x[1] in LOG_READS for x in data_slice(ex, e))
        kept = []
        for loc, st in b.iter_stmts():
            if st["k"] == "assign" and not st["place"]["proj"] and st["place"]["local"] in b.names and loc[0] in b.reachable:
                if b.from_expansion(loc) if hasattr(b, "from_expansion") else False:
                    continue
                if from_log(ex.rvalue(st["rv"], loc)):
                    kept.append((loc, b.names[st["place"]["local"]]))
        for bb, t in b.iter_calls():
            d = t["dest"]
            if not d["proj"] and d["local"] in b.names and (callee_of(t) or "") in LOG_READS:
                kept.append((b.term_loc(bb), b.names[d["local"]]))
        ctx.ob("cone(get_best_move):%s:log-level-not-kept" % short, not kept, b.where(kept[0][0]) if kept else b.file,
               "no variable of %s holds a value derived from the global log level%s" % (short, "" if not kept else
                   ": `%s` does - the search then depends on a `setoption name DebugLogLevel` sent earlier in the session" % kept[0][1]))
        bad = []
        for s_ in b.normal:
            if s_ not in b.reachable or b.term(s_)["k"] != "switch":
                continue
            if not from_log(ex.switch_discr(s_)):
                continue
            tt = b.term(s_)
            for tg in {tg for _v, tg in tt["cases"]} | {tt["otherwise"]}:
                for x in b.normal:
                    if x in b.reachable and (x == tg or b.edge_dominates((s_, tg), x)) and (x != tg or len(b.preds(tg)) == 1 if hasattr(b, "preds") else True):
                        t2 = b.term(x)
                        if t2["k"] == "call":
                            c2 = callee_of(t2) or ""
                            if f.has_body(c2) or f.has_body(t2.get("resolved") or ""):
                                bad.append((x, c2))
                        if t2["k"] == "return":
                            bad.append((x, "return"))
        ctx.ob("cone(get_best_move):%s:log-level-controls-only-logging" % short, not bad, b.where(b.term_loc(bad[0][0])) if bad else b.file,
               "a test of the global log level guards only the writing of log records%s" % ("" if not bad else ": `%s` is control-dependent on it" % bad[0][1]))
    # the seed of the hasher is a constant
    for fn in cone:
        b = f.body(fn)
        ex = Exprs(b)
        for bb, t in b.iter_calls():
            if (callee_of(t) or "").endswith("seed_from_u64"):
                a = ex.call_args(bb)[0]
                ctx.ob("cone(get_best_move):%s:constant-seed" % fn.split("::")[-1], a[0] == "const", b.where(b.term_loc(bb)), "hasher seeded with `%s`" % show_expr(a, b))
    # in send_search_info the clock value reaches no branch
    b = f.body(SEND_INFO)
    ex = Exprs(b)
    bad = []
    for s in b.normal:
        if s in b.reachable and b.term(s)["k"] == "switch":
            d = ex.switch_discr(s)
            if any(x[0] == "call" and x[1] in CLOCK_READS for x in data_slice(ex, d)):
                bad.append(b.where(b.term_loc(s)))
    ctx.ob("send_search_info:clock-not-decision-relevant", not bad, bad[0] if bad else b.file, "the clock read of the info line feeds only the printed `time` field")
    ctx.floor("clock reads in the search cone", n, 2)


TABLE_LIMIT_MIN_PLY = 20     # far beyond the mate window (15) and the depths (1..3) the properties speak about


def r11_5(ctx):
    """Horizon: a node at remaining depth 0 is handed to quiescence only when
    is_check(board, board.to_move) is false (the same test that decides mate at a move-less node);
    otherwise it is extended.  A hand-over whose only guard is a lower bound `ply >= K` (K a constant
    >= 20) on the ply-from-root parameter is the table-limit leaf (the per-ply tables are full) and is
    not a horizon decision; its complement `ply < K` is not a condition of the horizon hand-over."""
    f = ctx.facts
    b = f.body(ABS)
    ctx.note_fn(ABS)
    ex = Exprs(b, keep=_named_i32(b))
    bp = one_param(b, "&board::BoardState")
    depthp = params_by_type(b, "u8")
    plyp = params_by_type(b, "i32")[:1]
    handovers = []
    for bb, t in b.iter_calls(callee=QUIESCE):
        a = strip_refs(ex.call_args(bb)[one_param(f.body(QUIESCE), "&board::BoardState") - 1])
        if a == ("arg", bp):
            handovers.append(bb)

    def local_of(x):
        x = strip_refs(x)
        while x[0] == "cast":
            x = strip_refs(x[2])
        return _canon(b, x[1]) if x[0] in ("arg", "var") else None

    def const_of(x):
        x = strip_refs(x)
        return x[1] if x[0] == "const" and isinstance(x[1], int) and not isinstance(x[1], bool) else None
    horizon = 0
    for bb in sorted(handovers):
        at_zero = False
        not_check = False
        others = []
        ply_lo = None
        for d, truth in sorted(known_atoms(b, ex, bb), key=repr):
            d0 = strip_refs(d)
            if d0[0] == "bin" and d0[1] in ("Eq", "Ne") and local_of(d0[2]) in depthp and d0[3] == ("const", 0):
                if truth == (d0[1] == "Eq"):
                    at_zero = True
                else:
                    others.append(show_expr(d0, b)[:60])
                continue
            if d0[0] == "call" and d0[1] == IS_CHECK:
                own = strip_refs(d0[2][0]) == ("arg", bp) and strip_refs(d0[2][1]) == ("field", ("deref", ("arg", bp)), "to_move")
                if truth is False and own:
                    not_check = True
                else:
                    others.append(show_expr(d0, b)[:60])
                continue
            if (d0[0] == "call" and d0[1] == IS3) or clock_test(d0, True, b.facts) is not None:
                continue
            c = _cmp_norm(d0 if truth else ("un", "Not", d0))
            if c is not None:
                op, x, y = c
                if local_of(x) in plyp and const_of(y) is not None:          # ply >= K / ply > K
                    k = const_of(y) + (1 if op == "Gt" else 0)
                    ply_lo = k if ply_lo is None else max(ply_lo, k)
                    continue
                if local_of(y) in plyp and const_of(x) is not None:          # K >= ply / K > ply
                    k = const_of(x) + (1 if op == "Ge" else 0)                # ply < k
                    if k >= TABLE_LIMIT_MIN_PLY:
                        continue        # not yet at the table limit: holds wherever the properties look
            others.append(("" if truth else "!") + show_expr(d0, b)[:60])
        for d, vals, excl, s_, tg in dominating_facts(b, ex, bb):
            if b.term(s_).get("discr_ty") == "bool":
                continue
            if local_of(d) in depthp and vals == [0]:
                at_zero = True          # `match depth { 0 => .. }`
            else:
                others.append(show_expr(strip_refs(d), b)[:60])
        if ply_lo is not None and ply_lo >= TABLE_LIMIT_MIN_PLY and not at_zero and not not_check and not others:
            ctx.ob("alpha_beta_search:table-limit-leaf", True, b.where(b.term_loc(bb)),
                   "hand-over to quiescence guarded solely by ply_from_root >= %d: the per-ply tables are full, not a horizon decision" % ply_lo)
            continue
        if ply_lo is not None:
            others.append("ply_from_root >= %d" % ply_lo)
        horizon += 1
        ctx.ob("alpha_beta_search:horizon:quiescence-only-when-not-in-check", at_zero and not_check, b.where(b.term_loc(bb)),
               "the leaf is handed to quiescence under depth == 0 (%s) and !is_check(board, board.to_move) (%s); other conditions: %s" % (at_zero, not_check, others))
        ctx.ob("alpha_beta_search:horizon:no-other-condition", not others, b.where(b.term_loc(bb)), "conditions besides depth and check: %s" % others)
    ctx.floor("leaf hand-overs to quiescence", horizon, 1)


def r11_4(ctx):
    """Root ordering: the 'search this first' flag is put on a root list generated afresh in the same
    iteration, so only the last accepted best move carries it."""
    f = ctx.facts
    b = f.body(GBM)
    ctx.note_fn(GBM)
    VEC = "std::vec::Vec<board::BoardState>"
    keep = {l for l in b.names if b.local_ty(l) == VEC}
    # branches decided by constants (an inlined helper called with `None`) are not part of the function
    b, ex, _dead = specialise(b, {}, keep=keep)
    pos_inf = search_const(f, "POS_INF")
    loops = b.loops()
    if not loops:
        raise ShapeNotRecognised("get_best_move has no iterative-deepening loop")
    outer = max(loops, key=lambda h: len(loops[h]))
    n = 0
    for loc, st in b.iter_stmts():
        if st["k"] != "assign":
            continue
        p = st["place"]
        if not (p["proj"] and p["proj"][-1]["k"] == "field" and p["proj"][-1].get("name") == "order_heuristic"):
            continue
        e = ex.rvalue(st["rv"], loc)
        if e != ("const", pos_inf):
            continue
        n += 1
        # which list: the vector the written element comes from
        base = ex.place({"local": p["local"], "proj": p["proj"][:-1], "ty": ""}, loc)
        ptr = ex.local(p["local"], loc)
        # (the element pointer comes from `for m in &mut v`, `v.iter_mut().find(..)`, `v[i]`, ...)
        roots = loopform.receiver_roots(b, ex, base, VEC) | loopform.receiver_roots(b, ex, ptr, VEC)
        vec = next(iter(roots)) if len(roots) == 1 else None
        if vec is None:
            ctx.ob("get_best_move:pv-flag#%d:list" % n, False, b.where(loc), "cannot tell which list the flagged move belongs to", reason="shape-not-recognised")
            continue
        defs = b.reaching().defs(vec, loc)
        whole = [dl for dl, k in defs if k == "whole"]
        fresh = bool(whole) and all(dl[0] in loops[outer] and b.node_dominates(dl[0], loc[0]) for dl in whole)
        ctx.ob("get_best_move:pv-flag#%d:on-fresh-list" % n, fresh, b.where(loc),
               "the list whose element is flagged was generated at %s; it must be regenerated inside the same iteration, otherwise flags of earlier best moves pile up and an already refuted move is searched (and sent) first" % (
                   [b.where(dl) for dl in whole]))
    ctx.floor("pv flag writes at the root", n, 1)


def r7_6(ctx):
    """The search ends only when the clock says so or every depth has been searched: each `return`
    of get_best_move is reached through the expired edge of out_of_time(start, t) or through the
    exit of the depth loop; and a recorded best move implies a sent move."""
    f = ctx.facts
    b = f.body(GBM)
    ctx.note_fn(GBM)
    ex = Exprs(b)
    loops = b.loops()
    if not loops:
        raise ShapeNotRecognised("get_best_move: no loops")
    outer = max(loops, key=lambda h: len(loops[h]))
    ot_true = set()
    for s, tg, truth, cb, fresh, lastdefs, own in ot_edges(b, ex):
        if truth is True:
            ot_true.add((s, tg))
    # exit edges of the depth loop: its own iteration is exhausted (`while d < N` false, `for d in a..N` done)
    depth_exit = loopform.exhaustion_exits(b, ex, loops, outer)
    rets = b.return_blocks()
    reach = b.reach_from(0, (), ot_true | depth_exit)
    bad = [r for r in rets if r in reach]
    where = b.file
    if bad:
        # name a block from which return is reached without those edges: the first block outside the
        # normal flow that leads to return
        for x in sorted(reach):
            if b.term(x)["k"] in ("goto", "drop") and any(b.reaches(x, r, removed_edges=ot_true | depth_exit) for r in bad) and x in loops[outer]:
                pass
        for loc, st in b.iter_stmts():
            if st["k"] == "assign" and st["place"]["local"] == 0 and loc[0] in reach and loc[0] in loops[outer]:
                where = b.where(loc)
    ctx.ob("get_best_move:returns-only-on-expiry-or-last-depth", not bad, where,
           "every return of the search is behind the expired edge of out_of_time(start, t) or the end of the depth loop%s" % (
               "" if not bad else ": NOT so — the search can stop early on another condition, leaving root moves of the current depth unexamined"))
    ctx.floor("expiry edges in get_best_move", len(ot_true), 1)
    # best_move recorded => a move was sent in the same region
    sends = [bb for bb, t in b.iter_calls() if (callee_of(t) or "").endswith("Sender::<T>::send")]
    n = 0
    from .hash import control_equivalent
    for loc, l, lab in record_sites(b, ex):
        n += 1
        ok = any(control_equivalent(b, loc[0], sb) for sb in sends)
        ctx.ob("get_best_move:best_move-recorded-implies-sent#%d" % n, ok, b.where(loc),
               "`%s` happens exactly when a move is sent on the channel (the fallback relies on the indicator being empty meaning 'nothing sent yet')" % lab)
    ctx.floor("best_move recordings", n, 1)


VEC_OK = ("::sort_unstable_by_key", "::sort_by_key", "::sort_unstable_by", "::sort_by", "::into_iter", "::iter", "::iter_mut", "::is_empty", "::len", "::index", "::index_mut",
          "::deref", "::deref_mut", "::as_slice", "::as_mut_slice", "::first", "::get", "::skip", "Clone>::clone", "::swap")


def r12_6(ctx):
    """The list that is searched is the list that was generated: between generate_moves and the
    searches the move list is only reordered and annotated, never filtered or truncated."""
    f = ctx.facts
    n = 0
    for fn in (GBM, ABS, QUIESCE):
        b = f.body(fn)
        ctx.note_fn(fn)
        ex = Exprs(b)
        vecs = [l for l in range(len(b.locals)) if b.local_ty(l) == "std::vec::Vec<board::BoardState>" and l in b.names]
        for v in vecs:
            for bb, t in b.iter_calls():
                c = callee_of(t) or ""
                hit = False
                for a in t["args"]:
                    al = operand_alias(b, a)
                    if al and al[0] == v:
                        hit = True
                if not hit:
                    # slice methods reached through deref_mut temporaries
                    args = ex.call_args(bb)
                    hit = any(root_local(x) == v for a in args for x in [strip_refs(a)] if x[0] == "call" and x[1].endswith("deref_mut")) or \
                        any(any(y[0] == "call" and y[1].endswith("::deref_mut") and root_local(y[2][0]) == v for y in subexprs(a)) for a in args)
                if not hit or c == GEN or t["k"] != "call":
                    continue
                n += 1
                ok = any(c.endswith(sfx) for sfx in VEC_OK) or c in (ABS, QUIESCE) or c.endswith("Sender::<T>::send") or c.startswith("search::Search::")
                if not ok:
                    ctx.ob("%s:%s:list-mutated-by:%s" % (fn.split("::")[-1], b.lname(v), c.split("::")[-1]), False, b.where(b.term_loc(bb)),
                           "`%s` is applied to the generated move list `%s`: the list may be reordered and annotated but not filtered, truncated or extended, otherwise the search is not over the engine's own move generation" % (c, b.lname(v)))
    ctx.ob("move-lists-only-reordered", True, "", "%d uses of generated move lists examined" % n, nontrivial=False)
    ctx.floor("uses of move lists", n, 3)


def _arith_consts(e):
    """Constants of the arithmetic expression e (descends unary/binary/cast nodes only)."""
    out = []
    st = [e]
    while st:
        x = st.pop()
        if x[0] == "const":
            out.append(x)
        elif x[0] == "bin":
            st += [x[2], x[3]]
        elif x[0] in ("un", "cast", "ref", "deref", "copy"):
            st += [y for y in x[1:] if isinstance(y, tuple)]
    return out


def r11_6(ctx):
    """Every mate-range constant that enters the score flow of the search carries a distance: it occurs
    only as `MATE_SCORE - ply` / `ply - MATE_SCORE` with ply the ply-from-root parameter.  A bare
    +-MATE_SCORE is a mate "in 0", which the reporter prints as `score mate 0`."""
    f = ctx.facts
    mate = search_const(f, "MATE_SCORE")
    n = 0
    for fn in (ABS, QUIESCE, GBM):
        if not f.has_body(fn):
            raise AnchorMissing(fn)
        b = f.body(fn)
        ctx.note_fn(fn)
        ex = Exprs(b)
        i32s = params_by_type(b, "i32")
        roots = []
        for loc, st in b.iter_stmts():
            if st["k"] == "assign" and loc[0] in b.reachable and not st["place"]["proj"] and (st["place"]["local"] == 0 or st["place"]["local"] in b.names):
                roots.append((loc, ex.rvalue(st["rv"], loc)))
        for bb, t in b.iter_calls():
            if bb in b.reachable:
                for a in ex.call_args(bb):
                    roots.append((b.term_loc(bb), strip_refs(a)))
        k = 0
        seen = set()
        for loc, e in roots:
            if e[0] == "checked":
                e = e[1] if len(e) > 1 and isinstance(e[1], tuple) else e
            hit = [x for x in _arith_consts(e) if isinstance(x[1], int) and not isinstance(x[1], bool) and mate - 1000 <= abs(x[1]) <= mate + 1000]
            if not hit or (loc, e) in seen:
                continue
            seen.add((loc, e))
            n += 1
            k += 1
            le = linear(e)
            ok = False
            if le is not None and abs(le[1]) == mate and len(le[0]) == 1:
                (term, coeff), = le[0].items()
                ok = term[0] == "arg" and term[1] in i32s and coeff == (1 if le[1] < 0 else -1)
            ctx.ob("%s:mate-constant#%d" % (fn.split("::")[-1], k), ok, b.where(loc),
                   "`%s`: %s" % (show_expr(e, b)[:70], "MATE_SCORE combined with the ply-from-root parameter" if ok else
                                 "a mate-range score without a distance enters the search: the root reports it as `score mate 0` and it compares equal for every mating line"))
    ctx.floor("mate-range constants in the search", n, 1)
