"""Text-move applier rules (C04; shared with C06): R4.1 event discipline of make_move, R4.3 corner
strings and castling tables (finite instantiation of the string guards), R4.4 play_out_position."""
from wa.mir import AnchorMissing, ShapeNotRecognised, callee_of, operand_alias
from wa.expr import Exprs, show_expr, strip_refs, subexprs, root_local
from wa.cond import refuted_edges, refuted_edges_concrete, dominating_facts
from wa.flow import forward_states
from . import chess
from .hash import SWAP, TAKE, UNSET, MOVE, place_root
from wa.cond import canon


def _ck(terms):
    """Affine-form terms keyed without reference/dereference nodes (for comparison only)."""
    return {canon(k): v for k, v in terms.items()}


MM = "uci::make_move"
POP = "uci::play_out_position"
BSMUT = "&mut board::BoardState"


def _board_param(b):
    ps = [i for i in range(1, b.arg_count + 1) if b.local_ty(i) == BSMUT]
    if len(ps) != 1:
        raise ShapeNotRecognised("make_move(board: &mut BoardState, ..)")
    return ps[0]


def _str_param(b):
    ps = [i for i in range(1, b.arg_count + 1) if b.local_ty(i) == "&str"]
    if len(ps) != 1:
        raise ShapeNotRecognised("make_move(.., player_move: &str, ..)")
    return ps[0]


def board_events(b, ex, bp):
    """{loc: (kind, detail)} of everything that changes the board behind `bp` in this body."""
    ev = {}
    for loc, st in b.iter_stmts():
        if st["k"] != "assign":
            continue
        root, proj = place_root(b, st["place"])
        if root == ("ptr", bp) and proj and proj[0]["k"] == "field":
            ev[loc] = ("write", proj[0]["name"], ex.rvalue(st["rv"], loc))
    for bb, t in b.iter_calls():
        c = callee_of(t)
        for i, a in enumerate(t["args"]):
            al = operand_alias(b, a)
            if al and al[0] == bp and al[1] == "val" and b.local_ty(bp) == BSMUT and c and c.startswith("board::BoardState::"):
                # only &mut receivers mutate
                if i == 0 and c in (SWAP, TAKE, UNSET, MOVE):
                    ev[b.term_loc(bb)] = ("call", c, ex.call_args(bb))
    return ev


def r4_1(ctx):
    f = ctx.facts
    b = f.body(MM)
    ctx.note_fn(MM)
    ex = Exprs(b)
    bp = _board_param(b)
    ev = board_events(b, ex, bp)
    kinds = f.enum_variant_by_discr("board::PieceKind")
    colours = f.enum_variant_by_discr("board::PieceColor")
    # (a) the inherited en-passant target is cleared before anything else happens to the board
    unset = [loc for loc, e in ev.items() if e[0] == "call" and e[1] == UNSET]
    ok = len(unset) >= 1 and all(b.node_dominates(unset[0][0], loc[0]) for loc in ev if loc != unset[0])
    ctx.ob("make_move:ep-cleared-first", ok, b.where(unset[0]) if unset else b.file,
           "unset_pawn_double_move(board) dominates every other change of the board (%d events)" % len(ev))
    # (b) one side swap on every returning path, nothing after it
    bad = []

    def step(loc, s):
        e = ev.get(loc)
        if e is None:
            return [s]
        if e[0] == "call" and e[1] == SWAP:
            return [min(s + 1, 3)]
        if s >= 1:
            bad.append(loc)
        return [s]

    before, at_ret = forward_states(b, (0, -1), {0}, step, restart_kills=False)
    for rb, sts in at_ret.items():
        ctx.ob("make_move:one-side-swap", sts == {1}, b.where(b.term_loc(rb)), "side swaps on the paths reaching return: %s (must be exactly one)" % sorted(sts))
    if not at_ret:
        ctx.ob("make_move:one-side-swap", False, b.file, "no return reached")
    ctx.ob("make_move:swap-is-last", not bad, b.where(bad[0]) if bad else b.file,
           "board events after swap_color: %s" % [b.where(x) for x in bad[:3]])
    # (c) king moves: cache write with the destination, both rights of that colour removed
    kind_e = col_e = None
    for s in b.normal:
        if s in b.reachable and b.term(s)["k"] == "switch":
            d = ex.switch_discr(s)
            if d[0] == "bin" and d[1] in ("Eq", "Ne"):
                for x, k in ((strip_refs(d[2]), strip_refs(d[3])), (strip_refs(d[3]), strip_refs(d[2]))):
                    if k == ("agg", "board::PieceKind", "King", ()) and x[0] == "field" and x[2] == "kind":
                        kind_e = x
            elif d[0] == "discr":
                # `match piece.kind { King => .., Pawn => .., _ => .. }`
                x = strip_refs(d[1])
                if x[0] == "field" and x[2] == "kind" and d[2] == "board::PieceKind" and kind_e is None:
                    kind_e = x
    if kind_e is None:
        raise ShapeNotRecognised("make_move: the kind of the moved piece is never tested (`piece.kind == King` / `match piece.kind`)")
    col_e = ("field", kind_e[1], "color")
    # destination square: second parse::<Point> result
    pts = []
    for bb, t in sorted(b.iter_calls()):
        if (callee_of(t) or "").endswith("<impl str>::parse") and (t.get("generic_args") or [""])[0] == "board::Point":
            pts.append(ex.call_expr(t, b.term_loc(bb)))
    if len(pts) != 2:
        raise ShapeNotRecognised("make_move: expected two parse::<Point>() calls (from, to), found %d" % len(pts))
    rets = b.return_blocks()
    variants = {kind_e: kinds, col_e: colours}
    for colour in ("White", "Black"):
        hyp = {kind_e: ("eq", "King"), col_e: ("eq", colour)}
        ref = refuted_edges(b, ex, hyp, variants)
        field = "%s_king_location" % colour.lower()
        wr = {loc[0] for loc, e in ev.items() if e[0] == "write" and e[1] == field and
              any(x[0] == "call" and x == pts[1] for x in subexprs(e[2]))}
        # start after the piece has been read (the hypothesis expressions exist from there on)
        start = 0
        reach = any(b.reaches(start, r, removed_nodes=wr, removed_edges=ref) for r in rets)
        ctx.ob("make_move:king(%s):cache-follows-king" % colour, not reach, b.where((sorted(wr)[0], 0)) if wr else b.file,
               "every path consistent with a %s king move stores the destination square in %s%s" % (
                   colour, field, "" if not reach else ": NOT so — a king move (e.g. castling) can reach return without updating the cached king square, and check detection probes the cached square"))
        for right in [k for k, v in chess.RIGHT_COLOUR.items() if v == colour]:
            tk = {loc[0] for loc, e in ev.items() if e[0] == "call" and e[1] == TAKE and strip_refs(e[2][1]) == ("agg", "move_generation::CastlingType", right, ())}
            reach = any(b.reaches(start, r, removed_nodes=tk, removed_edges=ref) for r in rets)
            ctx.ob("make_move:king(%s)->%s" % (colour, right), not reach, b.where((sorted(tk)[0], 0)) if tk else b.file,
                   "every path consistent with a %s king move removes %s" % (colour, right))
    # (d) only a pawn move empties a square other than the one it leaves: the en-passant removal of the
    # text applier is a raw write of `Empty` into the board array (the departure square is emptied inside
    # move_piece).  Under the hypothesis that the moved piece is of any other kind no such write may be
    # reachable - a knight landing on the square a pawn has just skipped captures nothing beside it.
    raw_empty = [loc for loc, e in ev.items() if e[0] == "write" and e[1] == "board" and strip_refs(e[2])[:3] == ("agg", "board::Square", "Empty")]
    for k in sorted(set(kinds.values()) - {"Pawn"}):
        ref = refuted_edges(b, ex, {kind_e: ("eq", k)}, variants)
        for i, loc in enumerate(sorted(raw_empty)):
            reach = b.reaches(0, loc[0], removed_edges=ref)
            ctx.ob("make_move:square-emptied-only-by-pawn-move(%s)#%d" % (k, i + 1), not reach, b.where(loc),
                   "`%s` is not reachable when the moved piece is a %s%s" % (b.text_at(loc)[:60], k, "" if not reach else
                       ": NOT so - a %s moving onto the recorded en-passant target (or any square this test accepts) removes a pawn it did not capture; replayed position and hash are wrong" % k))
    # no other writer of the king cache
    for loc, e in ev.items():
        if e[0] == "write" and e[1].endswith("_king_location"):
            okv = any(x == pts[1] for x in subexprs(e[2]))
            ctx.ob("make_move:king-cache-value:%s" % e[1], okv, b.where(loc), "`%s` must store the move's destination square" % b.text_at(loc)[:70])


def _true_conditions(b, ex, bb, depth=0):
    """Boolean conditions known to hold on entry to bb: those of the dominating edges, and - where a
    dominating edge says that a merged variable holds variant V (`if let Some(h) = rook_move`) and exactly
    one of its literal definitions builds V - those that hold where that definition was executed."""
    out = []
    for d, vals, excl, s_, tg in dominating_facts(b, ex, bb):
        if b.term(s_)["discr_ty"] == "bool":
            if (vals is None and excl == [0]) or vals == [1]:
                out.append(d)
            continue
        d0 = strip_refs(d)
        if depth < 2 and d0[0] == "discr" and vals and len(vals) == 1:
            x = strip_refs(d0[1])
            if x[0] == "var" and all(k == "whole" for _, k in x[2]):
                hit = []
                for (dbb, di), _k in x[2]:
                    st = b.stmts(dbb)
                    if di < len(st) and st[di]["rv"]["k"] == "aggregate" and st[di]["rv"].get("vi") is not None:
                        if st[di]["rv"]["vi"] == vals[0]:
                            hit.append(dbb)
                    else:
                        hit = None
                        break
                if hit and len(hit) == 1 and hit[0] in b.reachable:
                    out += _true_conditions(b, ex, hit[0], depth + 1)
    return out


def _proj_simplify(e):
    """`(a, b).0` -> a (component of a literal tuple / struct), bottom-up."""
    if not isinstance(e, tuple) or not e:
        return e
    e = tuple(_proj_simplify(x) if isinstance(x, tuple) else x for x in e)
    if e[0] == "field" and len(e) == 3 and isinstance(e[1], tuple) and e[1]:
        base = strip_refs(e[1])
        if base[0] == "agg" and base[1] in ("tuple",) and str(e[2]).isdigit() and int(e[2]) < len(base[3]):
            return base[3][int(e[2])]
    return e


def _ground_eq(d):
    """`A == B` / `A != B` for two struct literals with constant fields: structural comparison."""
    if not (isinstance(d, tuple) and len(d) == 4 and d[0] == "bin" and d[1] in ("Eq", "Ne")):
        return None
    a, c = strip_refs(d[2]), strip_refs(d[3])
    if a[0] == "agg" and c[0] == "agg" and a[1] == c[1] and len(a[3]) == len(c[3]) and all(x[0] == "const" for x in a[3] + c[3]):
        eq = tuple(x[1] for x in a[3]) == tuple(x[1] for x in c[3])
        return eq if d[1] == "Eq" else not eq
    return None


def _table_takes(b, ex, ev, sp, text, rets, ref):
    """Rights removed under move text `text` by a table-driven loop
    (`for (square, right) in [("a8", BlackQueenSide), ..] { if player_move.contains(square) { take_away(right) } }`):
    the loop lies on every path to a return, leaves only when the table is exhausted, and for each element the
    guards that mention the element are evaluated with the element and the text substituted."""
    from .hash import _table_item
    from wa.loopseg import subst
    from wa.interp import eval_expr, Unknown
    out = set()
    loops = b.loops()
    for loc, e in ev.items():
        if e[0] != "call" or e[1] != TAKE:
            continue
        ra = strip_refs(e[2][1])
        ti = _table_item(b, ex, ra)
        if ti is None:
            continue
        item, comp, elems = ti
        inl = [h for h, body_ in loops.items() if loc[0] in body_]
        if not inl:
            continue
        h = min(inl, key=lambda hh: len(loops[hh]))
        # every path to a return runs the loop, and the loop is left only from its header's iteration test
        if any(b.reaches(0, r, removed_nodes={h}, removed_edges=ref) for r in rets):
            continue
        exits = {(x, s_) for x in loops[h] for s_ in b.succ.get(x, []) if s_ not in loops[h]}
        nxt_blocks = {x for x in loops[h] if b.term(x)["k"] == "switch" and ex.switch_discr(x)[0] == "discr"
                      and strip_refs(ex.switch_discr(x)[1]) == strip_refs(item[1][1] if item[0] == "field" else item)}
        if any(x not in nxt_blocks for x, _s in exits):
            continue
        some_t = None
        for x in nxt_blocks:
            tt = b.term(x)
            for v, tg in tt["cases"]:
                if v == 1:
                    some_t = tg
            if some_t is None and tt["otherwise"] in loops[h]:
                some_t = tt["otherwise"]
        if some_t is None:
            continue
        env = {("arg", sp): text, ("deref", ("arg", sp)): text}
        # the squares the text names, as the applier parses them (arguments of its move_piece call)
        sq_sub = {}
        mpc = [bb for bb, t in b.iter_calls(callee=MOVE)]
        if mpc and len(text) >= 4:
            a_ = ex.call_args(sorted(mpc)[0])
            for e_, name in ((strip_refs(a_[1]), text[0:2]), (strip_refs(a_[2]), text[2:4])):
                if e_[0] not in ("agg", "const"):
                    r_, c_ = chess.sq(name)
                    sq_sub[e_] = ("agg", "board::Point", None, (("const", r_), ("const", c_)))
        for el in elems:
            el = strip_refs(el)
            if not (el[0] == "agg" and el[1] == "tuple"):
                continue
            # one iteration with the element substituted: every switch of the loop body whose condition can
            # be evaluated for this element and this text keeps only the edge taken; the removal is certain
            # when the iteration cannot get back to the loop head without passing the call
            ref_e = set(ref)
            for x in loops[h]:
                if x in nxt_blocks or b.term(x)["k"] != "switch":
                    continue
                d = ex.switch_discr(x)
                try:
                    m_ = dict(sq_sub)
                    m_[item] = el
                    d2 = _proj_simplify(subst(d, m_))
                    g = _ground_eq(d2)
                    v = g if g is not None else eval_expr(d2, env)
                except (Unknown, TypeError, ValueError, IndexError, KeyError):
                    continue
                if isinstance(v, bool):
                    v = int(v)
                if not isinstance(v, int):
                    continue
                tt = b.term(x)
                take = tt["otherwise"]
                for val, tg in tt["cases"]:
                    if val == v:
                        take = tg
                for tg in b.succ.get(x, []):
                    if tg != take:
                        ref_e.add((x, tg))
            certain = loc[0] in b.reach_from(some_t, (), ref_e) and not b.reaches(some_t, h, removed_nodes={loc[0]}, removed_edges=ref_e)
            if certain:
                r_e = strip_refs(el[3][int(comp)])
                if r_e[0] == "agg":
                    out.add(r_e[2])
    return out


def r4_3(ctx):
    """Corner squares <-> rights by finite instantiation of the string guards; castling strings and
    rook hops against the oracle."""
    f = ctx.facts
    b = f.body(MM)
    ctx.note_fn(MM)
    ex = Exprs(b)
    bp = _board_param(b)
    sp = _str_param(b)
    ev = board_events(b, ex, bp)
    rets = b.return_blocks()
    corners = sorted(chess.CORNER_RIGHT)
    others = {"from": "d4", "to": "e5"}
    n = 0
    ndec = 0
    for frm in corners + [others["from"]]:
        for to in corners + [others["to"]]:
            if frm == to:
                continue
            for promo in ("", "q", "n"):
                m = frm + to + promo
                ref, decided = refuted_edges_concrete(b, ex, {("arg", sp): m, ("deref", ("arg", sp)): m})
                ndec = max(ndec, decided)
                for corner in {frm, to} & set(corners):
                    right = chess.CORNER_RIGHT[corner]
                    tk = {loc[0] for loc, e in ev.items() if e[0] == "call" and e[1] == TAKE and
                          strip_refs(e[2][1]) == ("agg", "move_generation::CastlingType", right, ())}
                    reach = any(b.reaches(0, r, removed_nodes=tk, removed_edges=ref) for r in rets)
                    n += 1
                    if reach and right in _table_takes(b, ex, ev, sp, m, rets, ref):
                        ndec = max(ndec, 4)
                        continue
                    if reach:
                        ctx.ob("make_move:text(%s)->%s" % (m, right), False, b.where((sorted(tk)[0], 0)) if tk else b.file,
                               "the move text `%s` touches %s but can be applied without removing %s (string guards evaluated for this text)" % (m, corner, right))
    ctx.ob("make_move:corner-texts", True, b.file, "%d (text, corner) instances evaluated; %d string guards decided per text" % (n, ndec), nontrivial=False)
    ctx.floor("string guards decided per move text", ndec, 4)
    ctx.floor("corner text instances", n, 60)
    # castling strings: for each castling text the body is specialised to `player_move == text` (string
    # guards evaluated, selected values folded); there the rook hop of the oracle must be the one extra
    # move_piece with constant squares, and it must depend on the mover being that side's king
    from wa.cond import specialise
    seen = set()
    for right, (kf, kt, rf_o, rt_o, _c, _d) in sorted(chess.CASTLING.items()):
        text = kf + kt
        want_col = chess.RIGHT_COLOUR[right]
        ref, _dec = refuted_edges_concrete(b, ex, {("arg", sp): text, ("deref", ("arg", sp)): text})
        b1 = b.restrict(ref)
        b2, ex2, _dead = specialise(b1, {}, {})
        hops = {}
        for bb, t in b2.iter_calls(callee=MOVE):
            al = operand_alias(b2, t["args"][0])
            if not (al and al[0] == bp):
                continue
            args = ex2.call_args(bb)
            a, c = strip_refs(args[1]), strip_refs(args[2])
            if a[0] == "agg" and c[0] == "agg" and all(x[0] == "const" for x in a[3] + c[3]):
                hops[bb] = ((a[3][0][1], a[3][1][1]), (c[3][0][1], c[3][1][1]))
        want = (chess.sq(rf_o), chess.sq(rt_o))
        ok = bool(hops) and set(hops.values()) == {want}
        ctx.ob("make_move:rook-hop:%s" % text, ok, b.where(b.term_loc(sorted(hops)[0])) if hops else b.file,
               "under move text `%s` the rook is moved %s->%s (constant-square move_piece calls on this text: %s)" % (
                   text, rf_o, rt_o, sorted(set(hops.values()))))
        if ok:
            seen.add(right)
        for hb in sorted(hops):
            king_test = False
            for d in _true_conditions(b2, ex2, hb):
                for x in subexprs(d):
                    if x[0] == "call" and x[1].endswith("board::Piece::king") and x[2]:
                        c_ = strip_refs(x[2][0])
                        if c_[0] != "agg" or c_[2] == want_col:
                            king_test = True
                    if x == ("agg", "board::PieceKind", "King", ()):
                        cols = [y[2] for y in subexprs(d) if y[0] == "agg" and y[1] == "board::PieceColor"]
                        if not cols or want_col in cols:
                            king_test = True
            ctx.ob("make_move:rook-hop:%s:only-for-the-king" % text, king_test, b.where(b.term_loc(hb)),
                   "the rook hop of `%s` is taken only when the %s king is the piece that moved%s" % (
                       text, want_col, "" if king_test else ": NOT so - no test of the king guards it, so a queen or rook travelling %s drags the corner rook along" % text))
    ctx.ob("make_move:all-four-castling-texts", seen == set(chess.CASTLING), b.file, "castling texts with a correct rook hop: %s" % sorted(seen))
    # and an ordinary text moves nothing but the piece named
    ref, _dec = refuted_edges_concrete(b, ex, {("arg", sp): "d4e5", ("deref", ("arg", sp)): "d4e5"})
    b2, ex2, _dead = specialise(b.restrict(ref), {}, {})
    extra = []
    for bb, t in b2.iter_calls(callee=MOVE):
        args = ex2.call_args(bb)
        a, c = strip_refs(args[1]), strip_refs(args[2])
        if a[0] == "agg" and c[0] == "agg" and all(x[0] == "const" for x in a[3] + c[3]):
            extra.append(bb)
    ctx.ob("make_move:no-hop-on-ordinary-text", not extra, b.where(b.term_loc(extra[0])) if extra else b.file, "under `d4e5` no constant-square move_piece is reachable")


def r4_5(ctx):
    """Promotion follows the move text: a five-character text always rewrites the arrival square with the
    named piece, a four-character text never does (string guards evaluated per text, as in R4.3)."""
    f = ctx.facts
    b = f.body(MM)
    ctx.note_fn(MM)
    ex = Exprs(b)
    bp = _board_param(b)
    sp = _str_param(b)
    ev = board_events(b, ex, bp)
    pw = sorted(loc for loc, e in ev.items() if e[0] == "write" and e[1] == "board" and e[2][0] == "agg" and e[2][2] == "Full")
    ctx.floor("promotion writes in make_move", len(pw), 1)
    rets = b.return_blocks()
    pblocks = {loc[0] for loc in pw}
    ndec = 0
    for m in ("a7a8q", "a2a1q", "h7g8n", "h2h1r", "e7e8b", "b2c1b"):
        ref, decided = refuted_edges_concrete(b, ex, {("arg", sp): m, ("deref", ("arg", sp)): m})
        ndec = max(ndec, decided)
        bypass = [r for r in rets if b.reaches(0, r, removed_nodes=pblocks, removed_edges=ref)]
        ctx.ob("make_move:text(%s):promotes" % m, not bypass, b.where(pw[0]) if pw else b.file,
               "the promotion text `%s` %s" % (m, "can be applied without rewriting the arrival square: the promotion depends on something other than the text (string guards evaluated for this text)" if bypass
                                                else "rewrites the arrival square on every path"))
    for m in ("a7a8", "a2a1", "e2e4", "e1g1", "h7g8"):
        ref, decided = refuted_edges_concrete(b, ex, {("arg", sp): m, ("deref", ("arg", sp)): m})
        ndec = max(ndec, decided)
        hit = [loc for loc in pw if b.reaches(0, loc[0], removed_edges=ref)]
        ctx.ob("make_move:text(%s):no-promotion" % m, not hit, b.where(hit[0]) if hit else b.file,
               "the four-character text `%s` %s" % (m, "can reach the promotion write" if hit else "never rewrites the arrival square"))
    ctx.floor("string guards decided per promotion text", ndec, 1)


def r4_4(ctx):
    """play_out_position: board from from_fen on both branches; mutated only by make_move in input order."""
    f = ctx.facts
    b = f.body(POP)
    ctx.note_fn(POP)
    ex = Exprs(b)
    boards = [l for l in range(len(b.locals)) if b.local_ty(l) == "board::BoardState" and l in b.names]
    if not boards:
        raise ShapeNotRecognised("play_out_position: no BoardState local")
    L = boards[0]
    nd = 0
    for loc, kind in b.reaching().all_sites(L):
        if kind != "whole":
            continue
        nd += 1
        bb, i = loc
        st = b.stmts(bb)
        e = ex.rvalue(st[i]["rv"], loc) if i < len(st) else ex.call_expr(b.term(bb), loc)

        def origins(x, seen):
            """The expressions a value can come from, through merged definitions (a board handed back by
            a helper with several returns is a variable with one definition per return)."""
            x = strip_refs(x)
            if x[0] == "var" and x not in seen:
                seen.add(x)
                out = []
                for dloc, k in x[2]:
                    if k != "whole":
                        return [x]
                    dst = b.stmts(dloc[0])
                    de = ex.rvalue(dst[dloc[1]]["rv"], dloc) if dloc[1] < len(dst) else ex.call_expr(b.term(dloc[0]), dloc)
                    out += origins(de, seen)
                return out
            return [x]
        os_ = origins(e, set())
        ok = bool(os_) and all(any(x[0] == "call" and x[1] == "board::BoardState::from_fen" for x in subexprs(o)) for o in os_)
        ctx.ob("play_out_position:board-def#%d" % nd, ok, b.where(loc), "the board is created by from_fen: `%s`" % "; ".join(show_expr(o, b)[:60] for o in os_[:3]))
    ctx.floor("board definitions", nd, 1)
    muts = []
    for loc, kind in b.reaching().all_sites(L):
        if kind == "borrow":
            muts.append(loc)
    callers = set()
    for bb, t in b.iter_calls():
        for a in t["args"]:
            al = operand_alias(b, a)
            if al and al[0] == L and al[1] == "ref":
                callers.add((callee_of(t), bb))
    mut_calls = sorted({c for c, bb in callers if c and not c.endswith("add_board_to_draw_table")})
    ok = set(mut_calls) <= {MM}
    ctx.ob("play_out_position:only-make_move-mutates", ok and MM in mut_calls, b.file, "functions receiving the board: %s" % sorted({c for c, _ in callers}))


def r4_2(ctx):
    """En-passant target: both producers record the square the double-stepping pawn passed over
    (start + dir == end - dir), under the same trigger (a pawn moving two rows)."""
    from wa.linear import linear
    from wa.cond import enum_value_on_trace
    from . import successor
    f = ctx.facts
    colours = f.enum_variant_by_discr("board::PieceColor")
    # --- text applier
    b = f.body(MM)
    ex = Exprs(b)
    bp = _board_param(b)
    pts = []
    for bb, t in sorted(b.iter_calls()):
        if (callee_of(t) or "").endswith("<impl str>::parse") and (t.get("generic_args") or [""])[0] == "board::Point":
            pts.append(ex.call_expr(t, b.term_loc(bb)))
    ev = board_events(b, ex, bp)
    n = 0
    for loc, e in ev.items():
        if e[0] == "write" and e[1] == "pawn_double_move" and e[2][0] == "agg" and e[2][2] == "Some":
            # the target is a variable assigned per colour arm
            tgt = strip_refs(e[2][3][0])
            defs = []
            if tgt[0] == "var":
                for dloc, k in tgt[2]:
                    if k == "whole":
                        defs.append((dloc, ex.rvalue(b.stmts(dloc[0])[dloc[1]]["rv"], dloc)))
            else:
                defs.append((loc, tgt))
            for dloc, te in defs:
                te = strip_refs(te)
                if not (te[0] == "agg" and te[1] == "board::Point"):
                    continue
                # colour of this arm
                col_e = None
                for s in b.normal:
                    if s in b.reachable and b.term(s)["k"] == "switch":
                        d = ex.switch_discr(s)
                        if d[0] == "discr" and strip_refs(d[1])[0] == "field" and strip_refs(d[1])[2] == "color":
                            col_e = strip_refs(d[1])
                poss = enum_value_on_trace(b, ex, dloc[0], col_e, colours) if col_e else set()
                lr, lc = linear(te[3][0]), linear(te[3][1])
                start0 = ("field", strip_refs(pts[0]), "0") if pts else None
                start1 = ("field", strip_refs(pts[0]), "1") if pts else None
                n += 1
                def is_start(form, comp):
                    if form is None or len(form[0]) != 1 or list(form[0].values()) != [1]:
                        return False
                    t_ = strip_refs(next(iter(form[0])))
                    return t_[0] == "field" and t_[2] == comp and bool(pts) and pts[0] in set(subexprs(t_))
                ok = len(poss) == 1 and is_start(lr, "0") and lr[1] == chess.PAWN[next(iter(poss))]["dir"] and is_start(lc, "1") and lc[1] == 0
                ctx.ob("make_move:ep-target:%s" % sorted(poss), ok, b.where(dloc),
                       "text applier records (start.row %+d, start.col) for a %s double step; the passed-over square is start.row %+d" % (
                           lr[1] if lr else 0, sorted(poss), chess.PAWN[next(iter(poss))]["dir"] if len(poss) == 1 else 0))
            # trigger
            trig = []
            for d, vals, excl, s, tg in dominating_facts(b, ex, loc[0]):
                truth = (vals is None and excl == [0]) or vals == [1]
                d0 = strip_refs(d)
                if truth and d0[0] == "bin" and d0[1] == "Eq" and ("const", 2) in (d0[2], d0[3]):
                    other = d0[2] if d0[3] == ("const", 2) else d0[3]
                    if any(x[0] == "call" and (x[1].endswith("::abs") or x[1].endswith("::abs_diff")) for x in subexprs(other)):
                        trig.append("two-rows")
            # the mover is a pawn on this trace: `kind == Pawn` or the Pawn arm of `match kind`
            kinds = f.enum_variant_by_discr("board::PieceKind")
            cands = set()
            for d, vals, excl, s, tg in dominating_facts(b, ex, loc[0]):
                for x in subexprs(d):
                    x = strip_refs(x)
                    if x[0] == "field" and x[2] == "kind":
                        cands.add(x)
            if any(enum_value_on_trace(b, ex, loc[0], x, kinds) == {"Pawn"} for x in cands):
                trig.append("pawn")
            ctx.ob("make_move:ep-trigger", sorted(trig) == ["pawn", "two-rows"], b.where(loc), "target recorded exactly for a pawn moving two rows: %s" % sorted(trig))
            # ... and for *every* such move: nothing else decides whether the target is recorded (the
            # generator and the FEN reader record it unconditionally; a target dropped here loses a legal
            # en-passant capture and makes the replayed position differ from the generated one)
            extra = []
            for d, vals, excl, s, tg in dominating_facts(b, ex, loc[0]):
                d0 = strip_refs(d)
                def is_kc(x):
                    x = strip_refs(x)
                    return x[0] == "field" and x[2] in ("kind", "color")

                def is_rows(x):
                    x = strip_refs(x)
                    while x[0] == "cast":
                        x = strip_refs(x[2])
                    return x[0] == "call" and (x[1].endswith("::abs") or x[1].endswith("::abs_diff"))
                if d0[0] == "bin" and d0[1] in ("Eq", "Ne") and (is_kc(d0[2]) or is_kc(d0[3]) or is_rows(d0[2]) or is_rows(d0[3])):
                    continue
                if d0[0] == "discr" and (is_kc(d0[1]) or "Square" in str(d0[2] if len(d0) > 2 else "")):
                    continue
                if d0[0] == "call" and (d0[1].endswith("<impl str>::len") or ("PartialEq" in d0[1] and "str" in d0[1])):
                    continue       # a test of the move text (length / spelling), not of the position
                if d0[0] == "bin" and any(strip_refs(x)[0] == "call" and strip_refs(x)[1].endswith("<impl str>::len") for x in (d0[2], d0[3])):
                    continue
                extra.append((s, d0))
            ctx.ob("make_move:ep-trigger:no-further-condition", not extra, b.where(b.term_loc(extra[0][0])) if extra else b.where(loc),
                   "recording the target depends on nothing but (pawn, two rows)%s" % ("" if not extra else
                       ": NOT so - it also depends on `%s`; a double step for which that test fails leaves no en-passant target" % show_expr(extra[0][1], b)[:120]))
    # --- generator
    an = successor.get(ctx)
    for site, loc in sorted(an.ep_sets, key=lambda x: x[1]):
        gb, gex = site.b, site.ex
        st = gb.stmts(loc[0])[loc[1]]
        e = gex.rvalue(st["rv"], loc)
        if not (e[0] == "agg" and e[2] == "Some"):
            continue
        tgt = strip_refs(e[3][0])
        mp = [(l2, ev2) for l2, evs in site.events.items() for ev2 in evs if ev2[0] == "call" and ev2[1] == successor.MOVE_PIECE and ev2[2] == 0]
        to = strip_refs(gex.call_args(mp[0][0][0])[2]) if mp else None
        pp = [i for i in range(1, gb.arg_count + 1) if gb.local_ty(i) == "board::Piece"]
        defs = []
        if tgt[0] == "var":
            for dloc, k in tgt[2]:
                if k == "whole":
                    defs.append((dloc, gex.rvalue(gb.stmts(dloc[0])[dloc[1]]["rv"], dloc)))
        for dloc, te in defs:
            te = strip_refs(te)
            poss = enum_value_on_trace(gb, gex, dloc[0], ("field", ("arg", pp[0]), "color"), colours) if pp else set()
            lr, lc = linear(te[3][0]), linear(te[3][1])
            n += 1
            ok = len(poss) == 1 and lr is not None and _ck(lr[0]) == {canon(("field", to, "0")): 1} and lr[1] == -chess.PAWN[next(iter(poss))]["dir"] and lc is not None and _ck(lc[0]) == {canon(("field", to, "1")): 1} and lc[1] == 0
            ctx.ob("generate_moves_for_piece:ep-target:%s" % sorted(poss), ok, gb.where(dloc),
                   "generator records (to.row %+d, to.col) for a %s double step; the passed-over square is to.row %+d" % (
                       lr[1] if lr else 0, sorted(poss), -chess.PAWN[next(iter(poss))]["dir"] if len(poss) == 1 else 0))
    ctx.floor("ep target definitions (both producers)", n, 2)
