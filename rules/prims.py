"""R0.1: the small board primitives the other rules take at face value (opposite, Piece
constructors, Square predicates, Square == Piece, From<Piece>) have the semantics their names say.
Each is loop-free: every path is enumerated and its result compared with the specification."""
from wa.mir import AnchorMissing, ShapeNotRecognised
from wa.expr import Exprs, show_expr, strip_refs
from wa.paths import enum_paths
from wa.pathsym import eval_path, cond_truth


def _paths(f, fn):
    b = f.body(fn)
    ex = Exprs(b)
    out = []
    for blocks, dec in enum_paths(b, ex):
        if b.term(blocks[-1])["k"] != "return":
            continue
        env, conds = eval_path(b, blocks)
        out.append((env.get(0), conds, b))
    return b, out


def _variant_of(f, conds, scrut_pred, enum):
    """Variant name decided for the scrutinee (identified by scrut_pred) along the path."""
    names = f.enum_variant_by_discr(enum)
    poss = set(names.values())
    for d, vals, oth, listed in conds:
        d0 = strip_refs(d)
        if d0[0] == "discr" and scrut_pred(strip_refs(d0[1])):
            if not oth:
                poss &= {names[v] for v in vals if v in names}
            else:
                poss -= {names[v] for v in listed if v in names}
    return poss


def r0_1(ctx):
    f = ctx.facts
    # opposite
    b, ps = _paths(f, "board::PieceColor::opposite")
    ctx.note_fn("board::PieceColor::opposite")
    m = {}
    for r, conds, _ in ps:
        poss = _variant_of(f, conds, lambda x: x == ("arg", 1), "board::PieceColor")
        if len(poss) == 1 and r[0] == "agg":
            m[next(iter(poss))] = r[2]
    ctx.ob("PieceColor::opposite", m == {"White": "Black", "Black": "White"}, b.file, "opposite: %s" % sorted(m.items()))
    # constructors
    for kind in ("pawn", "knight", "bishop", "rook", "queen", "king"):
        fn = "board::Piece::%s" % kind
        b, ps = _paths(f, fn)
        ctx.note_fn(fn)
        fields = f.struct_fields("board::Piece")
        ok = len(ps) == 1
        if ok:
            r = ps[0][0]
            ok = r[0] == "agg" and r[1] == "board::Piece"
            if ok:
                vals = dict(zip(fields, r[3]))
                ok = vals["color"] == ("arg", 1) and vals["kind"] == ("agg", "board::PieceKind", kind.capitalize(), ())
        ctx.ob("Piece::%s" % kind, ok, b.file, "Piece::%s(c) is Piece { kind: %s, color: c }" % (kind, kind.capitalize()))
    # Square predicates and Square == Piece: finite instantiation.  Each is executed (wa/symex, the
    # primitives it calls executed too) on every square value - Empty, Boundary, Full(each of the 12
    # pieces) - and every colour / piece argument; the one path that results must return what the
    # name says.  So a three-arm match, `matches!`, `self.is_empty() || self.is_color(c)`, or
    # delegation to the derived equality through Square::from are the same function.
    from wa.symex import SymEx
    from wa.itermodel import xbody
    colours = ("White", "Black")
    kinds = sorted(f.enum_variants("board::PieceKind"))
    pfields = f.struct_fields("board::Piece")
    pvar = f.adt("board::Piece")["variants"][0]["name"]

    def piece(c, k):
        vals = {"color": ("agg", "board::PieceColor", c, ()), "kind": ("agg", "board::PieceKind", k, ())}
        return ("agg", "board::Piece", pvar, tuple(vals[x] for x in pfields))
    squares = [("Empty", ("agg", "board::Square", "Empty", ())), ("Boundary", ("agg", "board::Square", "Boundary", ()))] + \
        [((c, k), ("agg", "board::Square", "Full", (piece(c, k),))) for c in colours for k in kinds]

    def run(fn, args):
        b = xbody(f, fn)
        env = {}
        for i, a in enumerate(args):
            env[i + 1] = ("ref", a) if b.local_ty(i + 1).startswith("&") else a
        sx = SymEx(f, inline=lambda n: f.has_body(n), body_of=lambda n: xbody(f, n))
        ps = [p for p in sx.run(b, 0, env) if p.end == "return"]
        if len(ps) != 1 or ps[0].conds or ps[0].ret is None or ps[0].ret[0] != "const":
            return None
        return ps[0].ret[1]

    ctx.note_fn("board::Square::is_empty", "board::Square::is_color", "board::Square::is_empty_or_color")
    specs = (("board::Square::is_empty", False, lambda st, c: st == "Empty", "true exactly for Square::Empty (so sentinel squares stop every walk)"),
             ("board::Square::is_color", True, lambda st, c: isinstance(st, tuple) and st[0] == c, "Full(p) -> p.color == c; Empty -> false; Boundary -> false"),
             ("board::Square::is_empty_or_color", True, lambda st, c: st == "Empty" or (isinstance(st, tuple) and st[0] == c), "Full(p) -> p.color == c; Empty -> true; Boundary -> false"))
    for fn, takes_colour, spec, text in specs:
        b = f.body(fn)
        bad = []
        n = 0
        try:
            for st, sv in squares:
                for c in (colours if takes_colour else (None,)):
                    got = run(fn, [sv] + ([("agg", "board::PieceColor", c, ())] if takes_colour else []))
                    n += 1
                    if got is None or bool(got) != spec(st, c):
                        bad.append((st, c, got))
        except ShapeNotRecognised as e:
            bad.append(("cannot execute", str(e)[:80], None))
        ctx.ob(fn.split("board::")[-1], not bad and n > 0, b.file, "%s: evaluated for %d (square, colour) values%s" % (
            text, n, "" if not bad else "; WRONG for %d, e.g. square %s colour %s -> %s" % (len(bad), bad[0][0], bad[0][1], bad[0][2])))
    fn = "<board::Square as std::cmp::PartialEq<board::Piece>>::eq"
    b = f.body(fn)
    ctx.note_fn(fn)
    bad = []
    n = 0
    try:
        for st, sv in squares:
            for c in colours:
                for k in kinds:
                    got = run(fn, [sv, piece(c, k)])
                    n += 1
                    if got is None or bool(got) != (st == (c, k)):
                        bad.append((st, (c, k), got))
    except ShapeNotRecognised as e:
        bad.append(("cannot execute", str(e)[:80], None))
    ctx.ob("Square==Piece", not bad and n > 0, b.file, "Full(p) == q iff p == q; other squares never equal a piece: evaluated for %d (square, piece) pairs%s" % (
        n, "" if not bad else "; WRONG for %d, e.g. %s == %s -> %s" % (len(bad), bad[0][0], bad[0][1], bad[0][2])))
    # From<Piece>
    fn = "<board::Square as std::convert::From<board::Piece>>::from"
    b, ps = _paths(f, fn)
    ok = len(ps) == 1 and ps[0][0] == ("agg", "board::Square", "Full", (("arg", 1),))
    ctx.ob("Square::from(Piece)", ok, b.file, "Square::from(p) is Square::Full(p)")
    # Piece::index delegates to the kind
    b, ps = _paths(f, "board::Piece::index")
    ok = len(ps) == 1 and ps[0][0][0] == "call" and ps[0][0][1] == "board::PieceKind::index" and strip_refs(ps[0][0][2][0]) == ("field", ("arg", 1), "kind")
    ctx.ob("Piece::index", ok, b.file, "Piece::index(p) is p.kind.index()")
    # derived equality on the plain data types stays derived (no hand-written eq that could differ)
    for ty in ("board::Piece", "board::PieceColor", "board::PieceKind", "board::Point", "board::Square", "move_generation::CastlingType", "move_generation::MoveGenerationMode"):
        name = "<%s as std::cmp::PartialEq>::eq" % ty
        if not f.has_body(name):
            ctx.ob("derived-eq:%s" % ty.split("::")[-1], False, "", "no PartialEq impl for %s" % ty, reason="anchor-missing")
            continue
        sp = f.d["bodies"][name]["span"]
        ctx.ob("derived-eq:%s" % ty.split("::")[-1], bool(sp.get("exp")), "%s:%d" % (sp["file"], sp["line"]),
               "PartialEq for %s is the derived structural equality (the rules read `==` on it as equality)" % ty)
    for ty in ("board::BoardState", "draw_table::DrawTable"):
        name = "<%s as std::clone::Clone>::clone" % ty
        if not f.has_body(name):
            ctx.ob("derived-clone:%s" % ty.split("::")[-1], False, "", "no Clone impl for %s" % ty, reason="anchor-missing")
            continue
        sp = f.d["bodies"][name]["span"]
        ctx.ob("derived-clone:%s" % ty.split("::")[-1], bool(sp.get("exp")), "%s:%d" % (sp["file"], sp["line"]),
               "Clone for %s is the derived field-wise copy (successors and search copies start as exact copies)" % ty)
