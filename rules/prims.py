"""R0.1: the small board primitives the other rules take at face value (opposite, Piece
constructors, Square predicates, Square == Piece, From<Piece>) have the semantics their names say.
Each is loop-free: every path is enumerated and its result compared with the specification."""
from wa.mir import AnchorMissing, ShapeNotRecognised
from wa.expr import Exprs, show_expr, strip_refs
from wa.paths import enum_paths
from wa.pathsym import eval_path, cond_truth


def _paths(f, fn):
    b = f.body(fn)
    ex = Exprs(b)
    out = []
    for blocks, dec in enum_paths(b, ex):
        if b.term(blocks[-1])["k"] != "return":
            continue
        env, conds = eval_path(b, blocks)
        out.append((env.get(0), conds, b))
    return b, out


def _variant_of(f, conds, scrut_pred, enum):
    """Variant name decided for the scrutinee (identified by scrut_pred) along the path."""
    names = f.enum_variant_by_discr(enum)
    poss = set(names.values())
    for d, vals, oth, listed in conds:
        d0 = strip_refs(d)
        if d0[0] == "discr" and scrut_pred(strip_refs(d0[1])):
            if not oth:
                poss &= {names[v] for v in vals if v in names}
            else:
                poss -= {names[v] for v in listed if v in names}
    return poss


def r0_1(ctx):
    f = ctx.facts
    # opposite
    b, ps = _paths(f, "board::PieceColor::opposite")
    ctx.note_fn("board::PieceColor::opposite")
    m = {}
    for r, conds, _ in ps:
        poss = _variant_of(f, conds, lambda x: x == ("arg", 1), "board::PieceColor")
        if len(poss) == 1 and r[0] == "agg":
            m[next(iter(poss))] = r[2]
    ctx.ob("PieceColor::opposite", m == {"White": "Black", "Black": "White"}, b.file, "opposite: %s" % sorted(m.items()))
    # constructors
    for kind in ("pawn", "knight", "bishop", "rook", "queen", "king"):
        fn = "board::Piece::%s" % kind
        b, ps = _paths(f, fn)
        ctx.note_fn(fn)
        fields = f.struct_fields("board::Piece")
        ok = len(ps) == 1
        if ok:
            r = ps[0][0]
            ok = r[0] == "agg" and r[1] == "board::Piece"
            if ok:
                vals = dict(zip(fields, r[3]))
                ok = vals["color"] == ("arg", 1) and vals["kind"] == ("agg", "board::PieceKind", kind.capitalize(), ())
        ctx.ob("Piece::%s" % kind, ok, b.file, "Piece::%s(c) is Piece { kind: %s, color: c }" % (kind, kind.capitalize()))
    # Square predicates
    sqv = lambda x: x == ("arg", 1) or x == ("deref", ("arg", 1))
    b, ps = _paths(f, "board::Square::is_empty")
    ctx.note_fn("board::Square::is_empty", "board::Square::is_color", "board::Square::is_empty_or_color")
    ok = len(ps) == 1 and ps[0][0][0] == "bin" and ps[0][0][1] == "Eq" and {strip_refs(ps[0][0][2]), strip_refs(ps[0][0][3])} == {("arg", 1), ("agg", "board::Square", "Empty", ())}
    if not ok:
        # match form
        res = {}
        for r, conds, _ in ps:
            poss = _variant_of(f, conds, sqv, "board::Square")
            for v in poss:
                res.setdefault(v, set()).add(r)
        ok = res.get("Empty") == {("const", True)} and res.get("Full") == {("const", False)} and res.get("Boundary") == {("const", False)}
    ctx.ob("Square::is_empty", ok, b.file, "true exactly for Square::Empty (so sentinel squares stop every walk)")
    for fn, empty_val in (("board::Square::is_color", False), ("board::Square::is_empty_or_color", True)):
        b, ps = _paths(f, fn)
        res = {}
        for r, conds, _ in ps:
            poss = _variant_of(f, conds, sqv, "board::Square")
            for v in poss:
                res.setdefault(v, []).append(r)
        okf = False
        full = res.get("Full", [])
        if len(full) == 1 and full[0][0] == "bin" and full[0][1] == "Eq":
            a, c = strip_refs(full[0][2]), strip_refs(full[0][3])
            colour_of_piece = lambda x: x[0] == "field" and x[2] == "color" and x[1][0] == "field" and x[1][1][0] == "downcast" and x[1][1][2] == "Full"
            okf = (a == ("arg", 2) and colour_of_piece(c)) or (c == ("arg", 2) and colour_of_piece(a))
        ok = okf and res.get("Empty") == [("const", empty_val)] and res.get("Boundary") == [("const", False)]
        ctx.ob(fn.split("board::")[-1], ok, b.file, "Full(p) -> p.color == c; Empty -> %s; Boundary -> false (%s)" % (empty_val, {k: [show_expr(x)[:40] for x in v] for k, v in res.items()}))
    # Square == Piece
    fn = "<board::Square as std::cmp::PartialEq<board::Piece>>::eq"
    b, ps = _paths(f, fn)
    ctx.note_fn(fn)
    res = {}
    for r, conds, _ in ps:
        poss = _variant_of(f, conds, lambda x: x in (("arg", 1), ("deref", ("arg", 1))), "board::Square")
        for v in poss:
            res.setdefault(v, []).append(r)
    full = res.get("Full", [])
    okf = False
    if len(full) == 1:
        e = full[0]
        if e[0] == "bin" and e[1] == "Eq":
            a, c = strip_refs(e[2]), strip_refs(e[3])
            payload = lambda x: x[0] == "field" and x[2] == "0" and x[1][0] == "downcast" and x[1][2] == "Full"
            okf = (payload(a) and c == ("arg", 2)) or (payload(c) and a == ("arg", 2))
    ctx.ob("Square==Piece", okf and res.get("Empty") == [("const", False)] and res.get("Boundary") == [("const", False)], b.file,
           "Full(p) == q iff p == q; other squares never equal a piece")
    # From<Piece>
    fn = "<board::Square as std::convert::From<board::Piece>>::from"
    b, ps = _paths(f, fn)
    ok = len(ps) == 1 and ps[0][0] == ("agg", "board::Square", "Full", (("arg", 1),))
    ctx.ob("Square::from(Piece)", ok, b.file, "Square::from(p) is Square::Full(p)")
    # Piece::index delegates to the kind
    b, ps = _paths(f, "board::Piece::index")
    ok = len(ps) == 1 and ps[0][0][0] == "call" and ps[0][0][1] == "board::PieceKind::index" and strip_refs(ps[0][0][2][0]) == ("field", ("arg", 1), "kind")
    ctx.ob("Piece::index", ok, b.file, "Piece::index(p) is p.kind.index()")
    # derived equality on the plain data types stays derived (no hand-written eq that could differ)
    for ty in ("board::Piece", "board::PieceColor", "board::PieceKind", "board::Point", "board::Square", "move_generation::CastlingType", "move_generation::MoveGenerationMode"):
        name = "<%s as std::cmp::PartialEq>::eq" % ty
        if not f.has_body(name):
            ctx.ob("derived-eq:%s" % ty.split("::")[-1], False, "", "no PartialEq impl for %s" % ty, reason="anchor-missing")
            continue
        sp = f.d["bodies"][name]["span"]
        ctx.ob("derived-eq:%s" % ty.split("::")[-1], bool(sp.get("exp")), "%s:%d" % (sp["file"], sp["line"]),
               "PartialEq for %s is the derived structural equality (the rules read `==` on it as equality)" % ty)
    for ty in ("board::BoardState", "draw_table::DrawTable"):
        name = "<%s as std::clone::Clone>::clone" % ty
        if not f.has_body(name):
            ctx.ob("derived-clone:%s" % ty.split("::")[-1], False, "", "no Clone impl for %s" % ty, reason="anchor-missing")
            continue
        sp = f.d["bodies"][name]["span"]
        ctx.ob("derived-clone:%s" % ty.split("::")[-1], bool(sp.get("exp")), "%s:%d" % (sp["file"], sp["line"]),
               "Clone for %s is the derived field-wise copy (successors and search copies start as exact copies)" % ty)
