"""C13: successor construction is independent of the generation mode (R13.1); capture filters (R13.2)."""
from wa.mir import AnchorMissing, ShapeNotRecognised, callee_of
from wa.expr import Exprs, show_expr, data_slice, strip_refs
from . import successor

MODE_TY = "move_generation::MoveGenerationMode"


def mode_params(f):
    """fn -> set of parameter locals that carry (a function of) the generation mode: parameters of the mode
    type, and parameters that some call site feeds with an expression of mode-carrying values only."""
    out = {}
    for fn in f.body_names():
        b = f.body(fn)
        if not hasattr(b, 'arg_count'):
            continue
        ps = {i for i in range(1, b.arg_count + 1) if b.local_ty(i) == MODE_TY}
        if ps:
            out[fn] = ps
    changed = True
    while changed:
        changed = False
        for fn in list(out):
            b = f.body(fn)
            ex = Exprs(b)
            for bb in b.normal:
                t = b.term(bb)
                if bb not in b.reachable or t["k"] != "call":
                    continue
                cal = callee_of(t)
                if not cal or not f.has_body(cal):
                    continue
                cb = f.body(cal)
                for i, a in enumerate(ex.call_args(bb)):
                    if cb.local_ty(i + 1) == MODE_TY:
                        continue
                    leaves = [x for x in data_slice(ex, a) if x[0] in ("arg", "var", "mem", "call", "opaque", "cname", "static")]
                    if leaves and all(x[0] == "arg" and x[1] in out[fn] for x in leaves):
                        if i + 1 not in out.setdefault(cal, set()):
                            out[cal].add(i + 1)
                            changed = True
    return out


def pure_mode_switches(b, ex, modes=None):
    """Switch blocks whose condition is a function of the mode parameter (and constants) only."""
    if modes is None:
        modes = [i for i in range(1, b.arg_count + 1) if b.local_ty(i) == MODE_TY]
    out = []
    if not modes:
        return out
    for s in b.normal:
        if s not in b.reachable or b.term(s)["k"] != "switch":
            continue
        d = ex.switch_discr(s)
        sl = data_slice(ex, d)
        leaves = [x for x in sl if x[0] in ("arg", "var", "mem", "call", "opaque", "cname", "static")]
        if not leaves:
            continue
        if all(x[0] == "arg" and x[1] in modes for x in leaves):
            out.append(s)
    return out


def r13_1(ctx):
    an = successor.get(ctx)
    n = 0
    nsw = 0
    mp = mode_params(ctx.facts)
    for f, b in an.producers.items():
        ex = Exprs(b)
        sw = pure_mode_switches(b, ex, mp.get(f, set()))
        nsw += len(sw)
        sites = [s for s in an.sites if s.b is b]
        for site in sites:
            locs = {}
            for loc, evs in site.events.items():
                for ev in evs:
                    if ev[0] == "call":
                        locs[loc] = ev[1].split("::")[-1]
                    elif ev[0] == "write":
                        locs[loc] = "write " + ".".join(str(x) for x in ev[1][:1])
                    elif ev[0] == "moved":
                        locs[loc] = "publish"
            for loc, what in sorted(locs.items()):
                n += 1
                dep = None
                for s in sw:
                    succs = b.succ.get(s, [])
                    # the event can follow one outcome of the mode test but not the other (without
                    # re-evaluating the test): weaker than edge dominance, so that
                    # `if kind != Queen && mode == CapturesOnly { break }` is seen although the loop
                    # body is also entered around the mode test
                    doms = [t == loc[0] or b.reaches(t, loc[0], removed_nodes={s}) for t in succs]
                    if any(doms) and not all(doms):
                        dep = s
                if dep is not None:
                    ctx.ob("%s:%s@%s" % (site.name, what, _ord(site, loc)), False, b.where(loc),
                           "`%s` on successor %s happens only on one side of the mode test at %s: the position a move produces must not depend on the generation mode" % (
                               b.text_at(loc)[:80], b.lname(site.L), b.where(b.term_loc(dep))))
    ctx.ob("successor-events-mode-independent", True, "", "%d successor events examined against %d pure mode branches" % (n, nsw), nontrivial=False)
    ctx.floor("successor events", n, 40)


def _ord(site, loc):
    return "%d.%d" % loc


def r13_3(ctx):
    """The en-passant section of the successor builder is evaluated for every piece in every mode:
    no path from entry to return avoids the test that leads to the en-passant successor."""
    an = successor.get(ctx)
    n = 0
    for site in an.sites:
        b, ex = site.b, site.ex
        mp = [(loc, ev) for loc, evs in site.events.items() for ev in evs if ev[0] == "call" and ev[1] == successor.MOVE_PIECE and ev[2] == 0]
        if len(mp) != 1:
            continue
        to = strip_refs(ex.call_args(mp[0][0][0])[2])
        if not any(x[0] == "call" and x[1].endswith("pawn_moves_en_passant") for x in __import__("wa.expr", fromlist=["subexprs"]).subexprs(to)):
            continue
        n += 1
        # outermost guard of the site: the first switch (in dominance order) on the way to the clone
        # whose condition is not shared with the other successor kinds
        from wa.cond import dominating_facts
        guards = [s for d, vals, excl, s, tg in dominating_facts(b, ex, site.bb)]
        guards = [g for g in guards if not any(b.node_dominates(g, o.bb) for o in an.sites if o.b is b and o is not site)]
        if not guards:
            ctx.ob("%s:ep-section-guard" % site.name, False, b.where(site.loc), "cannot find the test that leads to the en-passant successor", reason="shape-not-recognised")
            continue
        first = min(guards, key=lambda g: len([x for x in b.normal if b.node_dominates(x, g)]))
        rets = b.return_blocks()
        skip = [r for r in rets if first != r and b.reaches(0, r, removed_nodes={first})]
        ctx.ob("%s:ep-section-always-evaluated" % site.name, not skip, b.where(b.term_loc(first)),
               "every path through the successor builder reaches the en-passant test at %s%s" % (
                   b.where(b.term_loc(first)), "" if not skip else ": NOT so — an early exit skips it, so a legal en-passant capture can be missing from the generated list"))
    ctx.floor("en-passant successor sites", n, 1)


PIECE_GENERATORS = {"move_generation::%s_moves" % k for k in ("pawn", "knight", "bishop", "rook", "queen", "king")}


def r13_4(ctx):
    """The successor builder takes its target squares from the per-piece generators only: the list of
    targets it iterates is filled by get_moves (and the en-passant probe has its own path); nothing else
    pushes a square onto it - in particular nothing that depends on the generation mode (a "capture-only"
    list extended by a quiet promotion push contains a move that is not a capture)."""
    from wa.mir import operand_alias
    f = ctx.facts
    fn = "move_generation::generate_moves_for_piece"
    b = f.body(fn)
    ctx.note_fn(fn)
    lists = [l for l in range(len(b.locals)) if b.local_ty(l).startswith("std::vec::Vec<board::Point") and l in b.names]
    # a scratch buffer handed in by the caller is the same list
    lists += [i for i in range(1, b.arg_count + 1) if b.local_ty(i).startswith("&mut std::vec::Vec<board::Point")]
    n = 0
    for L in lists:
        writers = []
        fillers = 0
        for bb, t in b.iter_calls():
            c = callee_of(t) or ""
            for i, a in enumerate(t["args"]):
                al = operand_alias(b, a)
                if not al or al[0] != L or al[2]:
                    continue
                arg_ty = t["arg_tys"][i] if i < len(t.get("arg_tys", [])) else ""
                if not arg_ty.startswith("&mut "):
                    continue
                if c.endswith("move_generation::get_moves") or c in PIECE_GENERATORS:
                    # the dispatcher, or (dispatcher inlined) the per-piece generators themselves
                    fillers += 1
                    continue
                if c.endswith("IntoIterator>::into_iter") or c.endswith("::iter") or c.endswith("::clear") or c.endswith("deref") or c.endswith("deref_mut"):
                    continue
                writers.append((bb, c))
        n += 1
        ctx.ob("generate_moves_for_piece:%s:filled-by-get_moves-only" % b.lname(L), fillers >= 1 and not writers,
               b.where(b.term_loc(writers[0][0])) if writers else b.file,
               "the target list is filled by get_moves%s" % ("" if not writers else " and also written by `%s`: the successors are no longer exactly the per-piece generator's targets" % writers[0][1]))
    ctx.floor("target lists in the successor builder", n, 1)
