"""FEN parsing rules (C15)."""
from wa.mir import AnchorMissing, ShapeNotRecognised, callee_of
from wa.expr import Exprs, show_expr, subexprs, strip_refs

FROM_FEN = "board::BoardState::from_fen"
UNSIGNED_BITS = {"u8": 8, "u16": 16, "u32": 32, "u64": 64, "u128": 128, "usize": 64}


def _fen_field_of(e):
    """k if `e` denotes the k-th space-separated field of the FEN string: `fields[k]` (an index call
    with a constant k) or the k-th binding of a slice pattern over the whole vector
    (`let [placement, side, ..] = fields[..] else {..}`; `fields.as_slice()` likewise)."""
    e = strip_refs(e)
    if e[0] == "call" and e[1].endswith("::index") and len(e[2]) == 2 and e[2][1][0] == "const" and isinstance(e[2][1][1], int):
        return e[2][1][1]
    if e[0] == "cidx" and isinstance(e[2], int) and e[2] >= 0:
        base = strip_refs(e[1])
        if base[0] == "call" and base[1].endswith("::index") and len(base[2]) == 2:
            r = strip_refs(base[2][1])
            if r[0] == "agg" and str(r[1]).endswith("RangeFull"):
                return e[2]
        if base[0] == "call" and (base[1].endswith("::as_slice") or base[1].endswith("Deref>::deref")) and len(base[2]) == 1:
            return e[2]
    return None


def _fen_fields(e):
    """FEN field numbers mentioned anywhere in expression e."""
    return [k for x in subexprs(e) for k in [_fen_field_of(x)] if k is not None]


def r15_2(ctx):
    """Width of the FEN counters: full-move counter >= 16 bits unsigned, half-move clock >= 8 bits."""
    f = ctx.facts
    b = f.body(FROM_FEN)
    ctx.note_fn(FROM_FEN)
    ex = Exprs(b)
    need = {4: 8, 5: 16}
    seen = {}
    for bb, t in b.iter_calls():
        c = callee_of(t) or ""
        if not c.endswith("<impl str>::parse"):
            continue
        arg = ex.call_args(bb)[0]
        idx = (_fen_fields(arg) or [None])[-1]
        ty = (t.get("generic_args") or ["?"])[0]
        if idx in need:
            seen[idx] = (ty, b.where(b.term_loc(bb)))
    for idx, bits in sorted(need.items()):
        name = {4: "half-move clock", 5: "full-move counter"}[idx]
        if idx not in seen:
            ctx.ob("from_fen:counter[%d]" % idx, True, b.file, "%s is not parsed into a fixed-width integer: any value is accepted" % name)
            continue
        ty, where = seen[idx]
        ok = UNSIGNED_BITS.get(ty, 0) >= bits
        ctx.ob("from_fen:counter[%d]" % idx, ok, where,
               "%s parsed as `%s`; needs an unsigned type of at least %d bits (move counters beyond 255 are legal)" % (name, ty, bits))


# ---------------------------------------------------------------------------------------------
# R15.1 panic census of cone(from_fen)
from wa import callgraph
from wa.absint import Intervals
from wa.cond import dominating_facts
from wa.mir import operand_alias

# std / dependency entry points reachable from the FEN cone that cannot panic (one reason each)
NOPANIC = {
    "<I as std::iter::IntoIterator>::into_iter": "identity on an iterator",
    "<T as std::string::ToString>::to_string": "allocates a String from a str",
    "<rand_chacha::ChaCha8Rng as rand_chacha::rand_core::RngCore>::next_u64": "PRNG step, wrapping arithmetic",
    "rand_chacha::rand_core::SeedableRng::seed_from_u64": "PRNG seeding, wrapping arithmetic",
    "<std::str::Chars<'a> as std::iter::Iterator>::next": "returns Option",
    "<std::string::String as std::ops::Deref>::deref": "borrow",
    "<std::vec::Vec<T, A> as std::ops::Deref>::deref": "borrow (pointer and length)",
    "<std::vec::IntoIter<T, A> as std::iter::Iterator>::next": "returns Option",
    "<std::vec::Vec<T, A> as std::iter::IntoIterator>::into_iter": "move",
    "core::str::<impl str>::chars": "iterator constructor",
    "core::str::<impl str>::ends_with": "pattern search",
    "core::str::<impl str>::find": "pattern search, returns Option",
    "core::str::<impl str>::len": "field read",
    "core::str::<impl str>::parse": "returns Result (the FromStr impl it calls is in the census)",
    "core::str::<impl str>::split": "iterator constructor",
    "core::str::<impl str>::trim": "subslice at char boundaries",
    "core::str::<impl str>::is_empty": "field read",
    "core::str::traits::<impl std::cmp::PartialEq for str>::eq": "byte comparison",
    "std::cmp::PartialEq::ne": "comparison",
    "std::cmp::PartialEq::eq": "comparison",
    "std::cmp::impls::<impl std::cmp::PartialEq<&B> for &A>::ne": "comparison",
    "std::cmp::impls::<impl std::cmp::PartialEq<&B> for &A>::eq": "comparison",
    "std::iter::Iterator::collect": "allocation only",
    "std::iter::Iterator::nth": "returns Option",
    "std::iter::range::<impl std::iter::Iterator for std::ops::Range<A>>::next": "returns Option",
    "std::ops::Range::<Idx>::contains": "two comparisons",
    "std::result::Result::<T, E>::is_err": "discriminant test",
    "std::result::Result::<T, E>::is_ok": "discriminant test",
    "std::result::Result::<T, E>::ok": "conversion",
    "std::option::Option::<T>::is_some": "discriminant test",
    "std::option::Option::<T>::is_none": "discriminant test",
    "std::option::Option::<T>::ok_or": "conversion",
    "std::option::Option::<T>::unwrap_or": "total",
    "std::string::String::pop": "returns Option",
    "std::string::String::new": "constructor",
    "std::vec::Vec::<T, A>::len": "field read",
    "std::vec::Vec::<T>::new": "constructor",
    "std::char::methods::<impl char>::is_ascii_digit": "range test",
    "std::char::methods::<impl char>::is_ascii_lowercase": "range test",
    "std::char::methods::<impl char>::is_ascii": "range test",
    "std::char::methods::<impl char>::is_ascii_uppercase": "range test",
    "std::char::methods::<impl char>::is_ascii_alphabetic": "range test",
    "std::char::methods::<impl char>::to_ascii_lowercase": "total: sets one bit for 'A'..='Z', identity otherwise",
    "std::char::methods::<impl char>::to_ascii_uppercase": "total: clears one bit for 'a'..='z', identity otherwise",
    "std::convert::Into::into": "conversion through a local From impl (in the census if local)",
    "<std::str::Split<'a, P> as std::iter::Iterator>::next": "returns Option",
    "std::iter::Iterator::count": "bounded by the string length",
    "std::array::iter::<impl std::iter::IntoIterator for [T; N]>::into_iter": "moves the array into its by-value iterator",
    "core::slice::<impl [T]>::iter": "iterator constructor (two pointers)",
    "core::slice::<impl [T]>::iter_mut": "iterator constructor (two pointers)",
    "<std::slice::Iter<'a, T> as std::iter::Iterator>::next": "returns Option",
    "<std::slice::IterMut<'a, T> as std::iter::Iterator>::next": "returns Option",
    "<std::array::IntoIter<T, N> as std::iter::Iterator>::next": "returns Option (reads only the live range of the array)",
    "<std::option::Option<T> as std::ops::Try>::branch": "`?`: match on the discriminant, moves the payload",
    "<std::result::Result<T, E> as std::ops::Try>::branch": "`?`: match on the discriminant, moves the payload",
    "<std::option::Option<T> as std::ops::FromResidual<std::option::Option<std::convert::Infallible>>>::from_residual": "`?` early return: builds None",
}
# `str` searches are total for a char or string pattern (a closure pattern runs user code)
PATTERN_FNS = ("core::str::<impl str>::contains", "core::str::<impl str>::starts_with",
               "core::str::<impl str>::strip_suffix", "core::str::<impl str>::strip_prefix")
PATTERN_TYS = ("char", "&str", "&&str", "&std::string::String")
ENUMERATE_FNS = ("std::iter::Iterator::enumerate", "<std::iter::Enumerate<I> as std::iter::Iterator>::next")
IN_MEMORY_ITERS = ("std::slice::Iter<", "std::slice::IterMut<", "std::vec::IntoIter<", "std::str::Chars<", "std::str::Split<", "std::array::IntoIter<")
RESULT_RESIDUAL = "<std::result::Result<T, F> as std::ops::FromResidual<std::result::Result<std::convert::Infallible, E>>>::from_residual"


def _type_args(ty):
    """Top-level generic arguments of `path<A, B<C, D>, E>` -> ['A', 'B<C, D>', 'E']."""
    i = ty.find("<")
    if i < 0 or not ty.endswith(">"):
        return []
    out, depth, cur = [], 0, ""
    for ch in ty[i + 1:-1]:
        if ch in "<([":
            depth += 1
        elif ch in ">)]":
            depth -= 1
        if ch == "," and depth == 0:
            out.append(cur.strip())
            cur = ""
        else:
            cur += ch
    if cur.strip():
        out.append(cur.strip())
    return out


def _conditional_nopanic(c, t):
    """Entry points that cannot panic for the argument types of this call; reason or None."""
    if c in PATTERN_FNS:
        tys = t.get("arg_tys") or []
        if len(tys) == 2 and tys[1] in PATTERN_TYS:
            return "pattern search with a %s pattern, returns bool / Option (cuts at a match boundary)" % tys[1]
        return None
    if c == "core::slice::<impl [T]>::fill":
        # writes `value.clone()` to every element: total when cloning is a plain copy (primitive or a
        # crate type made of such; a std container could allocate / run user code)
        tys = t.get("arg_tys") or []
        if len(tys) == 2 and "std::" not in tys[1] and "alloc::" not in tys[1] and not tys[1].startswith("&"):
            return "fills a slice with copies of a plain `%s` value" % tys[1]
        return None
    if c in ENUMERATE_FNS:
        # `enumerate()` counts with `+= 1`, which can only overflow after usize::MAX items: impossible
        # for an iterator over memory (slice, Vec, chars, split), whose length is at most isize::MAX
        full = t.get("callee_full") or ""
        if any(m in full for m in IN_MEMORY_ITERS):
            return "enumerating an in-memory sequence: the counter stays below its length"
        return None
    if c == RESULT_RESIDUAL:
        # `?` early return: Err(e) => Err(From::from(e)).  With the same error type on both sides the
        # conversion is the reflexive `impl From<T> for T` (identity); any other conversion is user code.
        ga = t.get("generic_args") or []
        if len(ga) == 2 and ga[0].startswith("std::result::Result<") and ga[1].startswith("std::result::Result<"):
            a, r = _type_args(ga[0]), _type_args(ga[1])
            if len(a) == 2 and len(r) == 2 and a[1] == r[1]:
                return "`?` early return with the identity error conversion (%s)" % a[1]
        return None
    return None
RADIX_FNS = ("std::char::methods::<impl char>::is_digit", "std::char::methods::<impl char>::to_digit",
             "core::char::methods::<impl char>::is_digit", "core::char::methods::<impl char>::to_digit")
UNWRAPS = ("std::option::Option::<T>::unwrap", "std::option::Option::<T>::expect",
           "std::result::Result::<T, E>::unwrap", "std::result::Result::<T, E>::expect")
VEC_INDEX = "<std::vec::Vec<T, A> as std::ops::Index<I>>::index"


def _iter_loop_of(b, ex, bb):
    """Innermost natural loop containing bb whose header tests `Iterator::next`; returns
    (header, loop blocks, next-call expr) or None."""
    loops = b.loops()
    inl = [h for h, body_ in loops.items() if bb in body_]
    if not inl:
        return None
    h = min(inl, key=lambda hh: len(loops[hh]))
    # the header (or its successor chain) calls next and switches on its discriminant
    for x in loops[h]:
        t = b.term(x)
        if t["k"] == "switch":
            d = ex.switch_discr(x)
            if d[0] == "discr" and d[1][0] == "call" and d[1][1].endswith("::next"):
                # exit edge leaves the loop
                if any(s not in loops[h] for s in b.succ.get(x, [])):
                    return h, loops[h], d[1]
    return None


def _i4_unit_counter(b, ex, bb):
    """I4: `c += 1` once per item of an in-memory iterator; all other definitions of c are
    constants or qualifying unit increments => c <= const + isize::MAX, no usize overflow."""
    t = b.term(bb)
    if t["assert_kind"] != "overflow:Add":
        return None
    ops = t["ops"]
    if not (ops[1]["k"] == "const" and ops[1].get("val") == 1 and ops[1]["ty"] == "usize"):
        return None
    if ops[0]["k"] not in ("copy", "move"):
        return None
    src = operand_alias(b, ops[0])
    if not src or src[1] != "val":
        return None
    c = src[0]
    rd = b.reaching()
    sites = rd.all_sites(c)
    if any(k != "whole" for _, k in sites):
        return None
    for (dbb, di), _ in sites:
        st = b.stmts(dbb)
        if di >= len(st):
            return None
        e = ex.rvalue(st[di]["rv"], (dbb, di))
        if e[0] == "const":
            continue
        if e[0] == "bin" and e[1] == "Add" and e[3] == ("const", 1) and e[2][0] == "var" and e[2][1] == c:
            lp = _iter_loop_of(b, ex, dbb)
            if lp is None:
                return None
            nx = lp[2][1]
            if not (nx.endswith("IntoIter<T, A> as std::iter::Iterator>::next") or nx.endswith("Chars<'a> as std::iter::Iterator>::next")
                    or nx.endswith("Range<A>>::next") or "Split" in nx):
                return None
            continue
        return None
    return "I4: `%s` starts at a constant and is incremented by one at most once per item of an in-memory iterator" % b.lname(c)


def _i9_guarded_skip(b, ex, bb):
    """I9 / manual entry M1: index c inside `for _ in 0..n { a[..][c] = ..; c += 1 }` is in bounds
    because `n + c > C -> return` dominates the loop, with C <= length."""
    t = b.term(bb)
    if t["assert_kind"] != "bounds":
        return None
    ln, ix = t["ops"]
    if ln["k"] != "const" or ix["k"] not in ("copy", "move"):
        return None
    length = ln["val"]
    src = operand_alias(b, ix)
    if not src or src[1] != "val":
        return None
    c = src[0]
    lp = _iter_loop_of(b, ex, bb)
    if lp is None:
        return None
    h, loop, nxt = lp
    if not nxt[1].endswith("Range<A>>::next"):
        return None
    # defs of c inside the loop: exactly one, `c = c + 1`, after the indexed access
    rd = b.reaching()
    inloop = [(loc, k) for loc, k in rd.all_sites(c) if loc[0] in loop]
    if len(inloop) != 1 or inloop[0][1] != "whole":
        return None
    (dbb, di), _ = inloop[0]
    e = ex.rvalue(b.stmts(dbb)[di]["rv"], (dbb, di))
    if not (e[0] == "bin" and e[1] == "Add" and e[3] == ("const", 1) and e[2][0] == "var" and e[2][1] == c):
        return None
    if not b.node_dominates(bb, dbb):
        return None
    # the range: Range{start: 0, end: n} moved into into_iter before the loop
    rng = nxt[2][0]
    from wa.expr import strip_refs, data_slice
    rr = strip_refs(rng)
    n_expr = None
    for x in data_slice(ex, rr):
        if x[0] == "agg" and x[1].endswith("ops::Range") and len(x[3]) == 2 and x[3][0] == ("const", 0):
            n_expr = x[3][1]
    if n_expr is None:
        return None
    # guard: switch on Gt(Add(n, c), C) [false edge] / Le(Add(n, c), C) [true edge] dominating the header
    for d, vals, excl, s, tg in dominating_facts(b, ex, h):
        truth = None
        if vals == [0]:
            truth = False
        elif vals is None and excl == [0]:
            truth = True
        if truth is None or d[0] != "bin":
            continue
        op = d[1]
        if not truth:
            op = {"Gt": "Le", "Ge": "Lt", "Lt": "Ge", "Le": "Gt"}.get(op)
        if op not in ("Le", "Lt"):
            continue
        lhs, rhs = d[2], d[3]
        if rhs[0] != "const" or lhs[0] != "bin" or lhs[1] != "Add":
            continue
        C = rhs[1] if op == "Le" else rhs[1] - 1
        terms = [lhs[2], lhs[3]]
        cv = [x for x in terms if x[0] == "var" and x[1] == c]
        nv = [x for x in terms if x == n_expr]
        if len(cv) != 1 or len(nv) != 1:
            continue
        # c must not be redefined between the guard and the loop entry
        pre = [p for p in b.pred.get(h, []) if p not in loop]
        if len(pre) != 1:
            continue
        c_at_entry = ex.local(c, b.term_loc(pre[0]))
        if c_at_entry != cv[0]:
            continue
        if C <= length:
            return "M1: `%s + %s <= %d` is established before the loop (guard at %s); the index is %s0 + k with k < %s, so it stays below %d <= %d" % (
                show_expr(n_expr, b), b.lname(c), C, b.where(b.term_loc(s)), b.lname(c), show_expr(n_expr, b), C, length)
    return None


def _i1_vec_index(b, ex, bb, t):
    """I1: `v[k]` with constant k, dominated by a length fact that implies k < v.len():
    `v.len() == n` (k < n), `v.len() > n` (k <= n), `v.len() >= n` (k < n), or the false edge of
    `v.len() < n` / `v.len() <= n` / `v.len() != n`."""
    args = ex.call_args(bb)
    if len(args) == 2 and strip_refs(args[1])[0] == "agg" and str(strip_refs(args[1])[1]).endswith("RangeFull"):
        return "I1: `v[..]` is the whole vector as a slice (no bound to violate)"
    if len(args) != 2 or args[1][0] != "const":
        return None
    k = args[1][1]
    v = args[0]
    if not isinstance(k, int):
        return None
    flip = {"Lt": "Gt", "Gt": "Lt", "Le": "Ge", "Ge": "Le", "Eq": "Eq", "Ne": "Ne"}
    neg = {"Lt": "Ge", "Ge": "Lt", "Gt": "Le", "Le": "Gt", "Eq": "Ne", "Ne": "Eq"}
    for d, vals, excl, s, tg in dominating_facts(b, ex, bb):
        truth = False if vals == [0] else (True if (vals is None and excl == [0]) else None)
        if truth is None or d[0] != "bin" or d[1] not in flip:
            continue
        for a, c, op in ((d[2], d[3], d[1]), (d[3], d[2], flip[d[1]])):
            if c[0] == "const" and a[0] == "call" and a[1].endswith("::len") and a[2] and strip_refs(a[2][0]) == strip_refs(v):
                if not truth:
                    op = neg[op]
                n = c[1]
                lo = {"Eq": n, "Gt": n + 1, "Ge": n}.get(op)   # least possible length
                if lo is not None and 0 <= k < lo:
                    return "I1: length %s %d established at %s, index %d" % ({"Eq": "==", "Gt": ">", "Ge": ">="}[op], n, b.where(b.term_loc(s)), k)
    return None


ARRAY_RANGE_INDEX = ("std::array::<impl std::ops::IndexMut<I> for [T; N]>::index_mut", "std::array::<impl std::ops::Index<I> for [T; N]>::index")


def _i5_array_subrange(b, ex, iv, bb, t):
    """I5: `a[s..e]` on an array of length N cannot panic when e <= N (intervals) and e = s + n with n an
    unsigned quantity (so s <= e; the addition itself is an overflow assert of the census)."""
    import re
    m = re.search(r"; (\d+)\]$", t["arg_tys"][0])
    a = t["args"][1]
    if not m or a["k"] not in ("copy", "move") or a["place"]["proj"]:
        return None
    n = int(m.group(1))
    st = iv.state_at(b.term_loc(bb))
    if st is None:
        return "A: unreachable"
    rl = a["place"]["local"]
    hi = iv.get(st, (rl, (1,)), "usize")
    rng = strip_refs(ex.call_args(bb)[1])
    if not (rng[0] == "agg" and str(rng[1]).endswith("ops::Range") and len(rng[3]) == 2) or hi[1] > n:
        return None
    s_, e_ = linear(rng[3][0]), linear(rng[3][1])
    if s_ is None or e_ is None:
        return None
    diff = dict(e_[0])
    for x, cx in s_[0].items():
        diff[x] = diff.get(x, 0) - cx
    diff = {x: cx for x, cx in diff.items() if cx != 0}

    def unsigned(x):
        x = strip_refs(x)
        if x[0] == "cast":
            return x[1] in UNSIGNED_BITS and unsigned(x[2])
        if x[0] == "var":
            return b.local_ty(x[1]) in UNSIGNED_BITS
        if x[0] == "call":
            return x[1].endswith("Option::<T>::unwrap") and strip_refs(x[2][0])[0] == "call" and strip_refs(x[2][0])[1].endswith("<impl char>::to_digit")
        if x[0] == "field" and x[2] == "0" and x[1][0] == "downcast":      # payload of Some(to_digit(..))
            y = strip_refs(x[1][1])
            return y[0] == "call" and y[1].endswith("<impl char>::to_digit")
        return False
    if e_[1] - s_[1] >= 0 and all(cx > 0 and unsigned(x) for x, cx in diff.items()):
        return "I5: end in [%s, %s] <= %d and end - start = %s >= 0" % (hi[0], hi[1], n, " + ".join(show_expr(x, b)[:30] for x in diff) or str(e_[1] - s_[1]))
    return None


def _i2_digit_unwrap(b, ex, bb, t):
    """I2: `c.to_digit(r).unwrap()` dominated by the true edge of `c.is_digit(r)`."""
    args = ex.call_args(bb)
    x = args[0]
    if not (x[0] == "call" and x[1].endswith("<impl char>::to_digit")):
        return None
    for d, vals, excl, s, tg in dominating_facts(b, ex, bb):
        truth = False if vals == [0] else (True if (vals is None and excl == [0]) else None)
        if truth and d[0] == "call" and d[1].endswith("<impl char>::is_digit") and d[2] == x[2]:
            return "I2: is_digit(%s) holds (guard at %s)" % (show_expr(x[2][0], b), b.where(b.term_loc(s)))
    return None


def r15_1(ctx):
    f = ctx.facts
    cg = callgraph.get(f)
    cone = sorted(cg.cone(FROM_FEN))
    if FROM_FEN not in cone:
        raise AnchorMissing(FROM_FEN)
    ctx.note_fn(*cone)
    root = f.body(FROM_FEN)
    top = Intervals(root, variant_sets=True, through_refs=True)
    contexts = {}
    for (callee, _), sub in top.sub_analyses.items():
        contexts.setdefault(callee, []).append(sub)
    nsites = 0
    for fn in cone:
        b = f.body(fn)
        ex = Exprs(b)
        short = fn.replace("board::BoardState::", "").replace("zobrist::ZobristHasher::", "")
        ivs = [top] if fn == FROM_FEN else (contexts.get(fn) or [Intervals(b, variant_sets=True, through_refs=True)])
        n_by_kind = {}
        for bb in b.normal:
            if bb not in b.reachable:
                continue
            t = b.term(bb)
            if t["k"] == "assert":
                nsites += 1
                kind = t["assert_kind"]
                n_by_kind[kind] = n_by_kind.get(kind, 0) + 1
                key = "%s:assert:%s#%d" % (short, kind, n_by_kind[kind])
                res = [iv.assert_holds(bb) for iv in ivs]
                if all(r[0] for r in res):
                    ctx.ob(key, True, b.where(b.term_loc(bb)), "A: " + res[0][1])
                    continue
                how = _i4_unit_counter(b, ex, bb) or _i9_guarded_skip(b, ex, bb)
                ctx.ob(key, how is not None, b.where(b.term_loc(bb)),
                       how or "cannot exclude this panic: %s (%s)" % (b.text_at(b.term_loc(bb))[:90], [r[1] for r in res if not r[0]][0]))
            elif t["k"] == "call":
                c = callee_of(t) or ""
                if f.has_body(c) or (t.get("callee") and f.has_body(t["callee"])):
                    continue
                if c in NOPANIC or _conditional_nopanic(c, t):
                    continue
                nsites += 1
                n_by_kind[c] = n_by_kind.get(c, 0) + 1
                nm = c.split("::")[-1]
                if c in RADIX_FNS:
                    r = ex.call_args(bb)[1]
                    ok = r[0] == "const" and r[1] <= 36
                    ctx.ob("%s:%s#%d:radix" % (short, nm, n_by_kind[c]), ok, b.where(b.term_loc(bb)),
                           "A: radix %s <= 36" % show_expr(r, b))
                elif c in UNWRAPS:
                    how = _i2_digit_unwrap(b, ex, bb, t)
                    arg = ex.call_args(bb)[0]
                    desc = "%s.%s" % (show_expr(arg, b)[:70], nm)
                    ctx.ob("%s:%s(%s)" % (short, nm, _unwrap_label(arg)), how is not None, b.where(b.term_loc(bb)),
                           how or "`%s()` on a value that can be None/Err for some input string: this input panics instead of returning an error" % desc)
                elif c in ARRAY_RANGE_INDEX and len(t.get("arg_tys") or []) == 2 and t["arg_tys"][1].startswith("std::ops::Range<"):
                    how = None
                    for iv in ivs:
                        how = _i5_array_subrange(b, ex, iv, bb, t)
                        if how is None:
                            break
                    ctx.ob("%s:subrange#%d" % (short, n_by_kind[c]), how is not None, b.where(b.term_loc(bb)),
                           how or "sub-slice `a[s..e]` of an array not shown to satisfy s <= e <= len: %s" % b.text_at(b.term_loc(bb))[:90])
                elif c == VEC_INDEX:
                    how = _i1_vec_index(b, ex, bb, t)
                    ctx.ob("%s:index#%d" % (short, n_by_kind[c]), how is not None, b.where(b.term_loc(bb)),
                           how or "Vec index not covered by a length guard: %s" % b.text_at(b.term_loc(bb))[:90])
                else:
                    ctx.ob("%s:unclassified:%s" % (short, c), False, b.where(b.term_loc(bb)),
                           "callee `%s` is not in the census tables (cannot tell whether it may panic)" % c,
                           reason="shape-not-recognised")
    ctx.floor("panic sites in cone(from_fen)", nsites, 15)


def _unwrap_label(arg):
    """Stable label of what is being unwrapped (callee chain), e.g. to_digit / nth / next."""
    a = arg
    names = []
    while a[0] in ("ref", "deref"):
        a = a[1]
    if a[0] == "call":
        names.append(a[1].split("::")[-1])
    return ".".join(names) or a[0]


def r15_6(ctx):
    """Valid counter values are never a reason to reject a FEN: the parsed counters flow into
    nothing but the `is_err` test of their own parse."""
    f = ctx.facts
    b = f.body(FROM_FEN)
    ctx.note_fn(FROM_FEN)
    ex = Exprs(b)
    parses = {}
    for bb, t in b.iter_calls():
        c = callee_of(t) or ""
        if c.endswith("<impl str>::parse"):
            arg = ex.call_args(bb)[0]
            for k in _fen_fields(arg):
                if k in (4, 5):
                    parses[ex.call_expr(t, b.term_loc(bb))] = k
    n = 0
    from wa.expr import data_slice
    for s in b.normal:
        if s not in b.reachable or b.term(s)["k"] != "switch":
            continue
        d = ex.switch_discr(s)
        hit = [p for p in parses if p in data_slice(ex, d)]
        if not hit:
            continue
        n += 1
        dd = strip_refs(d)
        plain = dd[0] == "call" and (dd[1].endswith("::is_err") or dd[1].endswith("::is_ok")) and strip_refs(dd[2][0]) in parses
        plain = plain or (dd[0] == "discr" and strip_refs(dd[1]) in parses)
        ctx.ob("from_fen:counter-use#%d" % n, plain, b.where(b.term_loc(s)),
               "a branch depends on the move counters through `%s`; apart from 'is it a number' no counter value may decide whether a FEN is accepted" % show_expr(d, b)[:90])
    ctx.ob("from_fen:counter-uses", True, b.file, "%d branches depend on the parsed counters" % n, nontrivial=False)


# ---- R15.3 letter tables, R15.4 layout, R15.5 CLI -------------------------------------------------
from . import chess
from wa.linear import linear
from wa.expr import data_slice, root_local


def _through_try(f, ex, e):
    """Resolve `(x?).field` a step further than value numbering does.  `x?` is
    `match Try::branch(x) { Continue(v) => v, Break(r) => return from_residual(r) }`: on the path that
    goes on, v is the payload of x's `Ok`/`Some`.  When x is the result slot of an inlined helper it has
    several definitions (`Ok(S {..})` at the end, `Err(..)` at every early return) of which exactly
    one is a success value; fields are then selected from that aggregate."""
    if not isinstance(e, tuple) or not e:
        return e
    if e[0] == "field":
        base = _through_try(f, ex, e[1])
        if base[0] == "agg" and base[1] == "tuple":
            try:
                return base[3][int(e[2])]
            except (ValueError, IndexError):
                return ("field", base, e[2])
        if base[0] == "agg" and base[1] not in ("tuple", "array", "closure"):
            try:
                return base[3][f.struct_fields(base[1]).index(e[2])]
            except Exception:
                return ("field", base, e[2])
        return ("field", base, e[2]) if base is not e[1] else e
    if e[0] == "downcast" and e[2] == "Continue" and e[1][0] == "call" and e[1][1].endswith(" as std::ops::Try>::branch") and len(e[1][2]) == 1:
        x = strip_refs(e[1][2][0])
        cands = []
        if x[0] == "agg":
            cands = [x]
        elif x[0] == "var":
            for dloc, kind in x[2]:
                st = ex.b.stmts(dloc[0])
                if kind == "whole" and dloc[1] < len(st):
                    cands.append(strip_refs(ex.rvalue(st[dloc[1]]["rv"], dloc)))
                else:
                    return e
        ok = [c for c in cands if c[0] == "agg" and c[2] in ("Ok", "Some") and len(c[3]) == 1]
        bad = [c for c in cands if not (c[0] == "agg" and c[2] in ("Ok", "Some", "Err", "None"))]
        if len(ok) == 1 and not bad:
            return ("agg", "tuple", None, (ok[0][3][0],))
    return e


# characters that upper/lower-case or normalise to a FEN letter, or merely look like one
LOOKALIKES = ("\u212a", "\u017f", "\u0130", "\u0131", "\uff2b", "\uff4b", "\uff30", "\uff50", "\u041a", "\u043a", "\u0420", "\u0440",
              "\u039a", "\u03ba", "\u00df", "\u00d1", "\u00f1", "\u1e9e", "\U0001d40a")


def r15_3(ctx):
    f = ctx.facts
    fn = "board::BoardState::piece_from_fen_string_char"
    b = f.body(fn)
    ctx.note_fn(fn, FROM_FEN)
    ex = Exprs(b)
    # the letter table is decided by *running* the function on every relevant character (finite
    # instantiation, wa/concwalk.py), not by reading arm literals: all of ASCII plus non-ASCII
    # look-alikes / case-folding traps, which must be rejected ("ASCII only")
    from wa.concwalk import Conc, NONE
    from wa.interp import Unknown
    if b.loops() or b.arg_count != 1 or b.local_ty(1) != "char":
        raise ShapeNotRecognised("piece_from_fen_string_char(char) is not a loop-free function of one char")
    probes = [chr(c) for c in range(0, 128)] + list(LOOKALIKES)
    pf = f.struct_fields("board::Piece")
    table = {}
    for ch in probes:
        try:
            v = Conc(f, b, {("arg", 1): ord(ch)}, ex).run()
        except Unknown as e:
            raise ShapeNotRecognised("piece_from_fen_string_char(%r) cannot be evaluated: %r" % (ch, e))
        if v is None or v == NONE:
            continue
        pc = v[1] if (isinstance(v, tuple) and len(v) == 2 and v[0] == "some") else None
        if not (isinstance(pc, tuple) and pc and pc[0] == "adt" and pc[1] == "board::Piece" and len(pc[3]) == len(pf)):
            raise ShapeNotRecognised("piece_from_fen_string_char(%r) = %r is not an Option<Piece>" % (ch, v))
        vals = dict(zip(pf, pc[3]))
        table[ch] = (vals["color"][2], vals["kind"][2])
    want = {}
    for ch, kind in chess.FEN_LETTERS.items():
        want[ch] = ("Black", kind)
        want[ch.upper()] = ("White", kind)
    ctx.ob("piece_from_fen_string_char:table", table == want, b.file,
           "FEN letter -> (colour, kind): %s" % ("the 12 standard letters" if table == want else {k: v for k, v in sorted(table.items()) if want.get(k) != v} or "missing %s" % sorted(set(want) - set(table))))
    b = f.body(FROM_FEN)
    ex = Exprs(b)
    # side to move
    side = {}
    for loc, st in b.iter_stmts():
        if st["k"] == "assign" and st["rv"]["k"] == "aggregate" and st["rv"].get("adt") == "board::PieceColor":
            e = ex.rvalue(st["rv"], loc)
            for d, vals, excl, s, tg in dominating_facts(b, ex, loc[0]):
                truth = (vals is None and excl == [0]) or vals == [1]
                if truth and d[0] == "bin" and d[1] == "Eq":
                    for x, k in ((strip_refs(d[2]), strip_refs(d[3])), (strip_refs(d[3]), strip_refs(d[2]))):
                        if k[0] == "str" and len(k[1]) == 1 and 1 in _fen_fields(x):
                            side[k[1]] = e[2]
    ctx.ob("from_fen:side-letters", side == {"w": "White", "b": "Black"}, b.file, "FEN field 2 letter -> side to move: %s" % sorted(side.items()))
    # castling letters in the struct literal
    fields = f.struct_fields("board::BoardState")
    agg = None
    for loc, st in b.iter_stmts():
        if st["k"] == "assign" and st["rv"]["k"] == "aggregate" and st["rv"].get("adt") == "board::BoardState":
            agg = ex.rvalue(st["rv"], loc)
    got = {}
    if agg:
        for i, fld in enumerate(fields):
            if fld.endswith("_castle"):
                e = agg[3][i]
                chars = [x[2][1][1] for x in subexprs(e) if x[0] == "call" and (x[1].endswith("<impl str>::find") or x[1].endswith("<impl str>::contains")) and x[2][1][0] == "char"]
                idx = _fen_fields(e)
                got[fld] = (chars[0] if len(chars) == 1 else None, idx[0] if idx else None)
    want = {"white_king_side_castle": ("K", 2), "white_queen_side_castle": ("Q", 2), "black_king_side_castle": ("k", 2), "black_queen_side_castle": ("q", 2)}
    ctx.ob("from_fen:castling-letters", got == want, b.file, "right flag <- (letter searched, FEN field index): %s" % sorted(got.items()))
    # en passant and the other fields of the literal
    if agg:
        epi = fields.index("pawn_double_move")
        epe = agg[3][epi]
        sl = data_slice(ex, epe)
        ok = any(x[0] == "call" and x[1].endswith("<impl str>::parse") for x in sl) and any(3 in _fen_fields(x) for x in sl)
        ctx.ob("from_fen:ep-field", ok, b.file, "pawn_double_move comes from parsing FEN field 4 as a square")
        for fld, wantv in (("last_move", "None"), ("pawn_promotion", "None")):
            e = agg[3][fields.index(fld)]
            ctx.ob("from_fen:%s-empty" % fld, e[0] == "agg" and e[2] == wantv, b.file, "a loaded position carries no move descriptor: %s = %s" % (fld, show_expr(e, b)[:30]))
    # king cache: written from (row, col) of the square just stored, exactly when kind == King, by colour
    # (the two cache locals are the ones the struct literal's king fields are read from, whatever
    # they are called and whether or not they travel through a helper's result struct and `?`)
    kw = {}
    for loc, st in b.iter_stmts():
        if st["k"] == "assign" and not st["place"]["proj"] and b.local_ty(st["place"]["local"]) == "board::Point":
            e = ex.rvalue(st["rv"], loc)
            if e[0] == "agg" and e[1] == "board::Point" and e[3][0][0] == "const":
                continue   # initial Point(0, 0)
            conds = []
            # what the dominating branch decisions say about the kind and the colour of the piece,
            # however the test is spelt: `kind == King`, `kind != King` (else edge), `match color {..}`,
            # a pattern `Piece { kind: King, color }` (discriminant switch on the kind)
            for d, vals, excl, s, tg in dominating_facts(b, ex, loc[0]):
                d0 = strip_refs(d)
                truth = True if ((vals is None and excl == [0]) or vals == [1]) else (False if vals == [0] else None)
                if d0[0] == "bin" and d0[1] in ("Eq", "Ne") and truth is not None and truth == (d0[1] == "Eq"):
                    for x, k in ((strip_refs(d0[2]), strip_refs(d0[3])), (strip_refs(d0[3]), strip_refs(d0[2]))):
                        if k[0] == "agg" and k[1] in ("board::PieceKind", "board::PieceColor") and not k[3]:
                            conds.append(k[2])
                if d0[0] == "discr" and len(d0) > 2 and d0[2] in ("board::PieceKind", "board::PieceColor"):
                    names = f.enum_variant_by_discr(d0[2])
                    poss = {names[v] for v in vals if v in names} if vals is not None else {n for v, n in names.items() if v not in excl}
                    if len(poss) == 1:
                        conds.append(next(iter(poss)))
            kw.setdefault(st["place"]["local"], []).append((sorted(conds), e))
    roots = {}
    if agg:
        for fld in ("white_king_location", "black_king_location"):
            e = _through_try(f, ex, agg[3][fields.index(fld)])
            roots[fld] = e[1] if e[0] == "var" else None
    okk = len(roots) == 2 and None not in roots.values() and len(set(roots.values())) == 2
    shown = {}
    for fld, l in roots.items():
        colour = "White" if fld.startswith("white") else "Black"
        writes = kw.get(l, [])
        shown[fld] = [c for c, e in writes]
        okk = okk and bool(writes) and all(conds == sorted(["King", colour]) and e[0] == "agg" and e[1] == "board::Point" for conds, e in writes)
    ctx.ob("from_fen:king-cache", okk, b.file, "king squares recorded under (kind == King, colour) and stored in the field of that colour: %s" % shown)


def r15_4(ctx):
    """Layout: rows from row 2 downward, columns from 2 rightward; a digit skips that many squares;
    each FEN row must end exactly at column 10; the piece is stored where the cursor is."""
    f = ctx.facts
    b = f.body(FROM_FEN)
    ex = Exprs(b, keep={l for l in f.body(FROM_FEN).names if f.body(FROM_FEN).local_ty(l) == "usize"})
    cur = [l for l, n in b.names.items() if b.local_ty(l) == "usize" and n in ("row", "col")]
    us = {b.lname(l): l for l in b.names if b.local_ty(l) == "usize"}
    # identify cursors structurally: usize locals used as indices of the board array write
    rows, cols = set(), set()
    for loc, st in b.iter_stmts():
        if st["k"] == "assign":
            p = st["place"]
            idx = [e["local"] for e in p["proj"] if e["k"] == "index"]
            if len(idx) == 2 and b.local_ty(p["local"]).startswith("[[board::Square"):
                from wa.mir import alias_of
                rows.add(alias_of(b, idx[0])[0])
                cols.add(alias_of(b, idx[1])[0])
    rd = b.reaching()
    # constant ranges `a..b` over cursor-typed locals that occur in the body: (start local, end local)
    ranges = set()
    for loc, st in b.iter_stmts():
        if st["k"] == "assign" and st["rv"]["k"] == "aggregate" and str(st["rv"].get("adt", "")).endswith("ops::Range"):
            e = ex.rvalue(st["rv"], loc)
            if len(e[3]) == 2 and e[3][0][0] == "var" and e[3][1][0] == "var":
                ranges.add((e[3][0][1], e[3][1][1]))
    # a column index that merely walks a run `col..run_end` starting at the cursor is not a second cursor
    def walks_from(c):
        ds = [(loc, k) for loc, k in rd.all_sites(c)]
        if len(ds) != 1 or ds[0][1] != "whole" or ds[0][0][1] >= len(b.stmts(ds[0][0][0])):
            return None
        e = strip_refs(ex.rvalue(b.stmts(ds[0][0][0])[ds[0][0][1]]["rv"], ds[0][0]))
        if e[0] == "field" and e[1][0] == "downcast" and strip_refs(e[1][1])[0] == "call" and strip_refs(e[1][1])[1].endswith("Range<A>>::next"):
            starts = {s_ for s_, e_ in ranges if any(x == ("agg",) or (x[0] == "agg" and str(x[1]).endswith("ops::Range") and len(x[3]) == 2 and x[3][0][0] == "var" and x[3][0][1] == s_)
                                                       for x in data_slice(ex, strip_refs(e[1][1])))}
            return starts
        return None
    runners = {c for c in cols if (walks_from(c) or set()) & (cols - {c})}
    cols -= runners
    if len(rows) != 1 or len(cols) != 1:
        raise ShapeNotRecognised("from_fen: board cursor not recognised (rows %s, cols %s)" % (rows, cols))
    row, col = next(iter(rows)), next(iter(cols))

    def defs_of(l):
        out = []
        for loc, k in rd.all_sites(l):
            if k == "whole":
                out.append((loc, ex.rvalue(b.stmts(loc[0])[loc[1]]["rv"], loc)))
        return out
    rdefs, cdefs = defs_of(row), defs_of(col)

    def run_step(e):
        """`col = run_end` where run_end = col + n (n an unsigned count) and the range `col..run_end` is
        taken somewhere in the body (filled in one go, or walked by a loop): the cursor jumps over the
        run it has just blanked."""
        e = strip_refs(e)
        if e[0] != "var" or e[1] == col:
            return False
        ds = [ex.rvalue(b.stmts(loc[0])[loc[1]]["rv"], loc) for loc, k in rd.all_sites(e[1]) if k == "whole" and loc[1] < len(b.stmts(loc[0]))]
        if len(ds) != 1 or len(rd.all_sites(e[1])) != 1:
            return False
        d = strip_refs(ds[0])
        if not (d[0] == "bin" and d[1] == "Add"):
            return False
        ops = [strip_refs(d[2]), strip_refs(d[3])]
        return any(o[0] == "var" and o[1] == col for o in ops) and (col, e[1]) in ranges
    cruns = [e for _, e in cdefs if run_step(e)]
    def enum_counter(e):
        """e is the running index of an enumerated in-memory iteration (`for (i, x) in v.iter().enumerate()`):
        it starts at 0 and grows by one per iteration by the definition of `enumerate`."""
        e = strip_refs(e)
        if e[0] == "var":
            ds = [ex.rvalue(b.stmts(loc[0])[loc[1]]["rv"], loc) for loc, k in rd.all_sites(e[1]) if k == "whole" and loc[1] < len(b.stmts(loc[0]))]
            if len(ds) != 1 or len(rd.all_sites(e[1])) != 1:
                return False
            e = strip_refs(ds[0])
        return (e[0] == "field" and e[2] == "0" and e[1][0] == "field" and e[1][2] == "0" and e[1][1][0] == "downcast" and e[1][1][2] == "Some"
                and strip_refs(e[1][1][1])[0] == "call" and strip_refs(e[1][1][1])[1].endswith("<std::iter::Enumerate<I> as std::iter::Iterator>::next"))

    def offset_of_counter(e):
        """c if e == c + <enumerate counter> (either operand order), else None"""
        if e[0] == "bin" and e[1] == "Add":
            for x, k in ((e[2], e[3]), (e[3], e[2])):
                if k[0] == "const" and isinstance(k[1], int) and enum_counter(x):
                    return k[1]
        return None
    rinit = [e for _, e in rdefs if e[0] == "const"]
    cinit = [e for _, e in cdefs if e[0] == "const"]
    renum = [offset_of_counter(e) for _, e in rdefs if offset_of_counter(e) is not None]      # row = 2 + rank_index
    rinc = [e for _, e in rdefs if e[0] == "bin" and offset_of_counter(e) is None]
    cinc = [e for _, e in cdefs if e[0] == "bin"]
    row_start = sorted(e[1] for e in rinit) + renum
    ok = set(row_start) == {2} and not (rinit and renum) and {e[1] for e in cinit} == {2}
    ctx.ob("from_fen:cursor-starts-at-a8", ok, b.file, "row starts at %s, column starts/resets at %s (2,2 is a8)" % (row_start, sorted(e[1] for e in cinit)))
    inc1 = lambda es, l: all(e[1] == "Add" and e[3] == ("const", 1) and e[2][0] == "var" and e[2][1] == l for e in es) and bool(es)
    # the row advances once per FEN row: one `row += 1`, or it is `2 + i` for the index i of the FEN row
    row_steps = (inc1(rinc, row) and len(rinc) == 1 and not renum) or (len(renum) == 1 and not rinc)
    # the column advances in two places: by one after a piece, and over a run of skipped squares
    # (one by one in a counted loop, or by a jump to the end of the run just blanked)
    ctx.ob("from_fen:cursor-steps", row_steps and inc1(cinc, col) and len(cinc) + len(cruns) == 2, b.file,
           "row advances by one per FEN row (%d sites), column by one per square or skipped square (%d sites, %d of them a jump over a blanked run)" % (
               len(rinc) + len(renum), len(cinc) + len(cruns), len(cruns)))
    # row-complete check: an Err return under Ne(col, 10) after the inner loop
    complete = False
    for s in b.normal:
        if s in b.reachable and b.term(s)["k"] == "switch":
            d = ex.switch_discr(s)
            if d[0] == "bin" and d[1] in ("Ne", "Eq") and strip_refs(d[2])[0] == "var" and strip_refs(d[2])[1] == col and d[3] == ("const", 10):
                complete = True
    ctx.ob("from_fen:row-must-be-complete", complete, b.file, "after each FEN row the column cursor is compared with 10 (row exactly filled)")
    # the column reset happens once per row, after the completeness test
    # digits: the skip count is to_digit of the same char that passed is_digit
    skips = [x for bb, t in b.iter_calls() if (callee_of(t) or "").endswith("to_digit") for x in [ex.call_args(bb)]]
    ctx.ob("from_fen:digit-skip", len(skips) == 1 and skips[0][1] == ("const", 10), b.file, "digits are read in base %s" % [show_expr(s[1], b) for s in skips])


def r15_5(ctx):
    """CLI: the result of from_fen is matched; the Err arm prints and returns; nothing unwraps it."""
    f = ctx.facts
    b = f.body("main")
    ctx.note_fn("main")
    ex = Exprs(b)
    calls = b.calls_to(FROM_FEN)
    ctx.ob("main:loads-fen-once", len(calls) == 1, b.file, "%d calls of from_fen in main" % len(calls))
    # nothing derived from the --fen text is unwrapped on the way to from_fen: whatever the text is (a
    # path that cannot be read, bytes that are not a position), the front end reports it, it does not panic
    from wa.expr import data_slice
    nbad = 0
    for cb, ct in b.iter_calls():
        c = callee_of(ct) or ""
        if not (c.endswith("::unwrap") or c.endswith("::expect")):
            continue
        a = ex.call_args(cb)
        if not a:
            continue
        sl = list(data_slice(ex, a[0]))
        from_fen_arg = any(x[0] == "call" and "value_of" in x[1] and any(strip_refs(y) == ("str", "fen") for y in x[2]) for x in sl)
        if from_fen_arg:
            nbad += 1
            ctx.ob("main:fen-text-not-unwrapped#%d" % nbad, False, b.where(b.term_loc(cb)),
                   "`%s` unwraps a value computed from the --fen text: for some inputs the front end panics instead of printing the error" % b.text_at(b.term_loc(cb))[:70])
    if nbad == 0:
        ctx.ob("main:fen-text-not-unwrapped", True, b.file, "no unwrap/expect in main takes a value computed from the --fen argument", nontrivial=False)
    for bb, t in calls:
        res = ex.call_expr(t, b.term_loc(bb))
        bad = []
        for cb, ct in b.iter_calls():
            c = callee_of(ct) or ""
            if c.endswith("::unwrap") or c.endswith("::expect"):
                a = ex.call_args(cb)[0]
                if res in set(subexprs(a)):
                    bad.append(b.where(b.term_loc(cb)))
        ctx.ob("main:fen-result-not-unwrapped", not bad, bad[0] if bad else b.where(b.term_loc(bb)), "the CLI must report a bad FEN, not panic on it")
        # the Err edge leads to return
        okerr = False
        for s in b.normal:
            if s in b.reachable and b.term(s)["k"] == "switch":
                d = ex.switch_discr(s)
                if d[0] == "discr" and strip_refs(d[1]) == res:
                    tt = b.term(s)
                    errt = [tg for v, tg in tt["cases"] if v == 1] or [tt["otherwise"]]
                    seen = b.reach_from(errt[0])
                    ends = [x for x in seen if not b.succ.get(x)]
                    prints = any(b.term(x)["k"] == "call" and "_print" in (callee_of(b.term(x)) or "") for x in seen)
                    okerr = all(b.term(x)["k"] == "return" for x in ends) and prints and not any(
                        callee_of(b.term(x)) in ("uci::play_game_uci", "engine::play_game_against_self") for x in seen if b.term(x)["k"] == "call")
                    # nothing in the error arm can panic: only the print machinery is called there, and
                    # no compiler-inserted check sits in it
                    region = {x for x in seen if not b.node_dominates(x, s) or x == errt[0] or b.node_dominates(errt[0], x)}
                    region = {x for x in seen if b.node_dominates(errt[0], x)}
                    for x in sorted(region):
                        tx = b.term(x)
                        if tx["k"] == "call":
                            c = callee_of(tx) or ""
                            fine = c.startswith("std::io::_print") or c.startswith("std::fmt::") or c.startswith("core::fmt::") or c.startswith("std::hint::must_use") or c in NOPANIC
                            if not fine:
                                ctx.ob("main:err-arm:call:%s" % c.split("::")[-1], False, b.where(b.term_loc(x)),
                                       "`%s` in the error arm of the CLI: the arm must only print the error (string slicing, unwrap etc. can panic on some rejected input)" % c)
                        elif tx["k"] == "assert":
                            ctx.ob("main:err-arm:assert", False, b.where(b.term_loc(x)), "a compiler-inserted check (%s) in the error arm" % tx["assert_kind"])
        ctx.ob("main:err-arm-prints-and-returns", okerr, b.where(b.term_loc(bb)), "on Err the message is printed and main returns normally")
        # the FEN text itself is obtained without panicking: clap 2's `ArgMatches::value_of` panics on an
        # argument that is not valid UTF-8 ("arbitrary bytes" reach the front end through argv)
        from wa.expr import data_slice
        arg = ex.call_args(bb)[0]
        src = [x for x in data_slice(ex, strip_refs(arg)) if x[0] == "call" and x[1].startswith("clap::ArgMatches")]
        panicky = [x for x in src if x[1].split("::")[-1] in ("value_of", "values_of")]
        # ... and faithfully: a partial conversion (`OsStr::to_str`, `into_string().ok()`) turns "present but
        # not UTF-8" into "absent", so the default position is loaded and no error is printed
        partial = [x for x in data_slice(ex, strip_refs(arg)) if x[0] == "call" and x[1].split("::")[-1] in ("to_str", "into_string")
                   and ("OsStr" in x[1] or "OsString" in x[1])]
        if any(x[1].split("::")[-1] in ("value_of_os", "values_of_os") for x in src):
            # the conversion may sit in a closure handed to and_then / map
            for cn in f.body_names():
                if cn.startswith("main::{closure"):
                    for cb_, ct_ in f.body(cn).iter_calls():
                        c_ = callee_of(ct_) or ""
                        if c_.split("::")[-1] in ("to_str", "into_string") and ("OsStr" in c_ or "OsString" in c_):
                            partial.append(("call", c_, (), None))
        ctx.ob("main:fen-argument-not-dropped", not partial, b.where(b.term_loc(bb)),
               "the --fen argument reaches from_fen whenever it is present" if not partial else
               "`%s` yields None for an argument that is not valid UTF-8, which is then treated like a missing --fen: the bad input is never reported" % partial[0][1].split("::")[-1])
        ctx.ob("main:fen-argument-accessor-total", not panicky, b.where(b.term_loc(bb)),
               "the --fen argument is read with %s%s" % (sorted({x[1].split("::")[-1] for x in src}) or "no clap accessor",
                                                       "" if not panicky else ": `value_of` panics on an argument that is not valid UTF-8 instead of letting from_fen reject it (value_of_lossy / value_of_os do not)"))


# ------------------------------------------------------------------------------------------------
# well-formed lengths (in bytes) of the six FEN fields: placement "8/8/8/8/8/8/8/8" (15) .. eight ranks of
# eight piece letters plus seven separators (71); side; castling "-" .. "KQkq"; ep "-" | square; counters
FIELD_LENGTHS = {0: range(15, 72), 1: (1,), 2: range(1, 5), 3: (1, 2), 4: range(1, 7), 5: range(1, 7)}


def r15_7(ctx):
    """A length test never rejects a well-formed field ("every well-formed FEN of a legal position is
    accepted"): for every branch of from_fen on `len(field i) OP constant` - field i being the i-th
    space-separated part of the input - and every length a well-formed field i can have, the edge taken
    must still be able to reach the construction of the `Ok` result.  The number of fields (6) and of
    ranks (8) are checked the same way."""
    f = ctx.facts
    if not f.has_body(FROM_FEN):
        raise AnchorMissing(FROM_FEN)
    b = f.body(FROM_FEN)
    ctx.note_fn(FROM_FEN)
    ex = Exprs(b)
    ok_blocks = set()
    for loc, st in b.iter_stmts():
        if st["k"] == "assign" and st["rv"]["k"] == "aggregate" and st["rv"].get("variant") == "Ok" and "BoardState" in (b.local_ty(st["place"]["local"]) or ""):
            ok_blocks.add(loc[0])
    if not ok_blocks:
        raise ShapeNotRecognised("from_fen: no `Ok(board)` construction found")

    def field_of(e):
        """i when e is (a view of) the i-th part of `fen.split(' ')`; 'fields' / 'rows' for the part lists."""
        e = strip_refs(e)
        while e[0] == "deref":
            e = strip_refs(e[1])
        if e[0] == "call" and e[1].endswith("Index<I>>::index") and len(e[2]) == 2:
            base, ix = strip_refs(e[2][0]), strip_refs(e[2][1])
            if ix[0] == "const" and isinstance(ix[1], int) and field_of(base) == "fields":
                return ix[1]
        if e[0] == "call" and e[1].endswith("Iterator::collect"):
            sp = strip_refs(e[2][0])
            if sp[0] == "call" and sp[1].endswith("<impl str>::split") and len(sp[2]) == 2:
                sep = strip_refs(sp[2][1])
                if sep == ("char", " "):
                    return "fields"
                if sep == ("char", "/") and field_of(sp[2][0]) == 0:
                    return "rows"
        return None
    OPS = {"Eq": lambda a, k: a == k, "Ne": lambda a, k: a != k, "Lt": lambda a, k: a < k, "Le": lambda a, k: a <= k,
           "Gt": lambda a, k: a > k, "Ge": lambda a, k: a >= k}
    FLIP = {"Lt": "Gt", "Gt": "Lt", "Le": "Ge", "Ge": "Le", "Eq": "Eq", "Ne": "Ne"}
    n = 0
    for s in sorted(b.normal):
        if s not in b.reachable or b.term(s)["k"] != "switch":
            continue
        d = strip_refs(ex.switch_discr(s))
        if d[0] != "bin" or d[1] not in OPS:
            continue
        lhs, rhs, op = strip_refs(d[2]), strip_refs(d[3]), d[1]
        if lhs[0] == "const" and rhs[0] == "call":
            lhs, rhs, op = rhs, lhs, FLIP[op]
        if not (lhs[0] == "call" and lhs[1].endswith("::len") and rhs[0] == "const" and isinstance(rhs[1], int) and not isinstance(rhs[1], bool)):
            continue
        fld = field_of(lhs[2][0])
        if fld is None:
            continue
        lengths = {"fields": (6,), "rows": (8,)}.get(fld) or FIELD_LENGTHS.get(fld)
        if lengths is None:
            continue
        if fld == 3 and any("'-'" in str(dd) or '"-"' in str(dd) for dd, _v, _e, _s, _t in dominating_facts(b, ex, s)):
            lengths = (2,)       # under `field != "-"` only a square is left
        n += 1
        tt = b.term(s)
        rejected = []
        for L in lengths:
            truth = int(OPS[op](L, rhs[1]))
            tg = next((t_ for v, t_ in tt["cases"] if v == truth), tt["otherwise"])
            if not any(tg == o or b.reaches(tg, o) for o in ok_blocks):
                rejected.append(L)
        what = {"fields": "the number of fields", "rows": "the number of ranks"}.get(fld, "the length of field %s" % fld)
        ctx.ob("from_fen:length-test(%s %s %d)" % (str(fld), op, rhs[1]), not rejected, b.where(b.term_loc(s)),
               "`%s %s %d`: %s" % (what, op, rhs[1], "no well-formed value is rejected" if not rejected else
                   "a well-formed field of length %s is rejected (well-formed lengths: %d..%d) - a legal position's FEN is refused" % (rejected[:4], min(lengths), max(lengths))))
    # no floor: a reader without recognisable length tests rejects nothing by length (vacuously fine)
    ctx.info["R15.7"] = {"length_tests": n}
