"""R7.9 (C07 "nothing panics", C08 "stays responsive", C12 window discipline): the score arithmetic of
the search cannot overflow.

The search negates and shifts its window at every call (`-beta`, `-alpha - 1`, `-beta + 1`) and negates
every result (`-alpha_beta_search(..)`, `-quiesce(..)`).  In the build the repository ships for
development these are checked operations: one value equal to `i32::MIN`, or a window bound creeping by one
per level, panics the search thread (and the engine never answers `go`); without overflow checks the value
silently wraps to the wrong sign.  Nothing but the *ranges* of the window parameters and of the returned
scores keeps these operations safe, and those ranges are a property of the whole recursion, not of one call.

The argument decided here is an interprocedural interval induction over the search cone
{get_best_move, alpha_beta_search, quiesce}:

  hypothesis H  : one interval per i32 window parameter of alpha_beta_search and quiesce, one interval
                  for the value each of them returns;
  (found)         H is computed by Kleene iteration from the root call in get_best_move (no widening: the
                  iteration must close within ROUNDS rounds, otherwise no inductive window exists that this
                  analysis can express and the rule fails closed);
  (inductive)     under H, every argument passed at a call of either function from inside the cone lies
                  in H, and every value returned on any return block lies in H;
  (safe)          under H, every compiler-inserted overflow check on i32 arithmetic in the three bodies
                  is discharged.

The ply parameter is taken as `>= 0` (R7.7 proves that and its arithmetic); the evaluation's range comes
from analysing `get_evaluation` in context (its own bound is R14's obligation).  The check inspects MIR
of the `dev` configuration, where the overflow checks exist as `assert` terminators; in the release
configuration they are absent and the rule reports only the induction itself."""
from wa.mir import AnchorMissing, ShapeNotRecognised, callee_of
from wa.absint import Intervals, hull

ABS = "engine::alpha_beta_search"
GBM = "engine::get_best_move"
QUIESCE = "engine::quiesce"
I32_MAX = 2 ** 31 - 1
I32_MIN = -(2 ** 31)
ROUNDS = 12


def _ply_param(b):
    ps = [i for i in range(1, b.arg_count + 1) if b.local_ty(i) == "i32" and b.names.get(i, "").startswith("ply")]
    return ps[0] if len(ps) == 1 else None


def _window_params(b):
    ply = _ply_param(b)
    return [i for i in range(1, b.arg_count + 1) if b.local_ty(i) == "i32" and i != ply]


def _inside(a, h):
    return h is not None and a[0] >= h[0] and a[1] <= h[1]


def _clamp(a):
    return (max(a[0], I32_MIN), min(a[1], I32_MAX))


class _Cone:
    def __init__(self, f):
        self.f = f
        self.fns = [fn for fn in (ABS, QUIESCE) if f.has_body(fn)]
        if ABS not in self.fns or not f.has_body(GBM):
            raise AnchorMissing(ABS)
        self.params = {fn: _window_params(f.body(fn)) for fn in self.fns}
        self.ply = {fn: _ply_param(f.body(fn)) for fn in self.fns}
        self.H_arg = {fn: {p: None for p in self.params[fn]} for fn in self.fns}
        self.H_ret = {fn: None for fn in self.fns}
        self.iv = {}
        self.eval_assume = self._evaluation_range()

    EVAL = "evaluation::get_evaluation"

    def _evaluation_range(self):
        """|get_evaluation| < MATE_SCORE is what R14.2 (`bound:below-mate-window`) establishes from the
        piece-square tables; when that obligation is discharged on this tree its bound is used for the
        stand-pat score, otherwise the (coarse) in-context interval analysis of the evaluator is."""
        f = self.f
        if not f.has_body(self.EVAL) or not f.has_const("engine::MATE_SCORE"):
            return None
        try:
            from wa.rules import Ctx
            from . import evalrules
            c = Ctx(f, "R7.9-eval")
            c.rule = "R14.2"
            evalrules.r14_2(c)
            ok = [o for o in c.obs if o.key.endswith("bound:below-mate-window")]
            if ok and all(o.ok for o in ok):
                m = f.const_value("engine::MATE_SCORE")
                return (-(m - 1), m - 1)
        except Exception:
            return None
        return None

    def analyse(self, fn):
        b = self.f.body(fn)
        ai = {}
        if fn in self.fns:
            for p, h in self.H_arg[fn].items():
                if h is None:
                    return None
                ai[p] = h
            if self.ply[fn] is not None:
                ai[self.ply[fn]] = (0, I32_MAX)
        # a callee whose result is not known yet contributes nothing yet: (0,0) is only the seed of the
        # iteration - the final pass re-checks every call and return against the closed hypothesis
        ra = {g: (self.H_ret[g] if self.H_ret[g] is not None else (0, 0)) for g in self.fns}
        if self.eval_assume is not None:
            ra[self.EVAL] = self.eval_assume
        th = set()
        for h in list(ai.values()) + list(ra.values()):
            for x in h:
                th.update((x, -x, x + 1, x - 1, -x + 1, -x - 1))
        iv = Intervals(b, arg_intervals=ai, ret_assume=ra, thresholds=[x for x in th if I32_MIN <= x <= I32_MAX])
        self.iv[fn] = iv
        return iv

    def call_args(self, fn, iv):
        """[(callee, where, bb, {param: interval})] of the calls of cone functions in fn."""
        b = self.f.body(fn)
        out = []
        for g in self.fns:
            for bb, t in b.iter_calls(callee=g):
                st = iv.state_at(b.term_loc(bb))
                if st is None:
                    continue
                out.append((g, bb, {p: _clamp(iv.operand_iv(st, t["args"][p - 1])) for p in self.params[g]}))
        return out

    def returned(self, fn, iv):
        b = self.f.body(fn)
        r = None
        for rb in b.return_blocks():
            st = iv.state_at(b.term_loc(rb))
            if st is None:
                continue
            v = _clamp(iv.get(st, (0, ()), "i32"))
            r = v if r is None else hull(r, v)
        return r

    def round(self):
        changed = False
        for fn in [GBM] + self.fns:
            iv = self.analyse(fn)
            if iv is None:
                continue
            for g, _bb, args in self.call_args(fn, iv):
                for p, a in args.items():
                    h = self.H_arg[g][p]
                    n = a if h is None else hull(h, a)
                    if n != h:
                        self.H_arg[g][p] = n
                        changed = True
            if fn in self.fns:
                r = self.returned(fn, iv)
                if r is not None:
                    h = self.H_ret[fn]
                    n = r if h is None else hull(h, r)
                    if n != h:
                        self.H_ret[fn] = n
                        changed = True
        return changed


def r7_9(ctx):
    f = ctx.facts
    cone = _Cone(f)
    ctx.note_fn(GBM, *cone.fns)
    closed = False
    rounds = 0
    for rounds in range(1, ROUNDS + 1):
        if not cone.round():
            closed = True
            break

    def fmt(h):
        return "none" if h is None else "[%s, %s]" % h
    hyp = "; ".join("%s(%s) -> %s" % (fn.split("::")[-1], ", ".join("%s in %s" % (f.body(fn).names.get(p, "_%d" % p), fmt(cone.H_arg[fn][p])) for p in cone.params[fn]), fmt(cone.H_ret[fn])) for fn in cone.fns)
    ctx.info["R7.9"] = {"hypothesis": hyp, "rounds": rounds, "evaluation_range": cone.eval_assume or "in-context interval analysis of get_evaluation (R14.2's bound not available)"}
    ctx.ob("window-induction:closes", closed, f.body(ABS).where((0, 0)),
           ("H after %d rounds: %s" % (rounds, hyp)) if closed else
           "the window/score intervals keep growing after %d rounds (%s): some bound of the window moves by a fixed amount per level of the recursion with nothing to stop it, so the checked arithmetic on it overflows on a deep enough line" % (ROUNDS, hyp))
    unreached = [p for p in cone.params[ABS] if cone.H_arg[ABS][p] is None]
    nbad0 = sum(1 for o in ctx.obs if not o.ok)
    # final pass under the closed hypothesis: (inductive) and (safe)
    nsafe = 0
    ncall = 0
    for fn in [GBM] + cone.fns:
        iv = cone.analyse(fn)
        if iv is None:
            continue       # quiesce never called: nothing to show
        b = f.body(fn)
        short = fn.split("::")[-1]
        k = {}
        for g, bb, args in sorted(cone.call_args(fn, iv), key=lambda x: x[1]):
            ncall += 1
            gs = g.split("::")[-1]
            k[gs] = k.get(gs, 0) + 1
            gb = f.body(g)
            bad = ["%s = [%s, %s] outside %s" % (gb.names.get(p, "_%d" % p), a[0], a[1], fmt(cone.H_arg[g][p])) for p, a in sorted(args.items()) if not _inside(a, cone.H_arg[g][p])]
            ctx.ob("%s:call-%s#%d:window-in-hypothesis" % (short, gs, k[gs]), not bad, b.where(b.term_loc(bb)),
                   "; ".join(bad) if bad else "window passed down: " + ", ".join("%s in [%s, %s]" % (gb.names.get(p, "_%d" % p), a[0], a[1]) for p, a in sorted(args.items())))
        if fn in cone.fns:
            r = cone.returned(fn, iv)
            ok = r is None or _inside(r, cone.H_ret[fn])
            ctx.ob("%s:returned-score-in-hypothesis" % short, ok, b.where((0, 0)),
                   "returns [%s, %s], hypothesis %s" % ((r or ("-", "-"))[0], (r or ("-", "-"))[1], fmt(cone.H_ret[fn])))
            h = cone.H_ret[fn]
            if h is not None:
                # every caller negates the result
                ctx.ob("%s:returned-score-negatable" % short, h[0] > I32_MIN, b.where((0, 0)),
                       "returned scores lie in %s%s" % (fmt(h), "" if h[0] > I32_MIN else ": i32::MIN can be returned and its negation overflows"))
        ko = 0
        for bb in sorted(b.normal):
            if bb not in b.reachable:
                continue
            t = b.term(bb)
            if t["k"] != "assert" or not t["assert_kind"].startswith("overflow"):
                continue
            ops = t["ops"]
            ty = ops[0].get("ty") or ops[0].get("place", {}).get("ty")
            if ty != "i32":
                continue
            ko += 1
            nsafe += 1
            ok, d = iv.assert_holds(bb)
            ctx.ob("%s:i32-arithmetic#%d" % (short, ko), ok, b.where(b.term_loc(bb)),
                   d if ok else "`%s`: %s - under the inductive window %s this operation can overflow: the search thread panics in a build with overflow checks, the score wraps to the wrong sign otherwise" % (
                       b.text_at(b.term_loc(bb))[:60], d, hyp))
    if unreached:
        # the root call is not reached by the analysis: either a checked operation before it always fails
        # (reported above as its own obligation) or the call has a shape this rule does not read
        if sum(1 for o in ctx.obs if not o.ok) == nbad0:
            raise ShapeNotRecognised("alpha_beta_search is not called from get_best_move with interval-valued window arguments")
        return
    ctx.floor("calls into the search cone", ncall, 4)
    if f.meta.get("config", "dev") == "dev":
        ctx.floor("checked i32 operations in the search cone", nsafe, 10)
    ctx.info["R7.9"]["i32_overflow_checks"] = nsafe


# ------------------------------------------------------------------------------------------------
PANICKING_TAKES = ("Result::<T, E>::unwrap", "Result::<T, E>::expect", "Option::<T>::unwrap", "Option::<T>::expect")
PANIC_ENTRIES = ("core::panicking::panic", "core::panicking::panic_fmt", "core::panicking::assert_failed", "std::rt::begin_panic",
                 "core::panicking::panic_explicit", "core::panicking::unreachable_display", "core::panicking::panic_display",
                 "std::rt::panic_fmt", "core::option::unwrap_failed", "core::result::unwrap_failed", "core::option::expect_failed")


def r7_10(ctx):
    """Explicit-panic census of the search thread: in every crate-local function reachable from
    get_best_move, a call that panics by design - `unwrap`/`expect` of an Option or Result, `panic!`,
    `assert!`, `unreachable!` - kills the search thread before or between its sends; the `go` is then
    answered with a null move (or not at all) although legal moves exist.  Each such call must be discharged:
      S1  `Sender::send(..).unwrap()` - the receiver lives in the `go` handler for the whole search
          (its wait loop only ends after the search thread is done or has hung up; R8.1);
      D1  `x.unwrap()` where the block is dominated by the `Some`/`Ok` edge of a test of the same value;
      D2  `x.unwrap()` where every definition of x reaching the call is a `Some(..)`/`Ok(..)` literal.
    Anything else is reported at its call site.  (Compiler-inserted checks - overflow, bounds, division -
    are R7.7, R7.9 and R14.2's obligations; this rule covers the explicit ones.)"""
    from wa import callgraph
    from wa.expr import Exprs, strip_refs, subexprs
    f = ctx.facts
    if not f.has_body(GBM):
        raise AnchorMissing(GBM)
    cg = callgraph.get(f)
    cone = sorted(cg.cone(GBM))
    ctx.floor("functions reachable from get_best_move", len(cone), 15)
    n = 0
    nsend = 0
    for fn in cone:
        b = f.body(fn)
        ctx.note_fn(fn)
        ex = None
        k = 0
        for bb, t in sorted(b.iter_calls()):
            if bb not in b.reachable:
                continue
            c = callee_of(t) or ""
            if b.from_expansion(b.term_loc(bb)) if hasattr(b, "from_expansion") else False:
                pass
            is_take = any(c.endswith(x) for x in PANICKING_TAKES)
            is_panic = any(c == x or c.startswith(x + "::") or c.startswith(x + "<") for x in PANIC_ENTRIES)
            if not (is_take or is_panic):
                continue
            n += 1
            k += 1
            short = fn.split("::", 1)[-1]
            where = b.where(b.term_loc(bb))
            text = b.text_at(b.term_loc(bb))[:70]
            if is_panic:
                # a panic entry reached only from a failed compiler-inserted check never appears as a call;
                # what is left here is panic!/assert!/unreachable! written in the source
                d3 = _empty_arm_of_nonempty_list(b, bb)
                if d3:
                    ctx.ob("%s:explicit-panic#%d" % (short, k), True, where, d3)
                    continue
                ctx.ob("%s:explicit-panic#%d" % (short, k), False, where,
                       "`%s`: an explicit panic on a path of the search thread - when it fires the search dies without handing a move back" % text)
                continue
            ex = ex or Exprs(b)
            args = ex.call_args(bb)
            x = strip_refs(args[0]) if args else None
            how = None
            if x is not None and x[0] == "call" and x[1].endswith("Sender::<T>::send"):
                how = "S1: result of Sender::send (receiver outlives the search, R8.1)"
                nsend += 1
            if how is None and x is not None:
                for s in b.normal:
                    if s not in b.reachable or b.term(s)["k"] != "switch":
                        continue
                    d = ex.switch_discr(s)
                    if d[0] == "discr" and strip_refs(d[1]) == x:
                        tt = b.term(s)
                        good = [tg for val, tg in tt["cases"] if val == (1 if "Option" in c else 0)]
                        if any(tg == bb or b.edge_dominates((s, tg), bb) for tg in good):
                            how = "D1: dominated by the %s edge of a test of the same value at %s" % ("Some" if "Option" in c else "Ok", b.where(b.term_loc(s)))
                            break
            if how is None and x is not None and x[0] == "call" and any(x[1].endswith(y) for y in FIRST_TAKES):
                how = _nonempty_guard(b, ex, bb, x[2][0])
            if how is None and x is not None and x[0] == "agg" and len(x) > 2 and x[2] in ("Some", "Ok"):
                how = "D2: the value is a `%s(..)` literal on every path" % x[2]
            ctx.ob("%s:%s#%d" % (short, c.split("::")[-1], k), how is not None, where,
                   how or "`%s`: nothing on the way to this call establishes that the value is present - when it is not, the search thread panics and no move (or a null move) answers the `go`" % text)
    ctx.info["R7.10"] = {"cone": len(cone), "panicking_calls": n, "send_unwraps": nsend}
    ctx.floor("panicking calls found in the search cone (the two send().unwrap() at least)", n, 1)


def r3_7(ctx):
    """Every root move is searched in every pass (C03 "exactly one legal bestmove", C08): in get_best_move,
    once the iterator over the root moves has yielded a move, every path back to the next `next()` passes
    a call of alpha_beta_search on the way (paths through an expired-clock edge excepted: the clock exit
    sends the fallback and returns).  A `continue` before the search - a root move judged
    uninteresting without being scored - means that move is never accepted and never sent; when all root
    moves are skipped that way the search ends without a move and the `go` is answered with a null move."""
    from wa.expr import Exprs
    from wa import loopform
    f = ctx.facts
    if not f.has_body(GBM) or not f.has_body(ABS):
        raise AnchorMissing(GBM)
    b = f.body(GBM)
    ctx.note_fn(GBM)
    ex = Exprs(b)
    abs_calls = {bb for bb, _t in b.iter_calls(callee=ABS)}
    if not abs_calls:
        # the pass over the root moves may live in a helper (one deepening pass split off): follow one level
        for bb, t in b.iter_calls():
            c = t.get("resolved") or callee_of(t) or ""
            if f.has_body(c) and any(True for _ in f.body(c).iter_calls(callee=ABS)):
                b = f.body(c)
                ex = Exprs(b)
                ctx.note_fn(c)
                abs_calls = {bb2 for bb2, _t in b.iter_calls(callee=ABS)}
                break
    if not abs_calls:
        raise ShapeNotRecognised("get_best_move: no call of alpha_beta_search found (directly or one helper deep)")
    n = 0
    for x, call, some, none in loopform.next_switches(b, ex):
        if some is None:
            continue
        # the loop whose body contains a search call: iterator over boards
        if "BoardState" not in str(ex.switch_discr(x)[2]):
            continue        # a loop over depths (`for d in 1..MAX_DEPTH`) or anything else that does not yield positions
        loops = [b.natural_loop(h) for _e, h in b.back_edges()]
        mine = [L for L in loops if x in L]
        if not mine:
            continue
        body_ = min(mine, key=len)
        if not (abs_calls & set(body_)):
            continue
        # blocks that evaluate this `next()` again: predecessors of the switch that are calls of next
        heads = {bb for bb, t in b.iter_calls() if (callee_of(t) or "").endswith("::next") and t.get("target") == x}
        if not heads:
            heads = {x}
        inner = [h for h in heads]
        n += 1
        # the clock exit may leave the iteration any way it likes (it sends the fallback and returns, or
        # reports "expired" to its caller): paths through an `out_of_time(..) == true` edge are not skips
        expired = set()
        for s_ in b.normal:
            if s_ in b.reachable and b.term(s_)["k"] == "switch":
                d_ = ex.switch_discr(s_)
                while d_[0] in ("ref", "deref"):
                    d_ = d_[1]
                if d_[0] == "call" and d_[1].endswith("out_of_time"):
                    tt_ = b.term(s_)
                    cases_ = dict(tt_["cases"])
                    expired.add((s_, cases_[1] if 1 in cases_ else tt_["otherwise"]))
        skip = any(b.reaches(some, h, removed_nodes=abs_calls, removed_edges=expired) for h in inner)
        ctx.ob("%s:root-loop#%d:every-yielded-move-is-searched" % (b.name.split("::")[-1] if hasattr(b, "name") else "get_best_move", n), not skip, b.where(b.term_loc(x)),
               "from the `Some` edge of the root iterator every path to the next `next()` passes a call of alpha_beta_search" + ("" if not skip else
               ": NOT so - a path skips the search (a `continue` before it): that root move is never scored, accepted or sent; if every root move is skipped the `go` is answered with a null move although legal moves exist"))
    ctx.floor("root loops containing a search call", n, 1)


def _ids(e):
    from wa.expr import strip_refs, root_local, subexprs
    out = set()
    for x in subexprs(e):
        x = strip_refs(x)
        r = root_local(x)
        if r is not None:
            out.add(("local", r))
        if x[0] in ("var", "mem") and len(x) > 2:
            out.update(("site", site) for site, kind in x[2] if kind == "whole")
        if x[0] == "call" and len(x) > 3 and x[3] is not None:
            out.add(("site", x[3]))
    return out


FIRST_TAKES = ("::split_first", "::first", "::last", "::split_last")


def _nonempty_guard(b, ex, bb, list_expr):
    """A dominating `is_empty()` test of the same list (same local, or the same defining call) came out false."""
    from wa.expr import strip_refs
    from wa.cond import dominating_facts
    roots = _ids(list_expr)
    if not roots:
        return None
    for d, vals, excl, s, tg in dominating_facts(b, ex, bb):
        d0 = strip_refs(d)
        if d0[0] == "call" and d0[1].endswith("::is_empty"):
            false_edge = (vals == [0]) or (vals is None and excl == [1])
            if false_edge and _ids(d0[2][0]) & roots:
                return "D3: first-element access on a list that a dominating `is_empty()` test at %s found non-empty (the guard the indexing `xs[0]` relies on as well)" % b.where(b.term_loc(s))
    return None


def _empty_arm_of_nonempty_list(b, bb):
    """D3 for an explicit panic: it is the `None` arm of `xs.first()` / `split_first()` / `last()` /
    `split_last()` on a list that is known non-empty."""
    from wa.expr import Exprs, strip_refs
    from wa.cond import dominating_facts
    ex = Exprs(b)
    for d, vals, excl, s, tg in dominating_facts(b, ex, bb):
        d0 = strip_refs(d)
        if d0[0] == "discr" and strip_refs(d0[1])[0] == "call" and any(strip_refs(d0[1])[1].endswith(x) for x in FIRST_TAKES):
            if (vals == [0]) or (vals is None and excl == [1]):
                r = _nonempty_guard(b, ex, bb, strip_refs(d0[1])[2][0])
                if r:
                    return r
    return None


def r11_7(ctx):
    """The root identifies "the best move of the last pass" by the whole move descriptor (C11 "a mate in one
    is always played", C03/C07 "the move handed back when time runs out is the best known one"): every pass
    over the root moves starts with alpha at its floor, so the *first* root move of a pass is accepted and
    sent whatever it is worth.  That is safe only because the previous pass's best move is ordered first -
    and the four promotions of one pawn step share (from, to): a comparison of two positions' `last_move`
    that selects the move to be ordered first must also compare `pawn_promotion`, otherwise the pass
    starts with the queen promotion when the under-promotion was best (e.g. a knight promotion that
    mates), and a clock expiry before that move is re-found plays the wrong one."""
    from wa.expr import Exprs, strip_refs, root_local, subexprs
    f = ctx.facts
    if not f.has_body(GBM):
        raise AnchorMissing(GBM)
    n = 0
    cands = [GBM] + sorted(x for x in f.body_names() if x.startswith(GBM + "::{closure"))
    for fn in cands:
        b = f.body(fn)
        ctx.note_fn(fn)
        ex = Exprs(b)

        def field_cmp(d, name):
            """roots (a, b) when d is `x.<name> == y.<name>` on two different position values."""
            d = strip_refs(d)
            if d[0] == "call" and "PartialEq" in d[1] and d[1].endswith("::eq") and len(d[2]) == 2:
                l, r = strip_refs(d[2][0]), strip_refs(d[2][1])
            elif d[0] == "bin" and d[1] == "Eq":
                l, r = strip_refs(d[2]), strip_refs(d[3])
            else:
                return None
            if l[0] == "field" and r[0] == "field" and l[2] == name and r[2] == name:
                return (l[1], r[1])
            # one side a field of a position, the other a value that was read from such a field earlier
            # (`let best_root_move = mov.last_move; .. if mov.last_move == best_root_move`)
            for a_, b_ in ((l, r), (r, l)):
                if a_[0] == "field" and a_[2] == name and b_[0] in ("var", "mem", "arg"):
                    from wa.expr import data_slice
                    if any(strip_refs(x)[0] == "field" and strip_refs(x)[2] == name for x in data_slice(ex, b_)):
                        return (a_[1], b_)
            return None
        sw = []
        for s in sorted(b.normal):
            if s in b.reachable and b.term(s)["k"] == "switch":
                sw.append((s, ex.switch_discr(s)))
        promo = [(s, field_cmp(d, "pawn_promotion")) for s, d in sw if field_cmp(d, "pawn_promotion")]
        for s, d in sw:
            lm = field_cmp(d, "last_move")
            if not lm:
                continue
            n += 1
            tt = b.term(s)
            cases = dict(tt["cases"])
            true_t = tt["otherwise"] if 0 in cases and 1 not in cases else cases.get(1, tt["otherwise"])
            # writes of the ordering key control-dependent on the comparison
            eff = [loc for loc, st in b.iter_stmts() if st["k"] == "assign" and any(p.get("name") == "order_heuristic" for p in st["place"]["proj"] if p["k"] == "field")
                   and (loc[0] == true_t or b.edge_dominates((s, true_t), loc[0]))]
            if not eff and "{closure" in fn:
                # a predicate handed to find/position/any: its answer *is* the selection
                rt = b.local_ty(0)
                if rt == "bool":
                    okc = bool(promo)
                    for bb2, t2 in b.iter_calls():
                        try:
                            if field_cmp(ex.call_expr(t2, b.term_loc(bb2)), "pawn_promotion"):
                                okc = True
                        except Exception:
                            pass
                    ctx.ob("%s:best-move-identified-by-whole-descriptor#%d" % (fn.split("::", 1)[-1], n), okc, b.where(b.term_loc(s)),
                           "the predicate that finds the previous best root move compares `last_move`%s" % (" and `pawn_promotion`" if okc else
                           " alone: the four promotions of one pawn step are indistinguishable (see R11.7)"))
                continue
            if not eff:
                continue
            ok = False
            for s2, pr in promo:
                tt2 = b.term(s2)
                c2 = dict(tt2["cases"])
                t2 = tt2["otherwise"] if 0 in c2 and 1 not in c2 else c2.get(1, tt2["otherwise"])
                if all(loc[0] == t2 or b.edge_dominates((s2, t2), loc[0]) for loc in eff):
                    ok = True
            ctx.ob("%s:best-move-identified-by-whole-descriptor#%d" % (fn.split("::")[-1], n), ok, b.where(b.term_loc(s)),
                   "the move ordered first in the next pass is selected by `last_move`%s" % (" and `pawn_promotion`" if ok else
                   " alone: the four promotions of one pawn step are indistinguishable, so after an under-promotion was best (a knight promotion that mates) the next pass starts with - accepts and sends - the queen promotion; an expiry before the real best move is re-found plays it"))
    if n == 0:
        ctx.ob("get_best_move:best-move-identification", True, f.body(GBM).file, "no comparison of `last_move` selects a root move (whole positions or indices are used)", nontrivial=False)


def r12_8(ctx):
    """The remaining depth is extended only at the horizon (C12 "shallow search returns the exact minimax
    value of its own evaluation"): the reference the property compares with searches every line to the same
    nominal depth, extended only when the side to move is in check at depth 0.  Every write to the depth
    parameter of alpha_beta_search must therefore be dominated by the `depth == 0` edge; any other extension
    or reduction of the node's own depth (single-reply extensions, late-move reductions) changes the values
    of the shallow iterations."""
    from wa.expr import Exprs, strip_refs
    from wa.cond import dominating_facts
    f = ctx.facts
    if not f.has_body(ABS):
        raise AnchorMissing(ABS)
    b = f.body(ABS)
    ctx.note_fn(ABS)
    ex = Exprs(b)
    dps = [i for i in range(1, b.arg_count + 1) if b.local_ty(i) == "u8"]
    if len(dps) != 1:
        raise ShapeNotRecognised("alpha_beta_search: expected one u8 depth parameter, found %d" % len(dps))
    dp = dps[0]
    n = 0
    for loc, st in b.iter_stmts():
        if st["k"] != "assign" or st["place"]["local"] != dp or st["place"]["proj"] or loc[0] not in b.reachable:
            continue
        n += 1
        at_horizon = False
        for d, vals, excl, s, tg in dominating_facts(b, ex, loc[0]):
            d0 = strip_refs(d)
            if d0[0] == "bin" and d0[1] in ("Eq", "Ne"):
                x, y = strip_refs(d0[2]), strip_refs(d0[3])
                if y[0] != "const":
                    x, y = y, x
                if y == ("const", 0) and x[0] in ("arg", "var") and x[1] == dp:
                    is_true = (vals == [1]) or (vals is None and excl == [0])
                    if (d0[1] == "Eq") == is_true:
                        at_horizon = True
        ctx.ob("alpha_beta_search:depth-write#%d:only-at-horizon" % n, at_horizon, b.where(loc),
               "`%s` %s" % (b.text_at(loc)[:60], "happens under `depth == 0` (the check extension at the horizon)" if at_horizon else
               "changes the remaining depth of a node away from the horizon: lines are no longer searched to the nominal depth, the values of the shallow iterations differ from the reference minimax"))
    ctx.info["R12.8"] = {"depth_writes": n}


FAPBM = "uci::find_and_play_best_move"


def r11_8(ctx):
    """The move played is the last one the search sent (C11 "a mate in one is always played", C07 "hands back
    the best move found so far"): the `go` handler polls the channel and naps between polls; when it wakes up
    after the deadline, moves accepted and sent by the search in the meantime are still queued.  Between
    finding the deadline passed and playing, the handler must observe the channel *empty or hung up*:
    every path from an `out_of_time(..) == true` edge to the call that prints the best move passes the
    `Err` edge of a `try_recv()` (or a blocking `recv` that failed).  A handler that leaves its wait loop
    on "deadline passed and I hold some move" plays a stale one."""
    from wa.expr import Exprs, strip_refs
    f = ctx.facts
    if not f.has_body(FAPBM):
        raise AnchorMissing(FAPBM)
    b = f.body(FAPBM)
    ctx.note_fn(FAPBM)
    ex = Exprs(b)
    plays = [bb for bb, t in b.iter_calls() if (callee_of(t) or "").endswith("send_best_move_to_gui")]
    if not plays:
        # the printing of the move was inlined: every way out of the handler is then "playing"
        plays = list(b.return_blocks())
    if not plays:
        raise ShapeNotRecognised("find_and_play_best_move: no call of send_best_move_to_gui and no return")
    expired = []
    empty_edges = set()
    for s in sorted(b.normal):
        if s not in b.reachable or b.term(s)["k"] != "switch":
            continue
        d = strip_refs(ex.switch_discr(s))
        tt = b.term(s)
        cases = dict(tt["cases"])
        if d[0] == "discr" and strip_refs(d[1])[0] == "call" and any(strip_refs(d[1])[1].endswith(x) for x in ("::try_recv", "::recv", "::recv_timeout")):
            # Result discriminant: 0 = Ok, 1 = Err
            if 1 in cases:
                empty_edges.add((s, cases[1]))
            elif 0 in cases and b.blocks[tt["otherwise"]]["term"]["k"] != "unreachable":
                empty_edges.add((s, tt["otherwise"]))
    # edges that say "the clock has expired" (the call of out_of_time, its negation, a named boolean built
    # from it, a clock object's method, or the comparison it stands for: rules/search.py::clock_test)
    from wa.implied import implying_edges
    from .search import clock_test
    for s, tg, (e, truth), fresh, lastdefs in implying_edges(b, ex, lambda e, t: clock_test(e, t) is not None):
        ct = clock_test(e, truth)
        if ct[0] is True and (s, tg) not in expired:
            expired.append((s, tg))
    if not expired:
        raise ShapeNotRecognised("find_and_play_best_move: no test of the deadline (out_of_time or its spellings)")
    n = 0
    for s, tg in expired:
        for p in plays:
            if not (tg == p or b.reaches(tg, p)):
                continue
            n += 1
            stale = b.reaches(tg, p, removed_edges=empty_edges)
            ctx.ob("find_and_play_best_move:expired#%d:queue-observed-empty-before-playing" % n, not stale, b.where(b.term_loc(s)),
                   "after the deadline test at this line came out true, every path to `send_best_move_to_gui` sees `try_recv()` fail first (queue empty or hung up)" + ("" if not stale else
                   ": NOT so - the handler can leave on 'deadline passed and a move in hand' while newer moves are still queued: when its nap overshoots (it always can), a move the search accepted and announced - a mate in one - is not the one played"))
    ctx.floor("deadline tests on the way to playing a move", n, 1)
