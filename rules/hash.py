"""Hash coherence (C05; shared with C04 and C13): R5.1 helpers keep key and state in step,
R5.2 every raw write of a hashed component outside the helpers is paired with its XOR in the same
control region, R5.3 no orphan XOR, R5.4 from_fen builds the key from scratch, R5.5 getters are
injective."""
from wa.mir import AnchorMissing, ShapeNotRecognised, callee_of, operand_alias
from wa.expr import Exprs, show_expr, strip_refs, subexprs, root_local, data_slice
from wa.paths import enum_paths, decision_truth
from wa.cond import dominating_facts, bool_facts, enum_value_on_trace
from wa import callgraph

BS = "board::BoardState"
SWAP = "board::BoardState::swap_color"
TAKE = "board::BoardState::take_away_castling_rights"
UNSET = "board::BoardState::unset_pawn_double_move"
MOVE = "board::BoardState::move_piece"
HELPERS = (SWAP, TAKE, UNSET, MOVE)
FROM_FEN = "board::BoardState::from_fen"
G_PIECE = "zobrist::ZobristHasher::get_val_for_piece"
G_CASTLE = "zobrist::ZobristHasher::get_val_for_castling"
G_EP = "zobrist::ZobristHasher::get_val_for_en_passant"
G_SIDE = "zobrist::ZobristHasher::get_black_to_move_val"
FLAG_VARIANT = {"white_king_side_castle": "WhiteKingSide", "white_queen_side_castle": "WhiteQueenSide",
                "black_king_side_castle": "BlackKingSide", "black_queen_side_castle": "BlackQueenSide"}
HASHED = {"board", "to_move", "pawn_double_move"} | set(FLAG_VARIANT)
PRODUCER_ROOTS = ("uci::play_out_position", "move_generation::generate_moves")


from wa.cond import canon


def xor_terms(e):
    """Flatten a BitXor tree into its leaves."""
    if e[0] == "bin" and e[1] == "BitXor":
        return xor_terms(e[2]) + xor_terms(e[3])
    return [e]


def classify_term(t):
    t = strip_refs(t)
    if t[0] == "call":
        if t[1] == G_PIECE:
            return ("piece", t[2][1], t[2][2])
        if t[1] == G_CASTLE:
            return ("castle", t[2][1])
        if t[1] == G_EP:
            return ("ep", t[2][1])
        if t[1] == G_SIDE:
            return ("side",)
    return ("other", t)


def place_root(b, p):
    """Key of the BoardState object a place belongs to, with the remaining projection; or None."""
    l = p["local"]
    proj = p["proj"]
    ty = b.local_ty(l)
    if ty == BS:
        return ("local", l), proj
    if ty in ("&mut " + BS, "&" + BS) and proj and proj[0]["k"] == "deref":
        # a pointer that is a copy / reborrow of another one (the parameter of an inlined helper) names
        # the same object: report the pointer it came from
        from wa.mir import alias_of
        r, mode, pr0 = alias_of(b, l)
        if mode == "val" and not pr0 and r != l and b.local_ty(r) in ("&mut " + BS, "&" + BS):
            return ("ptr", r), proj[1:]
        if mode == "ref" and b.local_ty(r) == BS:
            return ("local", r), list(pr0) + list(proj[1:])
        return ("ptr", l), proj[1:]
    if ty.startswith("&mut ") and proj and proj[0]["k"] == "deref":
        # a pointer into a BoardState (`let flag = &mut self.white_king_side_castle; *flag = false`)
        from wa.mir import alias_of
        r, mode, pr0 = alias_of(b, l)
        if mode == "ptrref" and b.local_ty(r) in ("&mut " + BS,):
            return ("ptr", r), list(pr0) + list(proj[1:])
        if mode == "ref" and b.local_ty(r) == BS:
            return ("local", r), list(pr0) + list(proj[1:])
    return None, None


class Events:
    """Raw writes of hashed components and key XORs in one body."""

    def __init__(self, b):
        self.b = b
        self.ex = Exprs(b)
        self.writes = []   # (loc, root, kind, detail...)
        self.xors = []     # (loc, root, [terms], self_xor)
        ex = self.ex
        for loc, st in b.iter_stmts():
            if st["k"] != "assign":
                continue
            root, proj = place_root(b, st["place"])
            if root is None or not proj or proj[0]["k"] != "field":
                continue
            f = proj[0]["name"]
            if f == "zobrist_key":
                e = ex.rvalue(st["rv"], loc)
                terms = xor_terms(e)
                cur = ex.place(st["place"], loc)
                selfx = [t for t in terms if t == cur]
                rest = [t for t in terms if t != cur]
                self.xors.append((loc, root, [classify_term(t) for t in rest], len(selfx) == 1))
            elif f in HASHED:
                v = ex.rvalue(st["rv"], loc)
                if f == "board":
                    idx = [ex.local(e["local"], loc) for e in proj[1:] if e["k"] == "index"]
                    cidx = [("const", e["offset"]) for e in proj[1:] if e["k"] == "cindex"]
                    self.writes.append((loc, root, "sq", tuple(idx + cidx), v))
                else:
                    self.writes.append((loc, root, f, None, v))
        # std mutators through `&mut place`: `self.field.take()` stores None, `mem::replace(&mut P, v)`
        # stores v (both hand back the old value, which Exprs models as a read of P before the call)
        from wa.mir import alias_of as _alias_of
        for bb, t in b.iter_calls():
            c = callee_of(t) or ""
            if c.endswith("Option::<T>::take") and t["args"]:
                newv = ("agg", "std::option::Option", "None", ())
            elif c in ("std::mem::replace", "core::mem::replace") and len(t["args"]) == 2:
                newv = ex.operand(t["args"][1], b.term_loc(bb))
            else:
                continue
            a = t["args"][0]
            if a.get("k") not in ("copy", "move") or a["place"]["proj"]:
                continue
            r, mode, pr = _alias_of(b, a["place"]["local"])
            root = None
            if mode == "ptrref" and b.local_ty(r) in ("&mut " + BS,):
                root = ("ptr", r)
            elif mode == "ref" and b.local_ty(r) == BS:
                root = ("local", r)
            if root is None or not pr or pr[0]["k"] != "field" or pr[0]["name"] not in HASHED:
                continue
            loc = b.term_loc(bb)
            if pr[0]["name"] == "board":
                idx = [ex.local(e["local"], loc) for e in pr[1:] if e["k"] == "index"]
                cidx = [("const", e["offset"]) for e in pr[1:] if e["k"] == "cindex"]
                self.writes.append((loc, root, "sq", tuple(idx + cidx), newv))
            elif len(pr) == 1:
                self.writes.append((loc, root, pr[0]["name"], None, newv))


def _same_sq(pt, idx):
    """(row, col) expressions equal up to reference / dereference nodes."""
    return len(idx) == 2 and canon(pt[0]) == canon(idx[0]) and canon(pt[1]) == canon(idx[1])


def control_equivalent(b, x, y):
    if x == y:
        return True
    return (b.node_dominates(x, y) and b.postdominates(y, x)) or (b.node_dominates(y, x) and b.postdominates(x, y))


def point_of(e):
    """(row, col) expressions of a Point-valued expression, if it is a literal `Point(r, c)` or a
    value whose fields can be named."""
    e = strip_refs(e)
    if e[0] == "agg" and e[1] == "board::Point" and len(e[3]) == 2:
        return e[3][0], e[3][1]
    return ("field", e, "0"), ("field", e, "1")


def _scope(facts):
    cg = callgraph.get(facts)
    fns = set()
    for r in PRODUCER_ROOTS:
        if not facts.has_body(r):
            raise AnchorMissing("producer %s not found" % r)
        fns |= cg.cone(r)
    return sorted(f for f in fns if f not in HELPERS and f != FROM_FEN and not f.startswith("<"))


def _is_mover_colour(b, e):
    """Expressions that denote the colour of the side making the move in a producer."""
    e = strip_refs(e)
    if e[0] == "field" and e[2] == "color":
        base = strip_refs(e[1])
        if base[0] == "arg" and b.local_ty(base[1]) == "board::Piece":
            return True
        # colour of the piece read from the board (the piece being moved)
        if base[0] == "field" and base[2] == "0" and base[1][0] == "downcast" and base[1][2] == "Full":
            return True
    if e[0] == "field" and e[2] == "to_move":
        base = e[1]
        if base[0] == "deref" and base[1][0] == "arg" and b.local_ty(base[1][1]) == "&" + BS:
            return True      # the parent position (never mutated)
        if base[0] == "mem":
            # `(*board).to_move` of the board being updated: the mover's colour as long as swap_color
            # has not been applied yet
            for dloc, kind in base[2]:
                if kind == "entry":
                    continue
                bb, i = dloc
                if i >= len(b.stmts(bb)) and callee_of(b.term(bb)) == SWAP:
                    return False
            return True
    if e[0] == "arg" and b.local_ty(e[1]) == "board::PieceColor":
        return True          # colour parameter of a producer helper (e.g. promote_pawn)
    return False


def removed_piece_ok(f, b, ex, loc, idx, piece_e):
    """The piece XORed out when a square is emptied by a raw write (en-passant capture) must be the
    piece that stands there: either read from that square, or a pawn of the *opponent's* colour."""
    pe = strip_refs(piece_e)
    if pe[0] == "field" and pe[2] == "0" and pe[1][0] == "downcast" and pe[1][2] == "Full":
        sqe = strip_refs(pe[1][1])
        if sqe[0] == "index" and sqe[1][0] == "index" and (sqe[1][2], sqe[2]) == (idx[0], idx[1]):
            return True, "the piece is read from that square"
    if pe[0] == "call" and pe[1] == "board::Piece::pawn":
        c = strip_refs(pe[2][0])
        if c[0] == "call" and c[1] == "board::PieceColor::opposite":
            if _is_mover_colour(b, c[2][0]):
                return True, "a pawn of the opposite colour of the mover"
            return False, "pawn(opposite(%s)): `%s` is not the mover's colour" % (show_expr(c[2][0], b), show_expr(c[2][0], b))
        if c[0] == "agg" and c[1] == "board::PieceColor":
            colours = f.enum_variant_by_discr("board::PieceColor")
            # which mover colour is possible on this trace?
            cands = []
            for i in range(1, b.arg_count + 1):
                if b.local_ty(i) == "board::Piece":
                    cands.append(("field", ("arg", i), "color"))
                if b.local_ty(i) == "board::PieceColor":
                    cands.append(("arg", i))
            for m in cands:
                poss = enum_value_on_trace(b, ex, loc[0], m, colours)
                if len(poss) == 1:
                    mover = next(iter(poss))
                    ok = mover != c[2]
                    return ok, "pawn(%s) removed on the trace where the mover is %s%s" % (c[2], mover, "" if ok else ": that is the capturing side's own pawn colour")
            return False, "pawn(%s) with the mover's colour not fixed on this path" % c[2]
        if _is_mover_colour(b, c):
            return False, "pawn(%s): that is the colour of the capturing side, the pawn removed belongs to the other side" % show_expr(c, b)
        return False, "pawn(%s): cannot relate this colour to the mover" % show_expr(c, b)
    return False, "`%s` is neither the piece read from the square nor a pawn of the opponent" % show_expr(pe, b)[:80]


def _removed_piece_ok_per_colour(f, b, loc, root):
    """The piece XORed out at an emptied square, decided on the body specialised to each colour of the
    mover: `let (victim, sq) = match color { White => (pawn(Black), ..), Black => (pawn(White), ..) }`."""
    from wa.cond import specialise
    colours = f.enum_variant_by_discr("board::PieceColor")
    pp = [i for i in range(1, b.arg_count + 1) if b.local_ty(i) == "board::Piece"]
    if len(pp) != 1:
        return False, ""
    col_e = ("field", ("arg", pp[0]), "color")
    seen = 0
    for mover in sorted(colours.values()):
        other = [c for c in colours.values() if c != mover][0]
        b2, ex2, _dead = specialise(b, {col_e: ("eq", mover)}, {col_e: colours})
        if loc[0] not in b2.reachable:
            continue
        ev2 = Events(b2)
        w = [x for x in ev2.writes if x[0] == loc and x[1] == root and x[2] == "sq"]
        if len(w) != 1 or len(w[0][3]) != 2:
            return False, ""
        idx2 = w[0][3]
        terms = [t for xloc, xroot, ts, selfx in ev2.xors if xroot == root and selfx and control_equivalent(b2, loc[0], xloc[0])
                 for t in ts if t[0] == "piece" and _same_sq(point_of(t[2]), idx2)]
        if len(terms) != 1:
            return False, ""
        pe = strip_refs(terms[0][1])
        ok = False
        if pe[0] == "call" and pe[1] == "board::Piece::pawn":
            c = strip_refs(pe[2][0])
            if c[0] == "agg" and c[1] == "board::PieceColor":
                ok = c[2] == other
            elif c[0] == "call" and c[1] == "board::PieceColor::opposite":
                ok = _is_mover_colour(b2, c[2][0])
        if not ok:
            return False, ""
        seen += 1
    return seen == len(colours), "a pawn of the opposite colour of the mover (decided per mover colour)"


def r5_2(ctx):
    """R5.2 + R5.3 on every function of the producers' cones except the helpers and from_fen."""
    f = ctx.facts
    nw = nx = 0
    deferred_w, deferred_x = [], []
    for fn in _scope(f):
        b = f.body(fn)
        ev = Events(b)
        if not ev.writes and not ev.xors:
            continue
        ctx.note_fn(fn)
        ex = ev.ex
        short = fn.split("::")[-1]
        used = set()   # (xor index, term index)

        def find_term(root, wloc, pred):
            for xi, (xloc, xroot, terms, selfx) in enumerate(ev.xors):
                if xroot != root or not selfx or not control_equivalent(b, wloc[0], xloc[0]):
                    continue
                for ti, t in enumerate(terms):
                    if (xi, ti) in used:
                        continue
                    if pred(t):
                        used.add((xi, ti))
                        return xloc
            return None

        counts = {}
        for loc, root, kind, idx, v in ev.writes:
            nw += 1
            rn = b.lname(root[1])
            if kind == "sq":
                is_empty = v[0] == "agg" and v[2] == "Empty"
                is_full = v[0] == "agg" and v[2] == "Full"
                label = "W_sq(%s)%s" % (rn, "=Empty" if is_empty else "=Full")
                counts[label] = counts.get(label, 0) + 1
                key = "%s:%s#%d" % (short, label, counts[label])
                if len(idx) != 2:
                    ctx.ob(key, False, b.where(loc), "square write with an unrecognised index shape", reason="shape-not-recognised")
                    continue
                if is_empty:
                    got = []
                    x = find_term(root, loc, lambda t: t[0] == "piece" and _same_sq(point_of(t[2]), idx) and (got.append(t) or True))
                    if x is not None:
                        okp, whyp = removed_piece_ok(f, b, ex, loc, idx, got[-1][1])
                        if not okp:
                            okp2, whyp2 = _removed_piece_ok_per_colour(f, b, loc, root)
                            if okp2:
                                okp, whyp = okp2, whyp2
                        ctx.ob(key + ":piece", okp, b.where(x),
                               "piece XORed out for the emptied square (%s, %s): %s" % (show_expr(idx[0], b), show_expr(idx[1], b), whyp))
                    ctx.ob(key, x is not None, b.where(loc),
                           "`%s` empties square (%s, %s): %s" % (b.text_at(loc)[:60], show_expr(idx[0], b), show_expr(idx[1], b),
                                                                "the removed piece is XORed out at %s" % b.where(x) if x else
                                                                "no XOR of a piece at the same square in the same control region: key and placement drift apart"))
                elif is_full:
                    q = v[3][0]
                    x1 = find_term(root, loc, lambda t: t[0] == "piece" and canon(t[1]) == canon(q) and _same_sq(point_of(t[2]), idx))
                    x2 = find_term(root, loc, lambda t: t[0] == "piece" and strip_refs(t[1])[0] == "call" and strip_refs(t[1])[1] == "board::Piece::pawn"
                                   and _same_sq(point_of(t[2]), idx))
                    msg = "`%s` replaces the pawn on (%s, %s) by %s: needs XOR of the new piece (%s) and of the pawn (%s) at that square" % (
                        b.text_at(loc)[:60], show_expr(idx[0], b), show_expr(idx[1], b), show_expr(q, b)[:40],
                        "found" if x1 else "MISSING", "found" if x2 else "MISSING")
                    if x1 is not None and x2 is None and "::{closure#" in fn:
                        # the other half may have been done on the template this object is a copy of (see below)
                        deferred_w.append((fn, key, loc, root, idx, msg))
                    else:
                        ctx.ob(key, x1 is not None and x2 is not None, b.where(loc), msg)
                else:
                    ctx.ob(key, False, b.where(loc), "square written with a value that is neither Empty nor Full(..): %s" % show_expr(v, b)[:60],
                           reason="shape-not-recognised")
            elif kind == "pawn_double_move":
                if v[0] == "var":
                    # `let t = if .. { Some(p) } else { None }; if let Some(p) = t { b.target = t; key ^= ep(p.1) }`:
                    # under the dominating `t is Some` edge the merged value is its one Some literal
                    dv = ex._downcast(v, "Some")
                    if dv[0] == "downcast" and dv[1][0] == "agg" and dv[1][2] == "Some":
                        for d_, vals_, excl_, s_, tg_ in dominating_facts(b, ex, loc[0]):
                            if d_[0] == "discr" and canon(d_[1]) == canon(v) and vals_ == [1]:
                                v = dv[1]
                                break
                label = "W_ep(%s)" % rn
                counts[label] = counts.get(label, 0) + 1
                key = "%s:%s#%d" % (short, label, counts[label])
                if v[0] == "agg" and v[2] == "Some":
                    p = v[3][0]
                    pr, pc = point_of(p)
                    x = find_term(root, loc, lambda t: t[0] == "ep" and strip_refs(t[1]) == strip_refs(pc))
                    ctx.ob(key, x is not None, b.where(loc),
                           "`%s` sets the en-passant target: %s" % (b.text_at(loc)[:60], "its file is XORed in at %s" % b.where(x) if x else
                                                                   "no XOR of en_passant(file of that square) in the same control region"))
                else:
                    ctx.ob(key, False, b.where(loc), "raw write of pawn_double_move with `%s` outside unset_pawn_double_move: the key is not updated" % show_expr(v, b)[:50])
            else:
                label = "W_%s(%s)" % (kind, rn)
                counts[label] = counts.get(label, 0) + 1
                ctx.ob("%s:%s#%d" % (short, label, counts[label]), False, b.where(loc),
                       "raw write of hashed component `%s` outside its helper (%s): the key is not updated" % (
                           kind, "swap_color" if kind == "to_move" else "take_away_castling_rights"))
        # R5.3 orphan XOR terms
        for xi, (xloc, xroot, terms, selfx) in enumerate(ev.xors):
            nx += 1
            if not selfx:
                ctx.ob("%s:X(%s)@%d:not-an-update" % (short, b.lname(xroot[1]), xi), False, b.where(xloc),
                       "zobrist_key is overwritten, not XOR-updated: `%s`" % b.text_at(xloc)[:80])
                continue
            for ti, t in enumerate(terms):
                if (xi, ti) not in used:
                    deferred_x.append((fn, "%s:X(%s):orphan:%s#%d.%d" % (short, b.lname(xroot[1]), t[0], xi, ti), xloc, xroot, t,
                                       "XOR term `%s` has no matching state change in the same control region (doubled or stray update)" % (
                                           t[0] + "(" + ", ".join(show_expr(a, b)[:40] for a in t[1:] if isinstance(a, tuple)) + ")")))
    # A successor finished inside a closure from a template prepared by the enclosing function
    # (`let mut tpl = board.clone(); tpl.key ^= pawn@sq; v.extend(KINDS.iter().map(|k| { let mut nb = tpl.clone();
    # nb.board[sq] = Full(p); nb.key ^= p@sq; nb }))`): the copy inherits the template's pending XOR.  The template
    # must be a local that is only borrowed (never handed on by value, so never a successor itself), the XOR must
    # precede the closure, and the square must be the same one after translating the closure's captures.
    for (cfn, key, loc, root, idx, msg) in list(deferred_w):
        hit = _template_term(f, cfn, root, idx, deferred_x)
        if hit is not None:
            deferred_x.remove(hit)
            deferred_w.remove((cfn, key, loc, root, idx, msg))
            ctx.ob(key, True, f.body(cfn).where(loc), "the pawn was XORed out on the template this successor is a copy of (%s)" % f.body(hit[0]).where(hit[2]))
    for (cfn, key, loc, root, idx, msg) in deferred_w:
        ctx.ob(key, False, f.body(cfn).where(loc), msg)
    for (xfn, key, xloc, xroot, t, msg) in deferred_x:
        ctx.ob(key, False, f.body(xfn).where(xloc), msg)
    ctx.info["raw_writes"] = nw
    ctx.floor("raw writes of hashed components outside helpers", nw, 3)
    ctx.floor("XOR statements outside helpers", nx, 3)


def closure_translator(f, cfn):
    """For closure body `cfn`: (enclosing function name, its Body, location of the closure's construction,
    tr) where tr maps an expression of the closure to the enclosing function's expression for it (captures
    replaced by what was captured; None when it uses something that is not a capture)."""
    if "::{closure#" not in cfn:
        return None
    pfn = cfn[:cfn.index("::{closure#")]
    if not f.has_body(pfn):
        return None
    pb = f.body(pfn)
    pex = Exprs(pb)
    caps = cloc = None
    for loc, st in pb.iter_stmts():
        if st["k"] == "assign" and st["rv"]["k"] == "aggregate" and st["rv"].get("agg") == "closure" and st["rv"].get("closure") == cfn:
            caps = pex.rvalue(st["rv"], loc)[3]
            cloc = loc
    if caps is None:
        return None

    def tr(e):
        if not isinstance(e, tuple):
            return e
        if e[0] == "field" and isinstance(e[1], tuple) and e[1][0] in ("mem", "deref", "arg"):
            base = e[1]
            if base[0] == "deref":
                base = base[1]
            if (base[0] == "mem" and base[1] == 1) or base == ("arg", 1):
                try:
                    return caps[int(e[2])]
                except (ValueError, IndexError):
                    return None
        if e[0] in ("arg", "var", "mem"):
            return None
        out = []
        for x in e:
            y = tr(x) if isinstance(x, tuple) else x
            if isinstance(x, tuple) and y is None:
                return None
            out.append(y)
        return tuple(out)
    return pfn, pb, cloc, tr


def _template_term(f, cfn, root, idx, orphans):
    """For a raw Full write on object `root` inside closure `cfn`: the orphan XOR term (from `orphans`) of the
    enclosing function that removes a pawn at the same square from the template `root` was cloned from."""
    from wa.mir import alias_of
    if "::{closure#" not in cfn or root[0] != "local":
        return None
    pfn = cfn[:cfn.index("::{closure#")]
    if not f.has_body(pfn):
        return None
    cb, pb = f.body(cfn), f.body(pfn)
    cex, pex = Exprs(cb), Exprs(pb)
    # the closure's captures, as expressions of the enclosing function
    caps = None
    cloc = None
    for loc, st in pb.iter_stmts():
        if st["k"] == "assign" and st["rv"]["k"] == "aggregate" and st["rv"].get("agg") == "closure" and st["rv"].get("closure") == cfn:
            caps = pex.rvalue(st["rv"], loc)[3]
            cloc = loc
    if caps is None:
        return None

    def tr(e):
        """closure expression -> enclosing function's expression (None if it uses something not captured)"""
        if not isinstance(e, tuple):
            return e
        if e[0] == "field" and isinstance(e[1], tuple) and e[1][0] in ("mem", "deref", "arg"):
            base = e[1]
            if base[0] == "deref":
                base = base[1]
            if (base[0] == "mem" and base[1] == 1) or base == ("arg", 1):
                try:
                    return caps[int(e[2])]
                except (ValueError, IndexError):
                    return None
        if e[0] in ("arg", "var", "mem"):
            return None
        out = []
        for x in e:
            y = tr(x) if isinstance(x, tuple) else x
            if isinstance(x, tuple) and y is None:
                return None
            out.append(y)
        return tuple(out)
    # the object written is a clone of a captured template
    src = None
    for bb, t in cb.iter_calls():
        if (callee_of(t) or "").endswith("BoardState as std::clone::Clone>::clone") and not t["dest"]["proj"]:
            chain_ok = t["dest"]["local"] == root[1] or alias_of(cb, root[1])[0] == t["dest"]["local"]
            if chain_ok:
                a = tr(cex.call_args(bb)[0])
                if a is not None:
                    a = strip_refs(a)
                    if a[0] == "var" and pb.local_ty(a[1]) == BS:
                        src = a[1]
    if src is None:
        return None
    # the template is only ever borrowed in the enclosing function
    for bb, t in pb.iter_calls():
        for a in t["args"]:
            if a.get("k") == "move" and not a["place"]["proj"] and alias_of(pb, a["place"]["local"])[0] == src and alias_of(pb, a["place"]["local"])[1] == "val":
                return None
    tidx = tuple(tr(i) for i in idx)
    if any(i is None for i in tidx):
        return None
    tidx = tuple(strip_refs(i) if i[0] in ("ref", "deref") else i for i in tidx)
    for o in orphans:
        xfn, key, xloc, xroot, t, msg = o
        if xfn != pfn or xroot != ("local", src) or t[0] != "piece":
            continue
        pe = strip_refs(t[1])
        if not (pe[0] == "call" and pe[1] == "board::Piece::pawn"):
            continue
        pr, pc = point_of(t[2])
        if (canon(pr), canon(pc)) != (canon(tidx[0]), canon(tidx[1])):
            continue
        if not (pb.node_dominates(xloc[0], cloc[0])):
            continue
        return o
    return None


def r5_positive_control(ctx):
    """The matcher must see a raw `to_move` write where one exists (null-move scratch board in the
    search; outside the property's producers): a rule whose expected count is zero needs a witness."""
    f = ctx.facts
    b = f.body("engine::alpha_beta_search")
    ev = Events(b)
    hits = [w for w in ev.writes if w[2] == "to_move"]
    where = b.where(hits[0][0]) if hits else b.file
    n = len(hits)
    if not hits:
        # the null-move board may be built without a field store (`BoardState { to_move: .., ..b.clone() }`): any
        # raw write of a hashed component the matcher sees in the producers serves as the witness instead
        for fn in _scope(f):
            ev2 = Events(f.body(fn))
            if ev2.writes:
                n += len(ev2.writes)
                where = f.body(fn).where(ev2.writes[0][0])
    ctx.ob("matcher-sees-raw-to_move-write", n >= 1, where,
           "positive control: %d raw write(s) of hashed components visible to the matcher (null move scratch board / successor builders)" % n,
           reason="below-floor", nontrivial=False)


# ---- R5.1 helpers -------------------------------------------------------------------------------
def _enum_value(f, v, known, variants, body=None):
    """Variant name of an enum-valued expression: a literal, an expression the hypothesis fixes, or a
    crate-local pure function of such a value (`x.opposite()`), evaluated by specialising the callee."""
    from wa.cond import specialise
    v = strip_refs(v)
    if v in known:
        return known[v]
    # the same field read after writes to OTHER fields of the object still holds the known value (the
    # memory version is per object, not per field)
    if body is not None and v[0] == "field" and v[1][0] == "mem":
        for k, val in known.items():
            if k[0] == "field" and k[1][0] == "mem" and k[1][1] == v[1][1] and k[2] == v[2]:
                extra = [d for d in v[1][2] if d not in k[1][2]]
                ok = True
                for (dloc, kind) in extra:
                    if kind != "mem" or not isinstance(dloc, tuple) or len(dloc) != 2:
                        ok = False
                        break
                    st = body.stmts(dloc[0])
                    if dloc[1] >= len(st) or st[dloc[1]]["k"] != "assign":
                        ok = False
                        break
                    pj = st[dloc[1]]["place"]["proj"]
                    if not (len(pj) >= 2 and pj[0]["k"] == "deref" and pj[1]["k"] == "field" and pj[1]["name"] != v[2]):
                        ok = False
                        break
                if ok:
                    return val
    if v[0] == "agg" and not v[3]:
        return v[2]
    if v[0] == "call" and f.has_body(v[1]) and len(v[2]) == 1:
        a = _enum_value(f, v[2][0], known, variants, body)
        if a is None:
            return None
        cb = f.body(v[1])
        b2, ex2, _ = specialise(cb, {("arg", 1): ("eq", a)}, {("arg", 1): variants})
        vals = set()
        for rb in b2.return_blocks():
            r = strip_refs(ex2.local(0, b2.term_loc(rb)))
            vals.add(r[2] if r[0] == "agg" and not r[3] else None)
        if len(vals) == 1:
            return next(iter(vals))
    return None


def _path_events(b, ev, blocks):
    bs = set(blocks)
    out = []
    for loc, root, kind, idx, v in ev.writes:
        if loc[0] in bs:
            out.append((blocks.index(loc[0]), loc[1], "w", (root, kind, idx, v), loc))
    for loc, root, terms, selfx in ev.xors:
        if loc[0] in bs:
            out.append((blocks.index(loc[0]), loc[1], "x", (root, terms, selfx), loc))
    out.sort(key=lambda x: (x[0], x[1]))
    return out


def r5_1(ctx):
    f = ctx.facts
    cvariants = f.enum_variant_by_discr("move_generation::CastlingType")
    colours = f.enum_variant_by_discr("board::PieceColor")
    # --- swap_color: decided per colour of the side to move on the body specialised to that colour
    # (a two-arm `match` and `self.to_move = self.to_move.opposite()` alike)
    from wa.cond import specialise
    from wa.mir import ReachingDefs
    sb = f.body(SWAP)
    ctx.note_fn(*HELPERS)
    selfp = [i for i in range(1, sb.arg_count + 1) if sb.local_ty(i) == "&mut " + BS]
    if len(selfp) != 1:
        raise ShapeNotRecognised("swap_color(&mut self, ..)")
    tm = ("field", ("mem", selfp[0], frozenset({(ReachingDefs.ENTRY, "entry")})), "to_move")
    npaths = 0
    for cur in sorted(colours.values()):
        other = [c for c in colours.values() if c != cur][0]
        b, _e, _d = specialise(sb, {tm: ("eq", cur)}, {tm: colours})
        ev = Events(b)
        ex = ev.ex
        for pi, (blocks, dec) in enumerate(enum_paths(b, ex)):
            npaths += 1
            es = _path_events(b, ev, blocks)
            ws = [e for e in es if e[2] == "w"]
            xs = [e for e in es if e[2] == "x"]
            ok = len(ws) == 1 and ws[0][3][1] == "to_move" and len(xs) == 1 and xs[0][3][1] == [("side",)] and xs[0][3][2]
            detail = ""
            if ok:
                nv = _enum_value(f, ws[0][3][3], {tm: cur}, colours, b)
                ok = nv == other
                detail = "with %s to move to_move becomes %s and the side key is XORed once" % (cur, nv)
            ctx.ob("swap_color:%s:path#%d" % (cur, pi), ok, b.where((blocks[-1], 0)), detail or "each path must toggle to_move once and XOR the side key once; events: %s" % [(e[2], e[3][1]) for e in es])
    ctx.floor("swap_color paths", npaths, 2)
    # --- take_away_castling_rights: decided per castling type on the body specialised to that type
    # (`castling_type == V && self.flag_V` chains and `match castling_type {V => &mut self.flag_V}` alike)
    from wa.cond import specialise
    tb = f.body(TAKE)
    ctp = [i for i in range(1, tb.arg_count + 1) if tb.local_ty(i) == "move_generation::CastlingType"]
    if len(ctp) != 1:
        raise ShapeNotRecognised("take_away_castling_rights(.., castling_type: CastlingType, ..)")
    cte = ("arg", ctp[0])
    cleared = set()
    for flag, want in sorted(FLAG_VARIANT.items()):
        b, _ex2, _dead = specialise(tb, {cte: ("eq", want)}, {cte: cvariants})
        ev = Events(b)
        ex = ev.ex
        paths = enum_paths(b, ex)
        npaths = 0
        all_ok = True
        for pi, (blocks, dec) in enumerate(paths):
            es = _path_events(b, ev, blocks)
            if not es:
                # no change on this path: fine only if the right is known to be gone already
                known_unset = False
                for d in dec:
                    tr = decision_truth(dec, d)
                    sd = strip_refs(d)
                    if tr is False and sd[0] == "field" and sd[2] == flag:
                        known_unset = True
                ctx.ob("take_away_castling_rights:%s:unchanged-path#%d" % (want, pi), known_unset, b.where((blocks[-1], 0)),
                       "with castling_type == %s nothing changes only when %s is already false" % (want, flag))
                all_ok = all_ok and known_unset
                continue
            npaths += 1
            ws = [e for e in es if e[2] == "w"]
            xs = [e for e in es if e[2] == "x"]
            ok = len(ws) == 1 and len(xs) == 1 and ws[0][3][1] == flag and xs[0][3][2] and len(xs[0][3][1]) == 1
            why = "events: %s" % [(e[2], e[3][1]) for e in es]
            if ok:
                t = xs[0][3][1][0]
                xv = strip_refs(t[1]) if t[0] == "castle" else None
                ok_x = xv is not None and ((xv[0] == "agg" and xv[2] == want) or xv == cte)
                ok_v = ws[0][3][3] == ("const", False)
                ok_flag = False
                for d in dec:
                    tr = decision_truth(dec, d)
                    sd = strip_refs(d)
                    if tr is True and sd[0] == "field" and sd[2] == flag:
                        ok_flag = True
                ok = ok_x and ok_v and ok_flag
                why = "with castling_type == %s: clears %s (value false: %s), only when the flag is set: %s, XORs castle(%s): %s" % (want, flag, ok_v, ok_flag, want, ok_x)
            ctx.ob("take_away_castling_rights:%s:path#%d" % (want, pi), ok, b.where(es[0][4]), why)
            all_ok = all_ok and ok
        if npaths and all_ok:
            cleared.add(flag)
    ctx.ob("take_away_castling_rights:all-four-rights", cleared == set(FLAG_VARIANT), tb.where((0, 0)), "rights handled: %s" % sorted(cleared))
    # --- unset_pawn_double_move
    b = f.body(UNSET)
    ev = Events(b)
    ex = ev.ex
    paths = enum_paths(b, ex)
    nsome = 0
    for pi, (blocks, dec) in enumerate(paths):
        es = _path_events(b, ev, blocks)
        some = None
        def _old_target(x):
            """x reads the target as it was on entry: the field itself, or what `take()` handed back."""
            x = strip_refs(x)
            if x[0] == "field" and x[2] == "pawn_double_move":
                return True
            return x[0] == "call" and x[1].endswith("Option::<T>::take") and len(x[2]) == 1 and _old_target(x[2][0])
        for d, (vals, oth) in dec.items():
            if d[0] == "discr" and _old_target(d[1]):
                some = (vals == (1,) and not oth)
        if some is False:
            # storing None where the target is known to be None already changes nothing (`take()` does that)
            es = [e for e in es if not (e[2] == "w" and e[3][1] == "pawn_double_move" and e[3][3][0] == "agg" and e[3][3][2] == "None")]
        if not es:
            ctx.ob("unset_pawn_double_move:path#%d" % pi, some is False or some is None and False or some is False, b.where((blocks[-1], 0)),
                   "no events on the path where the target is %s" % ("None" if some is False else "Some/unknown"))
            continue
        nsome += 1
        ws = [e for e in es if e[2] == "w"]
        xs = [e for e in es if e[2] == "x"]
        ok = some is True and len(ws) == 1 and ws[0][3][1] == "pawn_double_move" and ws[0][3][3][0] == "agg" and ws[0][3][3][2] == "None" \
            and len(xs) == 1 and xs[0][3][2] and len(xs[0][3][1]) == 1 and xs[0][3][1][0][0] == "ep"
        why = "events: %s" % [(e[2], e[3][1]) for e in es]
        if ok:
            file_e = strip_refs(xs[0][3][1][0][1])
            # the file must be read from the old target: payload of pawn_double_move at a point before the write
            sl = list(subexprs(file_e))
            reads_old = any(x[0] == "downcast" and x[2] == "Some" and _old_target(x[1]) for x in sl)
            is_col = file_e[0] == "field" and file_e[2] == "1"
            # version of the memory read must precede the write
            wloc = ws[0][4]
            mems = [x for x in sl if x[0] == "mem"]
            before_write = all(not any(dl == wloc for dl, _ in m[2]) for m in mems)
            ok = reads_old and is_col and before_write
            why = "clears the target and XORs en_passant(old.1): reads old target %s, its column %s, read before the clear %s" % (reads_old, is_col, before_write)
        ctx.ob("unset_pawn_double_move:path#%d" % pi, ok, b.where(es[0][4]), why)
    ctx.floor("unset_pawn_double_move clearing paths", nsome, 1)
    # --- move_piece
    b = f.body(MOVE)
    ev = Events(b)
    ex = ev.ex
    paths = enum_paths(b, ex)
    nmove = 0
    pts = [i for i in range(1, b.arg_count + 1) if b.local_ty(i) == "board::Point"]
    if len(pts) != 2:
        raise ShapeNotRecognised("move_piece(start, end)")
    start, end = ("arg", pts[0]), ("arg", pts[1])

    def sq_is(idx, p):
        return tuple(idx) == (("field", p, "0"), ("field", p, "1"))

    b0 = b
    for pi, (blocks, dec) in enumerate(paths):
        # events are read on the body restricted to this path: a key change collected in a local
        # (`let mut d = a ^ b; if .. { d ^= c }; key ^= d`) has one definition per use there
        off = {(x, s) for k, x in enumerate(blocks) for s in b0.succ.get(x, []) if k + 1 >= len(blocks) or s != blocks[k + 1]}
        b = b0.restrict(off)
        ev = Events(b)
        es = _path_events(b, ev, blocks)
        src_full = dst_full = None
        for d, (vals, oth) in dec.items():
            if d[0] == "discr":
                x = strip_refs(d[1])
                if x[0] == "index" and x[1][0] == "index":
                    ij = (x[1][2], x[2])
                    full = (vals == (1,) and not oth)
                    if sq_is(ij, start) and src_full is None:
                        src_full = full
                    elif sq_is(ij, end):
                        dst_full = full
        if not es:
            ctx.ob("move_piece:path#%d" % pi, src_full is False, b.where((blocks[-1], 0)), "no events when the start square holds no piece")
            continue
        nmove += 1
        ws = [e for e in es if e[2] == "w"]
        terms = [t for e in es if e[2] == "x" for t in e[3][1]]
        allself = all(e[3][2] for e in es if e[2] == "x")
        ok_w = len(ws) == 2 and ws[0][3][1] == "sq" and sq_is(ws[0][3][2], start) and ws[0][3][3][0] == "agg" and ws[0][3][3][2] == "Empty" \
            and ws[1][3][1] == "sq" and sq_is(ws[1][3][2], end) and ws[1][3][3][0] == "agg" and ws[1][3][3][2] == "Full"
        why = "writes: %s" % [(w[3][1], [show_expr(i, b) for i in (w[3][2] or [])]) for w in ws]
        ok = False
        if ok_w and allself:
            mover = strip_refs(ws[1][3][3][3][0])
            want = [("piece", mover, start), ("piece", mover, end)]
            got = [(t[0], strip_refs(t[1]), strip_refs(t[2])) for t in terms if t[0] == "piece"]
            others = [t for t in terms if t[0] != "piece"]
            rest = list(got)
            ok = not others
            for w in want:
                if w in rest:
                    rest.remove(w)
                else:
                    ok = False
            if dst_full:
                ok = ok and len(rest) == 1 and rest[0][2] == end and rest[0][1] != mover
            else:
                ok = ok and not rest
            why = "start emptied, end filled with the mover; XOR terms: %s; victim on this path: %s" % (
                [(show_expr(g[1], b)[:30], show_expr(g[2], b)) for g in got], dst_full)
        ctx.ob("move_piece:path#%d" % pi, ok, b.where(es[0][4]), why)
    ctx.floor("move_piece moving paths", nmove, 2)


# ---- R5.4 from_fen ------------------------------------------------------------------------------
def r5_4(ctx):
    """from_fen builds the key from scratch: piece keys of the stored pieces, the side key iff Black is to
    move, the en-passant file iff a target was parsed, each castling key iff its flag.  The scan is run on
    the body specialised to each side to move, so that `key = match to_move {White => 0, Black => side}`
    and `if to_move == Black { key ^= side }` are the same thing."""
    from wa.cond import specialise
    f = ctx.facts
    b0 = f.body(FROM_FEN)
    ctx.note_fn(FROM_FEN)
    ex0 = Exprs(b0)
    colours = f.enum_variant_by_discr("board::PieceColor")
    fields = f.struct_fields(BS)
    tm_e = None
    for loc0, st0 in b0.iter_stmts():
        if st0["k"] == "assign" and st0["rv"]["k"] == "aggregate" and st0["rv"].get("adt") == BS:
            e0 = ex0.rvalue(st0["rv"], loc0)
            tm_e = strip_refs(e0[3][fields.index("to_move")])
    if tm_e is None:
        raise ShapeNotRecognised("from_fen: no BoardState literal")
    results = {}
    # key accumulators stay symbolic (never expanded to their history), so that `key ^= t` shows as
    # "current key XOR t" also where specialisation leaves the key a single reaching definition
    keep = {l for l in b0.names if b0.local_ty(l) == "u64"}
    for colour in ("White", "Black"):
        b, _ex, _dead = specialise(b0, {tm_e: ("eq", colour)}, {tm_e: colours})
        ex = Exprs(b, keep=keep)
        results[colour] = _r5_4_scan(ctx, f, b, ex, colour, emit=(colour == "White"))
    w, k = results["White"], results["Black"]
    ctx.ob("from_fen:side-key", w["side"] == 0 and k["side"] == 1 and w["side_ok"] and k["side_ok"], b0.where((0, 0)),
           "side key terms entering the key: %d with White to move, %d with Black to move (must be 0 and 1, into a key that is still empty or by XOR)" % (w["side"], k["side"]))
    same = w["piece"] == k["piece"] and w["ep"] == k["ep"] and w["castle"] == k["castle"]
    ctx.ob("from_fen:components-complete", same and w["piece"] >= 1 and w["ep"] == 1 and w["castle"] == set(FLAG_VARIANT.values()),
           b0.where((0, 0)), "key components built from scratch: piece terms %d, ep %d, castling %s (same for both sides to move: %s)" % (
               w["piece"], w["ep"], sorted(x for x in w["castle"] if x), same))


def _key_empty_before(b, ex, p, loc):
    """Every definition of the key place reaching `loc` stores the constant 0 (or there is none yet)."""
    if p["proj"]:
        return ex.place(p, loc) == ("const", 0)
    for dloc, kind in b.reaching().defs(p["local"], loc):
        if kind == "entry":
            continue
        if kind != "whole":
            return False
        st = b.stmts(dloc[0])
        if dloc[1] >= len(st):
            return False
        rv = st[dloc[1]]["rv"]
        if not (rv["k"] == "use" and rv["op"]["k"] == "const" and rv["op"].get("val") in (0, "0")):
            from wa.mir import scalar_value
            try:
                if not (rv["k"] == "use" and rv["op"]["k"] == "const" and scalar_value(rv["op"]) == 0):
                    return False
            except Exception:
                return False
    return True


def _r5_4_scan(ctx, f, b, ex, colour, emit):
    colours = f.enum_variant_by_discr("board::PieceColor")

    def ob(*a, **kw):
        if emit:
            ctx.ob(*a, **kw)
    # the local key accumulator: a u64 local that receives XOR updates
    acc = set()
    upd = []   # (loc, target_desc, terms, selfx, plain_assign_expr)
    for loc, st in b.iter_stmts():
        if st["k"] != "assign":
            continue
        p = st["place"]
        e = ex.rvalue(st["rv"], loc)
        is_key_field = bool(p["proj"]) and p["proj"][-1]["k"] == "field" and p["proj"][-1].get("name") == "zobrist_key"
        is_u64_local = not p["proj"] and b.local_ty(p["local"]) == "u64" and p["local"] in b.names
        if not (is_key_field or is_u64_local):
            continue
        terms = xor_terms(e)
        cur = ex.place(p, loc)
        selfx = [t for t in terms if t == cur]
        rest = [classify_term(t) for t in terms if t != cur]
        upd.append((loc, p, rest, len(selfx) == 1, e))
    # a key local defined directly by a call (`let key = match side {.. => hasher.get_black_to_move_val()}`)
    for bb, t in b.iter_calls():
        p = t["dest"]
        if p["proj"] or b.local_ty(p["local"]) != "u64" or p["local"] not in b.names:
            continue
        loc = b.term_loc(bb)
        e = ex.call_expr(t, loc)
        terms = xor_terms(e)
        upd.append((loc, p, [classify_term(t_) for t_ in terms], False, e))
    seen = {"piece": 0, "side": 0, "ep": 0, "castle": set(), "side_ok": True}
    # value each flag is initialised with in the struct literal (a single-definition struct local is
    # value-numbered to its literal, so `if board.flag` reads as that value)
    flag_init = {}
    fields = f.struct_fields(BS)
    for loc0, st0 in b.iter_stmts():
        if st0["k"] == "assign" and st0["rv"]["k"] == "aggregate" and st0["rv"].get("adt") == BS:
            e0 = ex.rvalue(st0["rv"], loc0)
            for i, fn_ in enumerate(fields):
                if fn_ in FLAG_VARIANT:
                    flag_init[fn_] = strip_refs(e0[3][i])
    for loc, p, terms, selfx, e in upd:
        if e == ("const", 0):
            continue
        # copy of the accumulator into the struct literal / moves are not updates
        if len(terms) == 1 and terms[0][0] == "other" and strip_refs(terms[0][1])[0] in ("var", "arg") and not selfx:
            continue
        for t in terms:
            where = b.where(loc)
            bf = bool_facts(b, ex, loc[0])
            if t[0] == "side":
                # on this body the side to move is `colour`: the term may only be here for Black, and a plain
                # (non-XOR) store of it is fine only while the key is still empty / not yet defined
                ok = colour == "Black"
                if not selfx:
                    ok = ok and _key_empty_before(b, ex, p, loc)
                seen["side"] += 1
                seen["side_ok"] = seen["side_ok"] and ok
            elif t[0] == "piece":
                seen["piece"] += 1
                pr, pc = point_of(t[2])
                # the same control region stores that piece at board[row][col]
                stored = False
                stored_piece = None
                for loc2, st2 in b.iter_stmts():
                    if st2["k"] != "assign":
                        continue
                    p2 = st2["place"]
                    idx = [ex.local(e2["local"], loc2) for e2 in p2["proj"] if e2["k"] == "index"]
                    if len(idx) == 2 and b.local_ty(p2["local"]).startswith("[[board::Square") and (idx[0], idx[1]) == (pr, pc):
                        if b.node_dominates(loc2[0], loc[0]):
                            stored = True
                            sv = strip_refs(ex.rvalue(st2["rv"], loc2))
                            if sv[0] == "agg" and sv[1] == "board::Square" and sv[2] == "Full" and sv[3]:
                                stored_piece = strip_refs(sv[3][0])
                # the piece hashed is the piece read back from that square (I7) or the very piece stored there
                pe = strip_refs(t[1])
                ok_piece = (pe[0] == "agg" and pe[1] == "board::Piece") or (stored_piece is not None and pe == stored_piece)
                if not stored:
                    # a separate pass over the finished board (`for row in A..B { for col in A..B { if let
                    # Full(p) = board[row][col] { key ^= piece(p, row, col) } } }`): the piece is read back
                    # from the square it is hashed at, every playable square is visited, and the placement is
                    # not written any more once the pass has begun
                    okscan, whyscan = _full_scan(f, b, ex, loc, pe, pr, pc)
                    ob("from_fen:piece-key#%d" % seen["piece"], okscan, where, "piece key of %s at (%s, %s): %s" % (show_expr(pe, b)[:60], show_expr(pr, b), show_expr(pc, b), whyscan))
                    continue
                ob("from_fen:piece-key#%d" % seen["piece"], stored and ok_piece, where,
                       "piece key of %s at (%s, %s): square stored in a dominating block: %s" % (show_expr(pe, b)[:60], show_expr(pr, b), show_expr(pc, b), stored))
            elif t[0] == "ep":
                seen["ep"] += 1
                fe = strip_refs(t[1])
                ok = fe[0] == "field" and fe[2] == "1" and any(x[0] == "downcast" and x[2] == "Some" for x in subexprs(fe))
                ob("from_fen:ep-key", ok, where, "en-passant file key from the parsed target's column, only when a target was parsed")
                okg, whyg = _ep_guard_exact(f, b, ex, loc)
                ob("from_fen:ep-key:condition", okg, where, whyg)
            elif t[0] == "castle" and strip_refs(t[1])[0] != "agg" and _table_item(b, ex, strip_refs(t[1])) is not None:
                # table-driven: `for (granted, ty) in [(flag_K, WhiteKingSide), ..] { if granted { key ^= castle(ty) } }`
                item, comp, elems = _table_item(b, ex, strip_refs(t[1]))
                guard_true = any(val is True and strip_refs(d)[0] == "field" and strip_refs(d)[1] == item and strip_refs(d)[2] != comp for d, val in bf.items())
                gcomp = [strip_refs(d)[2] for d, val in bf.items() if val is True and strip_refs(d)[0] == "field" and strip_refs(d)[1] == item and strip_refs(d)[2] != comp]
                for el in elems:
                    el = strip_refs(el)
                    if not (el[0] == "agg" and el[1] == "tuple" and len(el[3]) == 2):
                        ob("from_fen:castle-key:table-element", False, where, "table element is not a (flag, type) pair: %s" % show_expr(el, b)[:60], reason="shape-not-recognised")
                        continue
                    ty_e = strip_refs(el[3][int(comp)])
                    g_e = strip_refs(el[3][int(gcomp[0])]) if gcomp else None
                    var = ty_e[2] if ty_e[0] == "agg" else None
                    ok = guard_true and g_e is not None and any(FLAG_VARIANT[k] == var and v_ == g_e for k, v_ in flag_init.items())
                    seen["castle"].add(var)
                    ob("from_fen:castle-key:%s" % var, ok, where, "castling key %s enters under its own flag (table entry guarded by `%s`)" % (var, show_expr(g_e, b)[:50] if g_e else "?"))
            elif t[0] == "castle":
                v = strip_refs(t[1])
                var = v[2] if v[0] == "agg" else None
                ok = False
                for d, val in bf.items():
                    sd = strip_refs(d)
                    if val is True and sd[0] == "field" and FLAG_VARIANT.get(sd[2]) == var:
                        ok = True
                    if val is True and any(FLAG_VARIANT[k] == var and v_ == sd for k, v_ in flag_init.items()):
                        ok = True
                seen["castle"].add(var)
                ob("from_fen:castle-key:%s" % var, ok, where, "castling key %s enters under its own flag" % var)
            elif t[0] == "other" and strip_refs(t[1])[0] == "var" and strip_refs(t[1])[1] in {pp["local"] for _, pp, _, _, _ in upd if not pp["proj"]} \
                    and strip_refs(t[1])[1] != (p["local"] if not p["proj"] else None):
                # the key accumulated by a helper (inlined) is folded in: its own updates are scanned as well
                seen.setdefault("merged", 0)
                seen["merged"] += 1
            else:
                ob("from_fen:unknown-key-term", False, where, "key updated with an unrecognised term: %s" % show_expr(t[1], b)[:80], reason="shape-not-recognised")
    return seen


def _full_scan(f, b, ex, loc, pe, pr, pc):
    """The XOR at `loc` of piece(pe, Point(pr, pc)) belongs to a complete scan of the finished placement."""
    from wa.loopform import range_bounds, is_range_next
    # (1) the piece is the payload read from square [pr][pc] of a placement array
    x = pe
    if x[0] == "field" and x[2] == "0":
        x = x[1]
    if not (x[0] == "downcast" and x[2] == "Full"):
        return False, "the piece is not read back from a square"
    sq = strip_refs(x[1])
    if not (sq[0] == "index" and sq[1][0] == "index" and (sq[1][2], sq[2]) == (pr, pc)):
        return False, "the piece is read from another square than the one it is hashed at"
    # (2) both coordinates run over a constant range that covers the playable area
    lo_need, hi_need = 2, 10   # the 8x8 area of the 12x12 mailbox (layout decided by R15.x / R0.1)
    for c in (pr, pc):
        c0 = strip_refs(c)
        if not (c0[0] == "field" and c0[2] == "0" and c0[1][0] == "downcast" and c0[1][2] == "Some" and c0[1][1][0] == "call" and is_range_next(c0[1][1])):
            return False, "square coordinate `%s` is not the variable of a range loop" % show_expr(c0, b)[:40]
        rb = range_bounds(ex, c0[1][1])
        if rb is None:
            return False, "range bounds not found"
        lo, hi, incl = strip_refs(rb[0]), strip_refs(rb[1]), rb[2]
        if not (lo[0] == "const" and hi[0] == "const"):
            return False, "range bounds are not constants"
        if lo[1] > lo_need or hi[1] + (1 if incl else 0) < hi_need:
            return False, "the scan visits %d..%s%d only: squares of the playable area %d..%d are never hashed" % (lo[1], "=" if incl else "", hi[1], lo_need, hi_need)
    # (3) the only data condition on the way from the loop heads to the XOR is "this square holds a piece"
    for d, vals, excl, s, tg in dominating_facts(b, ex, loc[0]):
        d0 = strip_refs(d)
        if d0[0] == "discr" and d0[1][0] == "call" and d0[1][1].endswith("::next"):
            continue
        if d0[0] == "discr" and strip_refs(d0[1]) == sq:
            continue
        # conditions decided before the scan started (they dominate the scan's first loop head) are global
        heads = [h for h in b.loops() if loc[0] in b.loops()[h]]
        if heads and all(b.edge_dominates((s, tg), h) for h in heads):
            continue
        return False, "the XOR is under a further condition (%s at %s)" % (show_expr(d0, b)[:50], b.where(b.term_loc(s)))
    # (4) no store into a placement array is reachable from here
    for loc2, st2 in b.iter_stmts():
        if st2["k"] != "assign":
            continue
        p2 = st2["place"]
        nidx = len([e2 for e2 in p2["proj"] if e2["k"] in ("index", "cindex")])
        tyl = b.local_ty(p2["local"])
        if nidx == 2 and ("[[board::Square" in tyl or tyl.endswith(BS)) and (loc2[0] == loc[0] or b.reaches(loc[0], loc2[0])):
            return False, "the placement is still written at %s after the scan has begun" % b.where(loc2)
    return True, "read back from that square by a scan of %d..%d x %d..%d over the finished placement" % (lo_need, hi_need, lo_need, hi_need)


def _table_item(b, ex, e):
    """If e is component `.k` of the item of a loop over a literal array (`for x in [a, b, c]`), return
    (item expression, k, [element expressions]); else None."""
    if not (e[0] == "field" and e[1][0] == "field" and e[1][2] == "0" and e[1][1][0] == "downcast" and e[1][1][2] == "Some"):
        return None
    item = e[1]
    nxt = e[1][1][1]
    if not (nxt[0] == "call" and nxt[1].endswith("IntoIter<T, N> as std::iter::Iterator>::next")):
        return None
    it = strip_refs(nxt[2][0])
    if it[0] != "var":
        return None
    for dloc, kind in it[2]:
        if kind != "whole":
            continue
        bb, i = dloc
        st = b.stmts(bb)
        de = ex.rvalue(st[i]["rv"], dloc) if i < len(st) else ex.call_expr(b.term(bb), dloc)
        de = strip_refs(de)
        if de[0] == "call" and de[1].endswith("::into_iter") and de[2]:
            arr = strip_refs(de[2][0])
            if arr[0] == "agg" and arr[1] == "array":
                return item, e[2], list(arr[3])
    return None


def _ep_guard_exact(f, b, ex, xloc):
    """The en-passant file enters the key exactly when the loaded position has a target: the only
    condition on the XOR beyond those under which the target can be `Some` at all is `target is Some`."""
    fields = f.struct_fields(BS)
    agg = None
    for loc0, st0 in b.iter_stmts():
        if st0["k"] == "assign" and st0["rv"]["k"] == "aggregate" and st0["rv"].get("adt") == BS:
            agg = (loc0, st0)
    if agg is None:
        return False, "no BoardState literal found"
    op = agg[1]["rv"]["fields"][fields.index("pawn_double_move")]
    if op["k"] not in ("copy", "move") or op["place"]["proj"]:
        return False, "pawn_double_move is not initialised from a local"
    al = operand_alias(b, op)
    v = al[0]
    some_defs, some_exprs = [], []
    for dloc, kind in b.reaching().all_sites(v):
        if kind != "whole":
            continue
        bb, i = dloc
        st = b.stmts(bb)
        e = ex.rvalue(st[i]["rv"], dloc) if i < len(st) else ex.call_expr(b.term(bb), dloc)
        if e[0] == "agg" and e[2] == "None":
            continue
        some_defs.append(dloc)
        some_exprs.append(e)
    if not some_defs:
        return False, "the en-passant target is never set"
    facts_x = dominating_facts(b, ex, xloc[0])
    extra = []
    # leaving a constant-range loop because it is exhausted is not a condition (a scan that precedes the XOR)
    from wa.loopform import exhaustion_exits
    loops_ = b.loops()
    done = set()
    for h in loops_:
        if xloc[0] not in loops_[h]:
            done |= exhaustion_exits(b, ex, loops_, h, const_bounds=True)
    for d, vals, excl, s, tg in facts_x:
        if (s, tg) in done or len(set(b.succ.get(s, []))) <= 1:
            continue                      # (a switch with one feasible edge on this specialisation decides nothing)
        if b.edge_dominates((s, tg), agg[0][0]):
            continue                      # global non-error condition
        if all(b.edge_dominates((s, tg), dl[0]) or tg == dl[0] for dl in some_defs):
            continue                      # condition under which a target is parsed at all
        extra.append((d, vals, s))
    is_some = [x for x in extra if x[0][0] == "discr" and x[1] == [1] and
               (root_local(x[0][1]) == v or strip_refs(x[0][1]) in [strip_refs(e) for e in some_exprs])]
    other = [x for x in extra if x not in is_some]
    if other:
        return False, "the file key is added only under an additional condition (%s at %s) although the loaded position keeps the target regardless: key and state disagree for such FENs" % (
            show_expr(other[0][0], b)[:80], b.where(b.term_loc(other[0][2])))
    if not is_some:
        return False, "the file key is not conditioned on the target being Some"
    # and nothing can skip it once the target is known to be Some (covers `a || b` style guards,
    # which no single edge dominates): every path from the Some edge to the struct literal passes it
    for d, vals, s, in is_some:
        tg = [t for v_, t in b.term(s)["cases"] if v_ == 1]
        if tg and tg[0] != xloc[0] and b.reaches(tg[0], agg[0][0], removed_nodes={xloc[0]}):
            return False, "with a parsed target (Some edge at %s) the file key can still be skipped: it is added only under a further condition although the loaded position keeps the target regardless" % b.where(b.term_loc(s))
    return True, "added exactly when the parsed target is Some"


# ---- R5.5 getters -------------------------------------------------------------------------------
def r5_5(ctx):
    f = ctx.facts
    # PieceKind::index is a bijection onto 0..6
    b = f.body("board::PieceKind::index")
    ctx.note_fn("board::PieceKind::index", G_PIECE, G_CASTLE)
    ex = Exprs(b)
    kinds = f.enum_variant_by_discr("board::PieceKind")
    vals = {}
    for blocks, dec in enum_paths(b, ex):
        var = None
        for d, (vs, oth) in dec.items():
            if d[0] == "discr" and not oth and len(vs) == 1:
                var = kinds.get(vs[0])
            elif d[0] == "discr" and oth:
                rest = [kinds[k] for k in kinds if k not in vs]
                var = rest[0] if len(rest) == 1 else None
        ret = None
        for bb in blocks:
            for i, st in enumerate(b.stmts(bb)):
                if st["k"] == "assign" and st["place"]["local"] == 0:
                    ret = ex.rvalue(st["rv"], (bb, i))
        if var and ret and ret[0] == "const":
            vals[var] = ret[1]
    ok = len(vals) == 6 and sorted(vals.values()) == [0, 1, 2, 3, 4, 5]
    ctx.ob("PieceKind::index:bijection", ok, b.where((0, 0)), "kind -> index: %s" % sorted(vals.items(), key=lambda x: x[1]))
    # get_val_for_piece: index = kind + (0 | 6) by colour; table[index][col][row]
    b = f.body(G_PIECE)
    ex = Exprs(b)
    offs = set()
    for loc, st in b.iter_stmts():
        if st["k"] == "assign":
            e = ex.rvalue(st["rv"], loc)
            if e[0] == "const" and isinstance(e[1], int) and not isinstance(e[1], bool) and st["place"]["ty"] == "usize":
                offs.add(e[1])
    ok = offs == {0, 6}
    ctx.ob("get_val_for_piece:colour-offset", ok, b.where((0, 0)), "colour offsets %s must be {0, 6} so that (kind, colour) -> 0..12 is injective" % sorted(offs))
    # the lookup reads table[index][point.1][point.0] (or [point.0][point.1]): both coordinates used once
    reads = []
    for loc, st in b.iter_stmts():
        if st["k"] == "assign" and st["place"]["local"] == 0:
            e = ex.rvalue(st["rv"], loc)
            reads.append(e)
    ok = False
    if len(reads) == 1:
        e = reads[0]
        idxs = []
        while e[0] == "index":
            idxs.append(e[2])
            e = e[1]
        pts = [x for x in idxs if x[0] == "field" and x[1][0] == "arg"]
        ok = len(idxs) == 3 and {x[2] for x in pts} == {"0", "1"} and e[0] == "field" and e[2] == "piece_square_table"
    ctx.ob("get_val_for_piece:uses-both-coordinates", ok, b.where((0, 0)), "the piece table is indexed by [piece][one coordinate][the other coordinate]")
    # get_val_for_castling: four variants -> four distinct storage cells of the hasher (a field each, or
    # four constant slots of one table); decided per variant on the body specialised to it
    from wa.cond import specialise
    b0 = f.body(G_CASTLE)
    cvars = f.enum_variant_by_discr("move_generation::CastlingType")
    ctp = [i for i in range(1, b0.arg_count + 1) if b0.local_ty(i).lstrip("&") == "move_generation::CastlingType"]
    if len(ctp) != 1:
        raise ShapeNotRecognised("get_val_for_castling(.., castling_type)")
    cte = ("arg", ctp[0])
    if b0.local_ty(ctp[0]).startswith("&"):
        cte = ("deref", cte)

    def cell(e):
        e = strip_refs(e)
        if e[0] == "field":
            c = cell(e[1])
            return None if c is None else c + (e[2],)
        if e[0] in ("index", "cidx"):
            c = cell(e[1])
            k = strip_refs(e[2]) if e[0] == "index" else ("const", e[2])
            return None if c is None or k[0] != "const" else c + (k[1],)
        if e[0] in ("arg", "mem", "deref"):
            return ("self",)
        return None
    m = {}
    for var in sorted(cvars.values()):
        b, ex, _dead = specialise(b0, {cte: ("eq", var)}, {cte: cvars})
        cells = set()
        for bb in b.return_blocks():
            cells.add(cell(ex.place({"local": 0, "proj": [], "ty": b.local_ty(0)}, b.term_loc(bb))))
        if len(cells) == 1 and None not in cells:
            m[var] = next(iter(cells))
    ok = set(m) == set(FLAG_VARIANT.values()) and len(set(m.values())) == 4
    ctx.ob("get_val_for_castling:variant-field-table", ok, b0.where((0, 0)), "variant -> key cell: %s (four variants, four distinct cells)" % sorted((k, ".".join(str(x) for x in v[1:])) for k, v in m.items()))
    # hasher seed is a constant and every key cell is filled from the generator
    b = f.body("zobrist::ZobristHasher::create_zobrist_hasher")
    ex = Exprs(b)
    seeds = [ex.call_args(bb) for bb, t in b.iter_calls() if (callee_of(t) or "").endswith("seed_from_u64")]
    ok = len(seeds) == 1 and seeds[0][0][0] == "const"
    ctx.ob("create_zobrist_hasher:constant-seed", ok, b.where((0, 0)), "seed: %s" % ([show_expr(s[0], b) for s in seeds]))


# ---- R5.6 frame conditions of the hashing helpers ----------------------------------------------------
FRAME = {
    SWAP: {"to_move", "zobrist_key"},
    UNSET: {"pawn_double_move", "zobrist_key"},
    MOVE: {"board", "zobrist_key"},
    TAKE: set(FLAG_VARIANT) | {"zobrist_key"},
}


def _fields_written(f, fn, depth=0, seen=None):
    """Fields of the BoardState behind `&mut self` that `fn` can write: direct stores, stores through
    pointers derived from self, std mutators on `&mut self.field`, and whatever a crate-local callee that
    is handed `self` (or a field of it) mutably writes."""
    from wa.mir import alias_of
    seen = seen if seen is not None else set()
    if fn in seen or depth > 3 or not f.has_body(fn):
        return set()
    seen.add(fn)
    b = f.body(fn)
    selfp = [i for i in range(1, b.arg_count + 1) if b.local_ty(i) == "&mut " + BS]
    if len(selfp) != 1:
        return {"?"}
    sp = selfp[0]
    out = set()
    for loc, st in b.iter_stmts():
        if st["k"] != "assign":
            continue
        root, proj = place_root(b, st["place"])
        if root == ("ptr", sp) and proj and proj[0]["k"] == "field":
            out.add(proj[0]["name"])
        elif root == ("ptr", sp) and not proj:
            out.add("*")
        elif root is None and st["place"]["proj"] and st["place"]["proj"][0]["k"] == "deref" and b.local_ty(st["place"]["local"]).startswith("&mut ") \
                and st["place"]["local"] > b.arg_count:
            # a store through a pointer whose target is chosen at run time (`let flag = match t { A => &mut self.a, .. };
            # *flag = false`): it can reach any field of the pointee's type
            pty = b.local_ty(st["place"]["local"])[len("&mut "):]
            try:
                same = [fl for fl in f.struct_fields(BS) if f.struct_field_ty(BS, fl) == pty]
            except Exception:
                same = []
            out |= set(same) if same else {"?"}
    for bb, t in b.iter_calls():
        c = callee_of(t) or ""
        for i, a in enumerate(t["args"]):
            if a.get("k") not in ("copy", "move") or a["place"]["proj"]:
                continue
            aty = t["arg_tys"][i] if i < len(t.get("arg_tys", [])) else b.local_ty(a["place"]["local"])
            if not aty.startswith("&mut "):
                continue
            r, mode, pr = alias_of(b, a["place"]["local"])
            if r != sp:
                continue
            if mode == "val" and not pr:
                # self handed on
                if f.has_body(c):
                    out |= _fields_written(f, c, depth + 1, seen)
                else:
                    out.add("*")
            elif mode == "ptrref" and pr and pr[0]["k"] == "field":
                out.add(pr[0]["name"])
    return out


def r5_6(ctx):
    """Each hashing helper changes its own component and the key, nothing else: a helper that also
    rewrites another field (the move descriptor, the en-passant target, ..) silently undoes what its
    callers set before calling it - each caller looks right on its own."""
    f = ctx.facts
    n = 0
    for fn, allowed in sorted(FRAME.items()):
        if not f.has_body(fn):
            raise AnchorMissing(fn)
        ctx.note_fn(fn)
        w = _fields_written(f, fn)
        n += 1
        extra = sorted(w - allowed)
        ctx.ob("%s:writes-only-its-component" % fn.split("::")[-1], not extra, f.body(fn).where((0, 0)),
               "writes %s; allowed %s%s" % (sorted(w), sorted(allowed), "" if not extra else ": also writes %s, which its callers set themselves (before or after the call) - the order of calls now decides the result" % extra))
    ctx.floor("helper frames", n, 4)
