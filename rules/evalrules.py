"""Static evaluation rules (C14, level proof): read-set, mirror identity, antisymmetric side arms,
odd blend, bound below the mate window, no overflow / in-bounds."""
from wa.mir import AnchorMissing, ShapeNotRecognised, callee_of, operand_alias
from wa.expr import Exprs, show_expr, strip_refs, subexprs, root_local
from wa.cond import dominating_facts, enum_value_on_trace
from wa.paths import enum_paths
from wa.pathsym import eval_path, cond_truth
from wa.linear import linear
from wa.absint import Intervals
from wa import callgraph

GE = "evaluation::get_evaluation"
ALLOWED_EXT = (
    "std::iter::Iterator>::next", "std::iter::IntoIterator>::into_iter", "IntoIterator>::into_iter",
    "Iterator for std::ops::Range<A>>::next",
)
FLIP = 11   # ranks are rows 2..9: the colour mirror maps row r to 11 - r


def r14_1(ctx):
    """The evaluation reads nothing but the placement and the side to move, and calls nothing
    but its own table functions and range iteration."""
    f = ctx.facts
    cg = callgraph.get(f)
    cone = sorted(cg.cone(GE))
    ctx.note_fn(*cone)
    b = f.body(GE)
    bp = [i for i in range(1, b.arg_count + 1) if b.local_ty(i) == "&board::BoardState"]
    if len(bp) != 1:
        raise ShapeNotRecognised("get_evaluation(board: &BoardState)")
    reads = {}
    import json
    for loc, st in b.iter_stmts():
        def walk(x):
            if isinstance(x, dict):
                if "local" in x and "proj" in x and x["local"] == bp[0]:
                    fs = [e["name"] for e in x["proj"] if e["k"] == "field"]
                    if fs:
                        reads.setdefault(fs[0], loc)
                for v in x.values():
                    walk(v)
            elif isinstance(x, list):
                for v in x:
                    walk(v)
        walk(st)
    for bb in b.normal:
        t = b.term(bb)
        def walk2(x):
            if isinstance(x, dict):
                if "local" in x and "proj" in x and x["local"] == bp[0]:
                    fs = [e["name"] for e in x["proj"] if e["k"] == "field"]
                    if fs:
                        reads.setdefault(fs[0], b.term_loc(bb))
                for v in x.values():
                    walk2(v)
            elif isinstance(x, list):
                for v in x:
                    walk2(v)
        walk2(t.get("args"))
        walk2(t.get("discr"))
    for fld, loc in sorted(reads.items()):
        ctx.ob("get_evaluation:reads:%s" % fld, fld in ("board", "to_move"), b.where(loc),
               "reads BoardState.%s; the evaluation may depend on placement and side to move only" % fld)
    ctx.floor("BoardState fields read by the evaluation", len(reads), 2)
    # the board is not handed to anything else
    for bb, t in b.iter_calls():
        for a in t["args"]:
            al = operand_alias(b, a)
            if al and al[0] == bp[0] and not (callee_of(t) or "").endswith("PartialEq>::eq"):
                ctx.ob("get_evaluation:board-escapes:%s" % (callee_of(t) or "?").split("::")[-1], False, b.where(b.term_loc(bb)),
                       "the board is passed on to %s" % callee_of(t))
    for fn in cone:
        for c in sorted(cg.ext[fn]):
            ok = any(c.endswith(sfx) for sfx in ALLOWED_EXT) or c.endswith("PartialEq>::eq")
            ctx.ob("cone:%s:calls:%s" % (fn.split("::")[-1], c.split("::")[-1]), ok, f.body(fn).file,
                   "`%s` called from the evaluation cone; only table lookups and range iteration are expected (no caches, clocks, globals)" % c)
    # and uses no static
    for fn in cone:
        fb = f.body(fn)
        for loc, st in fb.iter_stmts():
            if "'static':" in str(st.get("rv")):
                ctx.ob("cone:%s:uses-static" % fn.split("::")[-1], False, fb.where(loc), "the evaluation cone touches a static")


class Fold:
    """Recognise get_evaluation as two nested constant Range loops with accumulators `acc += e`."""

    def __init__(self, f):
        self.f = f
        b = self.b = f.body(GE)
        ex = self.ex = Exprs(b)
        loops = b.loops()
        if len(loops) != 2:
            raise ShapeNotRecognised("get_evaluation: expected two nested loops, found %d" % len(loops))
        hs = sorted(loops, key=lambda h: -len(loops[h]))
        self.outer, self.inner = hs
        if not loops[self.inner] < loops[self.outer]:
            raise ShapeNotRecognised("get_evaluation: loops are not nested")
        self.loop = loops[self.outer]
        # loop variables: payloads of Range::next with constant ranges
        self.ranges = {}
        for h in hs:
            for x in loops[h]:
                if b.term(x)["k"] == "switch":
                    d = ex.switch_discr(x)
                    if d[0] == "discr" and d[1][0] == "call" and d[1][1].endswith("Range<A>>::next"):
                        item = ("field", ("downcast", d[1], "Some"), "0")
                        rng = None
                        from wa.expr import data_slice
                        for y in data_slice(ex, strip_refs(d[1][2][0])):
                            if y[0] == "agg" and y[1].endswith("ops::Range") and all(z[0] == "const" for z in y[3]):
                                rng = (y[3][0][1], y[3][1][1])
                        if rng:
                            self.ranges[item] = rng
        if len(self.ranges) != 2:
            raise ShapeNotRecognised("get_evaluation: loop ranges are not two constant ranges: %s" % list(self.ranges.values()))
        # accumulator updates
        self.updates = []   # (loc, acc_local, addend expr)
        rd = b.reaching()
        for loc, st in b.iter_stmts():
            if st["k"] != "assign" or st["place"]["proj"] or loc[0] not in self.loop:
                continue
            l = st["place"]["local"]
            if l not in b.names or b.local_ty(l) != "i32":
                continue
            e = ex.rvalue(st["rv"], loc)
            if e[0] == "bin" and e[1] == "Add" and e[2][0] == "var" and e[2][1] == l:
                self.updates.append((loc, l, e[3]))
            elif e[0] == "bin" and e[1] == "Add" and e[3][0] == "var" and e[3][1] == l:
                self.updates.append((loc, l, e[2]))
            else:
                raise ShapeNotRecognised("accumulator `%s` updated by `%s` (not acc += e)" % (b.lname(l), show_expr(e, b)[:60]))
        self.accs = sorted({l for _, l, _ in self.updates})
        for l in self.accs:
            inits = [(loc, k) for loc, k in rd.all_sites(l) if loc[0] not in self.loop]
            for loc, k in inits:
                e = ex.rvalue(b.stmts(loc[0])[loc[1]]["rv"], loc)
                if e != ("const", 0):
                    raise ShapeNotRecognised("accumulator `%s` not initialised to 0" % b.lname(l))
        # the addend must be free of accumulators
        for loc, l, e in self.updates:
            if any(x[0] == "var" and x[1] in self.accs for x in subexprs(e)):
                raise ShapeNotRecognised("accumulator addend depends on an accumulator")
        # ... and so must every condition an update is guarded by: a guard that reads a running total
        # (`if phase < 24 { phase += .. }`) makes the result depend on the order squares are visited,
        # which the colour mirror reverses
        from wa.cond import dominating_facts as _df
        for loc, l, e in self.updates:
            for d, vs, excl, s, tg in _df(b, ex, loc[0]):
                if s in self.loop and any(x[0] == "var" and x[1] in self.accs for x in subexprs(d)):
                    raise ShapeNotRecognised("update of `%s` at %s is guarded by `%s`, which reads a running total: the fold is not order-independent" % (
                        b.lname(l), b.where(loc), show_expr(d, b)[:60]))
        # the square being scored
        self.colours = f.enum_variant_by_discr("board::PieceColor")


def _table_values(f, fn):
    """kind -> 8x8 matrix (or scalar) returned by a per-kind table/value function."""
    b = f.body(fn)
    ex = Exprs(b)
    kinds = f.enum_variant_by_discr("board::PieceKind")
    out = {}
    for blocks, dec in enum_paths(b, ex):
        if b.term(blocks[-1])["k"] != "return":
            continue
        kind = None
        for d, (vals, oth) in dec.items():
            if d[0] == "discr" and not oth and len(vals) == 1:
                kind = kinds.get(vals[0])
        env, conds = eval_path(b, blocks)
        r = strip_refs(env.get(0, ("opaque", "")))
        if kind is None:
            raise ShapeNotRecognised("%s: path without a kind" % fn)
        if r[0] == "const":
            out[kind] = r[1]
        elif r[0] == "agg" and r[1] == "array":
            out[kind] = [[c[1] for c in row[3]] for row in r[3]]
        else:
            raise ShapeNotRecognised("%s: unrecognised return %s" % (fn, show_expr(r, b)[:60]))
    if set(out) != set(kinds.values()):
        raise ShapeNotRecognised("%s: kinds covered %s" % (fn, sorted(out)))
    return out


def r14_2(ctx):
    """Mirror identity and the rest of the symmetry/bound argument."""
    f = ctx.facts
    fold = Fold(f)
    b, ex = fold.b, fold.ex
    ctx.note_fn(GE)
    # classify updates: (phase table fn, value fn, row form, col form) per colour trace
    rowv = colv = None
    items = list(fold.ranges)
    per = {}
    phase_updates = []
    colour_expr = None
    for loc, l, e in fold.updates:
        calls = [x for x in subexprs(e) if x[0] == "call" and f.has_body(x[1])]
        names = sorted({c[1] for c in calls})
        tabs = [c for c in calls if f.body(c[1]).local_ty(0).startswith("&")]
        vals = [c for c in calls if f.body(c[1]).local_ty(0) == "i32"]
        idx = [x for x in subexprs(e) if x[0] == "index"]
        if not tabs:
            phase_updates.append((loc, l, e, names))
            continue
        # e = T(kind)[ri][ci] + V(kind)
        outer_idx = [x for x in idx if x[1][0] == "index" and strip_refs(x[1][1])[0] == "call" and strip_refs(x[1][1]) in tabs]
        if len(tabs) != 1 or len(vals) != 1 or len(outer_idx) != 1:
            raise ShapeNotRecognised("accumulator addend `%s` is not table[row][col] + value" % show_expr(e, b)[:80])
        ci = outer_idx[0][2]
        ri = outer_idx[0][1][2]
        le = linear(e)
        # the addend must be exactly table cell + value (coefficient 1 each)
        if le is None or le[1] != 0 or sorted(le[0].values()) != [1, 1]:
            raise ShapeNotRecognised("accumulator addend `%s` is not a plain sum" % show_expr(e, b)[:80])
        kinds_arg = {strip_refs(tabs[0][2][0]), strip_refs(vals[0][2][0])}
        # colour trace of this update
        trace = None
        for d, vs, excl, s, tg in dominating_facts(b, ex, loc[0]):
            if d[0] == "bin" and d[1] == "Eq":
                for x, k in ((strip_refs(d[2]), strip_refs(d[3])), (strip_refs(d[3]), strip_refs(d[2]))):
                    if k[0] == "agg" and k[1] == "board::PieceColor" and s in fold.loop:
                        truth = (vs is None and excl == [0]) or vs == [1]
                        trace = k[2] if truth else {"White": "Black", "Black": "White"}[k[2]]
                        colour_expr = x
        if trace is None:
            raise ShapeNotRecognised("accumulator update at %s is not on a colour trace" % b.where(loc))
        per.setdefault(l, []).append({"loc": loc, "trace": trace, "T": tabs[0][1], "V": vals[0][1], "ri": ri, "ci": ci, "same_kind": len(kinds_arg) == 1,
                                      "kind": next(iter(kinds_arg))})
    # group accumulators into (phase table) pairs
    by_T = {}
    for l, us in per.items():
        if len(us) != 1:
            raise ShapeNotRecognised("accumulator `%s` updated at %d sites" % (b.lname(l), len(us)))
        u = us[0]
        by_T.setdefault(u["T"], {})[u["trace"]] = (l, u)
    ctx.ob("fold:shape", len(by_T) == 2 and all(set(v) == {"White", "Black"} for v in by_T.values()), b.file,
           "evaluation is a fold over %s x %s with accumulators per (phase table, colour): %s" % (
               list(fold.ranges.values())[0], list(fold.ranges.values())[1], {k.split("::")[-1]: sorted(v) for k, v in by_T.items()}),
           reason="shape-not-recognised")
    if not (len(by_T) == 2 and all(set(v) == {"White", "Black"} for v in by_T.values())):
        return
    # square scored = board[row][col] with row, col the two loop items; the piece is read from that square
    row_item = col_item = None
    for T, d in sorted(by_T.items()):
        (lw, uw), (lb, ub) = d["White"], d["Black"]
        short = T.split("::")[-1]
        ctx.ob("mirror:%s:same-value-function" % short, uw["V"] == ub["V"] and uw["same_kind"] and ub["same_kind"] and uw["kind"] == ub["kind"], b.where(ub["loc"]),
               "both colours add %s(kind)[..][..] + %s(kind) for the kind of the piece on the square (white: %s, black: %s)" % (short, uw["V"].split("::")[-1], uw["V"].split("::")[-1], ub["V"].split("::")[-1]))
        lw_r, lb_r = linear(uw["ri"]), linear(ub["ri"])
        lw_c, lb_c = linear(uw["ci"]), linear(ub["ci"])
        ok_shape = all(x is not None and len(x[0]) == 1 for x in (lw_r, lb_r, lw_c, lb_c))
        if not ok_shape:
            ctx.ob("mirror:%s:index-forms" % short, False, b.where(ub["loc"]), "table indices are not affine in the loop variables", reason="shape-not-recognised")
            continue
        (rw, aw), = lw_r[0].items()
        (rb, ab), = lb_r[0].items()
        (cw, acw), = lw_c[0].items()
        (cb, acb), = lb_c[0].items()
        bw, bb_ = lw_r[1], lb_r[1]
        same_vars = rw == rb and cw == cb and rw != cw and rw in fold.ranges and cw in fold.ranges
        # black at row r must use what white uses at row FLIP - r:  aw*(FLIP - r) + bw == ab*r + bb
        mirror = same_vars and ab == -aw and bb_ == aw * FLIP + bw
        ctx.ob("mirror:%s:row-identity" % short, bool(mirror), b.where(ub["loc"]),
               "white row index %+d*row%+d, black row index %+d*row%+d; the colour mirror maps row r to %d-r, so black must index %+d*row%+d" % (
                   aw, bw, ab, bb_, FLIP, -aw, aw * FLIP + bw))
        ctx.ob("mirror:%s:column-identity" % short, same_vars and acw == acb and lw_c[1] == lb_c[1], b.where(ub["loc"]),
               "column index white %+d*col%+d, black %+d*col%+d (files are not mirrored)" % (acw, lw_c[1], acb, lb_c[1]))
        row_item, col_item = rw, cw
    # the piece scored is the one on board[row][col]
    if row_item is not None:
        sq = [x for l, us in per.items() for x in subexprs(us[0]["kind"]) if x[0] == "index"]
        ok = bool(sq) and all(x[2] == col_item and x[1][0] == "index" and x[1][2] == row_item for x in sq if x[1][0] == "index")
        ctx.ob("fold:scores-the-square-it-visits", ok, b.file, "the kind/colour used come from board[row][col] of the same loop variables")
        rr, cr = fold.ranges[row_item], fold.ranges[col_item]
        ctx.ob("fold:visits-64-squares", rr == (2, 10) and cr == (2, 10), b.file, "rows %s, columns %s" % (rr, cr))
    # phase accumulator: colour independent
    for loc, l, e, names in phase_updates:
        dep = colour_expr is not None and any(strip_refs(x) == colour_expr for x in subexprs(e))
        on_trace = any(d[0] == "bin" and d[1] == "Eq" and colour_expr is not None and colour_expr in (strip_refs(d[2]), strip_refs(d[3])) and s in fold.loop
                       for d, vs, excl, s, tg in dominating_facts(b, ex, loc[0]))
        ctx.ob("phase:%s:colour-independent" % b.lname(l), not dep and not on_trace, b.where(loc), "`%s += %s` is the same for both colours" % (b.lname(l), show_expr(e, b)[:50]))
    # ---- tail: side arms and blend (loop-free part after the outer loop)
    exits = [s for x in fold.loop for s in b.succ.get(x, []) if s not in fold.loop]
    if len(set(exits)) != 1:
        raise ShapeNotRecognised("evaluation fold has %d exits" % len(set(exits)))
    start = exits[0]
    paths = enum_paths(b, ex, start=start)
    acc_of = {}
    for T, d in by_T.items():
        for colour, (l, u) in d.items():
            acc_of[l] = (T, colour)
    phase_accs = sorted({l for _, l, _, _ in phase_updates})
    results = {}
    bp = [i for i in range(1, b.arg_count + 1) if b.local_ty(i) == "&board::BoardState"][0]
    for blocks, dec in paths:
        if b.term(blocks[-1])["k"] != "return":
            continue
        env, conds = eval_path(b, blocks)
        side = None
        clamp = None
        for c in conds:
            d, tr = c[0], cond_truth(c)
            if d[0] == "bin" and d[1] == "Eq" and tr is not None:
                for x, k in ((strip_refs(d[2]), strip_refs(d[3])), (strip_refs(d[3]), strip_refs(d[2]))):
                    if k[0] == "agg" and k[1] == "board::PieceColor" and x[0] == "field" and x[2] == "to_move":
                        side = k[2] if tr else {"White": "Black", "Black": "White"}[k[2]]
            if d[0] == "bin" and d[1] in ("Gt", "Ge", "Lt", "Le") and tr is not None:
                clamp = (d, tr)
        results[(side, clamp is not None and clamp[1])] = (env.get(0), clamp)
    sides = {k[0] for k in results}
    ctx.ob("side-arms:both-present", sides == {"White", "Black"}, b.file, "result computed on traces %s of board.to_move" % sorted(map(str, sides)))

    def undef_accs(e):
        # in the tail the accumulators are free: PathExprs names them `undef _N`
        return e

    def decompose(res):
        """res = (MG*P + EG*(C - P)) / C -> (MG, EG, P, C) modulo commutativity."""
        if res is None or res[0] != "bin" or res[1] != "Div" or res[3][0] != "const":
            return None
        C = res[3][1]
        num = res[2]
        if num[0] != "bin" or num[1] != "Add":
            return None
        terms = []
        for t in (num[2], num[3]):
            if t[0] != "bin" or t[1] != "Mul":
                return None
            terms.append((t[2], t[3]))
        for (a1, p1), (a2, p2) in (terms, terms[::-1]):
            for (x1, y1) in ((a1, p1), (p1, a1)):
                for (x2, y2) in ((a2, p2), (p2, a2)):
                    # y2 must be C - y1
                    l2 = linear(y2)
                    l1 = linear(y1)
                    if l1 is None or l2 is None:
                        continue
                    if l2[1] == C and {k: -v for k, v in l1[0].items()} == l2[0] and l1[1] == 0 or (not l1[0] and not l2[0] and l1[1] + l2[1] == C):
                        return (x1, x2, y1, C)
        return None

    forms = {}
    for (side, clamped), (res, clamp) in sorted(results.items(), key=str):
        dcm = decompose(res)
        key = "blend:%s%s" % (side, ":clamped" if clamped else "")
        if dcm is None:
            ctx.ob(key + ":form", False, b.file, "result `%s` is not (mg*p + eg*(C-p)) / C with a truncating division" % show_expr(res, b)[:100], reason="rule-breach")
            continue
        MG, EG, P, C = dcm
        forms[(side, clamped)] = (linear(MG), linear(EG), P, C)
        ctx.ob(key + ":form", True, b.file, "result = (mg*p + eg*(%d-p)) / %d, truncating (odd) division" % (C, C))
    # antisymmetry: White forms are the negation of Black forms; phase weight identical
    for clamped in (False, True):
        w, k = forms.get(("White", clamped)), forms.get(("Black", clamped))
        if not w or not k:
            continue
        def neg(lf):
            return ({t: -c for t, c in lf[0].items()}, -lf[1]) if lf else None
        ok = w[0] is not None and k[0] is not None and neg(w[0]) == k[0] and neg(w[1]) == k[1] and w[2] == k[2] and w[3] == k[3]
        ctx.ob("side-arms:antisymmetric%s" % (":clamped" if clamped else ""), bool(ok), b.file,
               "with Black to move both phase scores are the negation of those with White to move, and the phase weight is the same")
        # orientation: mg score on the White trace is (white acc - black acc) of the SAME table, eg likewise
        def orient(lf):
            if lf is None or lf[1] != 0 or len(lf[0]) != 2:
                return None
            pos = [t for t, c in lf[0].items() if c == 1]
            negs = [t for t, c in lf[0].items() if c == -1]
            if len(pos) != 1 or len(negs) != 1:
                return None
            def acc_local(t):
                if t[0] == "opaque" and t[1].startswith("undef _"):
                    return int(t[1].split("_")[1])
                if t[0] == "var":
                    return t[1]
                return None
            a, c = acc_of.get(acc_local(pos[0])), acc_of.get(acc_local(negs[0]))
            if not a or not c:
                return None
            return a, c
        for nm, lf in (("mg", w[0]), ("eg", w[1])):
            o = orient(lf)
            ok = o is not None and o[0][0] == o[1][0] and o[0][1] == "White" and o[1][1] == "Black"
            ctx.ob("side-arms:%s-orientation%s" % (nm, ":clamped" if clamped else ""), bool(ok), b.file,
                   "with White to move the %s score is (white accumulator - black accumulator) of one table: %s" % (nm, o))
        # phase weight: function of the phase accumulator only
        P = w[2]
        pl = {x for x in subexprs(P) if x[0] in ("var", "opaque", "arg", "field")}
        def is_phase(t):
            if t[0] == "opaque" and t[1].startswith("undef _"):
                return int(t[1].split("_")[1]) in phase_accs
            return t[0] == "const"
        ctx.ob("blend:phase-weight-colour-free%s" % (":clamped" if clamped else ""), all(is_phase(t) for t in pl), b.file, "phase weight p = %s" % show_expr(P, b)[:50])
    # ---- bound
    T_names = sorted(by_T)
    mate = f.const_value("engine::MATE_SCORE")
    max_depth = f.const_value("search::MAX_DEPTH") if f.has_const("search::MAX_DEPTH") else 100
    bounds = {}
    for T in T_names:
        tv = _table_values(f, T)
        V = by_T[T]["White"][1]["V"]
        vv = _table_values(f, V)
        hi = max(max(max(r) for r in tv[k]) + vv[k] for k in tv)
        lo = min(min(min(r) for r in tv[k]) + vv[k] for k in tv)
        dims = {(len(tv[k]), len(tv[k][0])) for k in tv}
        ctx.ob("tables:%s:8x8" % T.split("::")[-1], dims == {(8, 8)}, b.file, "table shapes %s" % sorted(dims))
        bounds[T] = max(abs(hi), abs(lo))
    nsq = (fold.ranges[row_item][1] - fold.ranges[row_item][0]) * (fold.ranges[col_item][1] - fold.ranges[col_item][0]) if row_item else 64
    M = max(bounds.values())
    total = nsq * M
    margin = max(15, int(max_depth))
    ctx.ob("bound:below-mate-window", total < mate - margin, b.file,
           "|evaluation| <= %d squares x max per-square contribution %d = %d; must stay below MATE_SCORE - %d = %d so that no material score is mistaken for a mate" % (
               nsq, M, total, margin, mate - margin))
    # phase values and overflow
    phase_fn = [n for _, _, _, names in phase_updates for n in names]
    pmax = 0
    if phase_fn:
        pv = _table_values(f, phase_fn[0])
        pmax = max(pv.values()) * nsq
        ctx.ob("phase:bounded", min(pv.values()) >= 0 and pmax < 2**31, b.file, "phase per piece in [%d, %d]" % (min(pv.values()), max(pv.values())))
    C = next(iter(forms.values()))[3] if forms else 24
    worst = 2 * total * max(C, pmax) * 2
    ctx.ob("overflow:i32", worst < 2**31, b.file, "largest intermediate |2 * %d * %d * 2| = %d < 2^31" % (total, max(C, pmax), worst))
    # in-bounds: every bounds assert by intervals
    iv = Intervals(b)
    nb = 0
    for bb in b.normal:
        if bb in b.reachable and b.term(bb)["k"] == "assert" and b.term(bb)["assert_kind"] == "bounds":
            nb += 1
            ok, d = iv.assert_holds(bb)
            ctx.ob("bounds#%d" % nb, ok, b.where(b.term_loc(bb)), d)
    ctx.floor("bounds checks in get_evaluation", nb, 6)
    # the clamp: p = min(phase, C)
    for (side, clamped), (res, clamp) in results.items():
        if clamp is not None:
            d, tr = clamp
            le = (strip_refs(d[2]), strip_refs(d[3]))
            ok = d[1] in ("Gt", "Ge") and le[1] == ("const", C)
            ctx.ob("blend:clamp-at-%d" % C, ok, b.file, "phase clamped by `%s`" % show_expr(d, b)[:40], nontrivial=False)
            break
