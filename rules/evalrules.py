"""Static evaluation rules (C14, level proof): read-set, mirror identity, antisymmetric side arms,
odd blend, bound below the mate window, no overflow / in-bounds."""
from wa.mir import ShapeNotRecognised, callee_of, operand_alias, alias_of, INT_RANGES
from wa.expr import Exprs, show_expr, strip_refs, subexprs
from wa.paths import enum_paths
from wa.pathsym import eval_path, cond_truth
from wa.linear import linear
from wa.absint import Intervals
from wa import callgraph, loopseg

GE = "evaluation::get_evaluation"
ALLOWED_EXT = (
    "std::iter::Iterator>::next", "std::iter::IntoIterator>::into_iter", "IntoIterator>::into_iter",
    "std::iter::IntoIterator for &'a [T]>::into_iter",
    "Iterator for std::ops::Range<A>>::next",
    # comparison through references: delegates to the element's PartialEq (a cone member if it is local)
    "std::cmp::PartialEq<&B> for &A>::eq", "std::cmp::PartialEq<&B> for &A>::ne",
    # walking an array: sub-slice, its iterator, the enumerating adaptor (pure; the slice bounds are R14.2's)
    "std::array::<impl std::ops::Index<I> for [T; N]>::index", "core::slice::<impl [T]>::iter", "std::iter::Iterator::enumerate",
    "<std::iter::Enumerate<I> as std::iter::Iterator>::next", "<std::slice::Iter<'a, T> as std::iter::Iterator>::next",
)
# total, pure functions of their (primitive integer) arguments: no state, no clock, no panic
PURE_INT_FNS = ("std::cmp::Ord::min", "std::cmp::Ord::max", "core::cmp::Ord::min", "core::cmp::Ord::max",
                "std::cmp::min", "std::cmp::max", "core::cmp::min", "core::cmp::max")
ACC_TYPES = ("i32", "i64", "i128", "isize")   # the overflow argument below is made for >= 32 signed bits
FLIP = 11   # ranks are rows 2..9: the colour mirror maps row r to 11 - r


def _ext_call_ok(t):
    c = callee_of(t) or ""
    if any(c.endswith(sfx) for sfx in ALLOWED_EXT) or c.endswith("PartialEq>::eq") or c.endswith("PartialEq>::ne") or c == "std::cmp::PartialEq::ne":
        return True
    tys = t.get("arg_tys") or []
    return c in PURE_INT_FNS and bool(tys) and all(ty in INT_RANGES for ty in tys)


def r14_1(ctx):
    """The evaluation reads nothing but the placement and the side to move, and calls nothing
    but its own table functions, range iteration and integer min/max."""
    f = ctx.facts
    cg = callgraph.get(f)
    cone = sorted(cg.cone(GE))
    ctx.note_fn(*cone)
    b = f.body(GE)
    bp = [i for i in range(1, b.arg_count + 1) if b.local_ty(i) == "&board::BoardState"]
    if len(bp) != 1:
        raise ShapeNotRecognised("get_evaluation(board: &BoardState)")
    reads = {}
    is_board = {}

    def board_ptr(l):
        # the parameter itself or a plain copy of it (e.g. the parameter of an inlined helper)
        if l not in is_board:
            r, mode, proj = alias_of(b, l)
            is_board[l] = (r == bp[0] and mode == "val" and not proj)
        return is_board[l]

    def walk(x, loc):
        if isinstance(x, dict):
            if "local" in x and "proj" in x and isinstance(x["local"], int) and board_ptr(x["local"]):
                fs = [e["name"] for e in x["proj"] if e["k"] == "field"]
                if fs:
                    reads.setdefault(fs[0], loc)
            for v in x.values():
                walk(v, loc)
        elif isinstance(x, list):
            for v in x:
                walk(v, loc)
    for loc, st in b.iter_stmts():
        walk(st, loc)
    for bb in b.normal:
        t = b.term(bb)
        walk(t.get("args"), b.term_loc(bb))
        walk(t.get("discr"), b.term_loc(bb))
    for fld, loc in sorted(reads.items()):
        ctx.ob("get_evaluation:reads:%s" % fld, fld in ("board", "to_move"), b.where(loc),
               "reads BoardState.%s; the evaluation may depend on placement and side to move only" % fld)
    ctx.floor("BoardState fields read by the evaluation", len(reads), 2)
    # the board is not handed to anything else
    for bb, t in b.iter_calls():
        for a in t["args"]:
            al = operand_alias(b, a)
            if al and al[0] == bp[0] and not _ext_call_ok(t):
                ctx.ob("get_evaluation:board-escapes:%s" % (callee_of(t) or "?").split("::")[-1], False, b.where(b.term_loc(bb)),
                       "the board is passed on to %s" % callee_of(t))
    for fn in cone:
        fb = f.body(fn)
        verdict = {}
        for bb, t in fb.iter_calls():
            if any(c and f.has_body(c) for c in (t.get("resolved"), t.get("callee"))):
                continue
            c = callee_of(t)
            if c:
                verdict[c] = verdict.get(c, True) and _ext_call_ok(t)
        for c in sorted(set(cg.ext[fn]) | set(verdict)):
            ctx.ob("cone:%s:calls:%s" % (fn.split("::")[-1], c.split("::")[-1]), verdict.get(c, False), fb.file,
                   "`%s` called from the evaluation cone; only table lookups, range iteration and integer min/max are expected (no caches, clocks, globals)" % c)
    # and uses no static
    for fn in cone:
        fb = f.body(fn)
        for loc, st in fb.iter_stmts():
            if "'static':" in str(st.get("rv")):
                # an immutable static without interior mutability that is not thread-local is a named
                # constant (its initialiser is decoded like a const's in R14.2); anything else is state
                import re
                from wa import finiteval
                names = re.findall(r"'static': '([^']+)'", str(st.get("rv")))
                ok = bool(names) and all(finiteval.static_is_constant(f, m) for m in names)
                ctx.ob("cone:%s:uses-static" % fn.split("::")[-1], ok, fb.where(loc),
                       "the evaluation cone refers to static %s; only immutable, interior-mutability-free, non-thread-local statics (constants) are allowed" % names)


class Nest:
    """One loop nest of get_evaluation, recognised as a fold over the squares visited by two nested
    counting loops, under the hypothesis `board.to_move == owner.side`.

    The recognition is semantic: the loop nest is cut into its acyclic segments (wa/loopseg.py) and
    every segment is evaluated symbolically.  What is established (or the shape is rejected):
      * the nest visits exactly range(outer) x range(inner): each loop runs one counter over a constant
        half-open range (`for x in lo..hi`, `while c < hi {..; c += 1}`, or a walk over a constant
        sub-slice `a[lo..hi].iter()` with or without `enumerate()`), is left only through its own
        header test, and its counter / iterator is touched by nothing else;
      * the only state that survives an iteration is the loop counters and a set of integer
        *accumulators* (locals, or elements of an integer array at an index fixed by the colour trace),
        which start at 0; an accumulator changes only in the innermost body and there by
        `acc' = acc + c` (c may be negative: a signed running score) where the contribution c reads
        nothing but the square being visited; no normal return bypasses the nest;
      * every contribution is made under exactly the decisions {square is Full, colour of its piece}:
        any other condition on such a path (one that reads a running total, the row, the kind ...)
        is rejected.  Values fixed before the nest (a copy of `board`, a `side` parameter computed
        from the side to move) are resolved by value numbering and, with the hypothesis on the side to
        move, to constants: `color == side` is then a colour test and `if side == White` is decided;
      * per colour trace there is at most one contributing path.
    All expressions are normalised to the board coordinates ('item', 0|1) of the square visited, so
    `row - 2` in an index loop and `rank` of an enumerated sub-slice walk are the same index.
    How the source spells this (if-let or match+continue, `acc += e` or via temporaries, a helper
    returning a tuple, an index computed by a `match` on the colour and passed on) is irrelevant."""

    def __init__(self, owner, outer, inner):
        self.o = owner
        self.f, self.b, self.ex, self.bp, self.colours = owner.f, owner.b, owner.ex, owner.bp, owner.colours
        self.outer, self.inner = outer, inner
        self.loops = owner.loops
        self.loop = owner.loops[outer]
        self._invariants()
        self._segments()
        self._counters()

    def nz(self, e):
        """Normal form of a segment expression: counters as ('item', k), loop-invariant locals by their
        value, the side to move by the hypothesis, colour functions of constants evaluated."""
        return self.o.fold_side(loopseg.subst_simplify(e, self.norm))

    def _invariants(self):
        """Locals fixed before the nest (one definition, dominating the outer header, pure value:
        parameters, constants, fields of them, pure crate functions of them) by value numbering."""
        b, ex = self.b, self.ex
        rd = b.reaching()
        self.invariant = {}
        for l in range(len(b.locals)):
            sites = rd.all_sites(l)
            if len(sites) == 1 and sites[0][1] == "whole" and sites[0][0][0] not in self.loop and b.node_dominates(sites[0][0][0], self.outer):
                v = loopseg.strip_call_locs(ex.local(l, (self.outer, 0)))
                if _pure_value(v):
                    self.invariant[loopseg.undef(l)] = self.o.fold_side(v)
        self.norm = dict(self.invariant)

    # -- segments ------------------------------------------------------------------------------------
    NEXT_FNS = ("Range<A>>::next", "<std::iter::Enumerate<I> as std::iter::Iterator>::next",
                "<std::slice::Iter<'a, T> as std::iter::Iterator>::next")

    def _header_test(self, cond):
        """The test a loop header makes, read off the first branch decision of a segment:
        ('iter', iterator local, stays) for `match it.next()` on a Range, a slice iterator or an
        enumerated slice iterator, or ('while', counter local, bound, stays) for `c < K` (also K > c,
        c <= K-1); `stays` tells whether this segment took the edge into the loop body."""
        d = strip_refs(cond[0])
        if d[0] == "discr":
            e = strip_refs(d[1])
            if e[0] == "call" and any(e[1].endswith(n) for n in self.NEXT_FNS) and len(e[2]) == 1:
                a0 = strip_refs(e[2][0])
                it = {a0[1]} if (a0[0] == "ptr" and not a0[2]) else (loopseg.undef_locals(a0) if a0[0] == "opaque" else set())
                some = loopseg.variants_on_path([cond], lambda x: True, {0: "None", 1: "Some"})
                if len(it) == 1 and len(some) == 1:
                    return ("iter", next(iter(it)), some == {"Some"})
            return None
        tr = cond_truth(cond)
        if d[0] == "bin" and d[1] in ("Lt", "Le", "Gt", "Ge") and tr is not None:
            op, x, k = d[1], strip_refs(d[2]), strip_refs(d[3])
            if x[0] == "const":
                op, x, k = {"Lt": "Gt", "Gt": "Lt", "Le": "Ge", "Ge": "Le"}[op], k, x
            c = loopseg.undef_locals(x)
            if x[0] == "opaque" and len(c) == 1 and k[0] == "const" and isinstance(k[1], int) and op in ("Lt", "Le"):
                return ("while", next(iter(c)), k[1] + (1 if op == "Le" else 0), tr)
        return None

    def _segments(self):
        """A: outer header -> inner header, B: inner header -> inner header (one square),
        C: inner header -> outer header (row finished), X: outer header -> after the nest."""
        b = self.b
        cuts = {self.outer, self.inner}
        self.segs = {"A": [], "B": [], "C": [], "X": []}
        self.tests = {self.outer: set(), self.inner: set()}
        self.exit = None
        for start in (self.outer, self.inner):
            for blocks, end in loopseg.segments(b, start, cuts, self.loop):
                env, conds = loopseg.eval_segment(b, blocks, end)
                if any(self.o.decided(self.nz(c[0]), c) is False for c in conds):
                    continue        # contradicts the hypothesis on the side to move
                ht = self._header_test(conds[0]) if conds else None
                if ht is None:
                    raise ShapeNotRecognised("get_evaluation: the loop headed by bb%d does not start with an iterator `next()` or `counter < bound` test" % start)
                self.tests[start].add(ht[:-1])
                if not ht[-1]:
                    # the only way out of a loop
                    want_out = (end is not None and end not in self.loop) if start == self.outer else end == self.outer
                    if not want_out:
                        raise ShapeNotRecognised("get_evaluation: leaving a loop does not lead to the enclosing level")
                    if start == self.outer:
                        if self.exit not in (None, end):
                            raise ShapeNotRecognised("get_evaluation: the loop nest has several exits")
                        self.exit = end
                    self.segs["X" if start == self.outer else "C"].append((blocks, end, env, conds))
                else:
                    if end != self.inner:
                        raise ShapeNotRecognised("get_evaluation: an iteration at %s leaves its loop early (break/return/continue of the outer loop)" % b.where(b.term_loc(blocks[-1])))
                    self.segs["A" if start == self.outer else "B"].append((blocks, end, env, conds))
        if self.exit is None or not self.segs["A"] or not self.segs["B"] or not self.segs["C"]:
            raise ShapeNotRecognised("get_evaluation: loop nest has no exit or no body")

    # -- the two loop counters ---------------------------------------------------------------------
    def _decode_seq(self, e):
        """The sequence an iterator value walks, as (lo, hi, payload): the k-th call of next() for
        k in lo..hi returns Some(payload(k)).
          lo..hi                      -> k
          base[lo..hi].iter()         -> &base[k]          (also `&base[lo..hi]` used as an iterator)
          seq.enumerate()             -> (k - lo, payload_seq(k))
          into_iter(iterator)         -> the iterator"""
        from wa.expr import mk_bin, mk_ref, mk_deref
        e0 = e
        if e[0] == "call" and (e[1].endswith("IntoIterator>::into_iter") or e[1].endswith("IntoIterator for &'a [T]>::into_iter")) and len(e[2]) == 1:
            inner = e[2][0]
            if inner[0] == "call" and inner[1].endswith("::index"):
                e = ("call", "core::slice::<impl [T]>::iter", (inner,), None)     # `for x in &a[lo..hi]`
            else:
                return self._decode_seq(inner)
        if e[0] == "agg" and e[1].endswith("ops::Range") and len(e[3]) == 2 and all(z[0] == "const" and isinstance(z[1], int) and not isinstance(z[1], bool) for z in e[3]):
            return e[3][0][1], e[3][1][1], (lambda k: k)
        if e[0] == "call" and e[1] in ("std::iter::Iterator::enumerate", "core::iter::Iterator::enumerate") and len(e[2]) == 1:
            s = self._decode_seq(e[2][0])
            if s is None:
                return None
            lo, hi, pay = s
            return lo, hi, (lambda k: ("agg", "tuple", None, (mk_bin("Sub", k, ("const", lo)), pay(k))))
        if e[0] == "call" and e[1] == "core::slice::<impl [T]>::iter" and len(e[2]) == 1:
            x = e[2][0]
            if x[0] == "call" and (x[1].endswith("Index<I> for [T; N]>::index") or x[1].endswith("Index<I> for [T]>::index")) and len(x[2]) == 2:
                base, rng = x[2]
                if rng[0] == "agg" and rng[1].endswith("ops::Range") and all(z[0] == "const" and isinstance(z[1], int) for z in rng[3]):
                    return rng[3][0][1], rng[3][1][1], (lambda k: mk_ref(("index", mk_deref(base), k)))
        return None

    def _counters(self):
        """Each loop runs a counter k over a constant half-open range lo..hi, one step per iteration:
          `for x in <iterator>`     the header test is `it.next()`; `it` is initialised once, outside
                                    the loop, from a sequence _decode_seq understands, and is borrowed
                                    by nothing but that one call;
          `while c < hi {.. c += 1}`  every definition of c outside the loop is the constant lo, every
                                    segment that closes the loop leaves c + 1 in c, nothing else writes c.
        self.norm maps what the loop body sees of the counter (the payload of next(), locals computed
        from it once per row, the while counter) to expressions over ('item', 0|1)."""
        b, ex = self.b, self.ex
        rd = b.reaching()
        self.counter = {}     # header -> ('iter', iterator local) | ('while', counter local)
        self.ranges = {}      # 0 (outer) | 1 (inner) -> (lo, hi)
        for idx, h in enumerate((self.outer, self.inner)):
            if len(self.tests[h]) != 1:
                raise ShapeNotRecognised("get_evaluation: the loop headed by bb%d is tested in more than one way" % h)
            test = next(iter(self.tests[h]))
            kind, l = test[0], test[1]
            self.counter[h] = (kind, l)
            sites = rd.all_sites(l)
            outside = [(loc, k) for loc, k in sites if loc[0] not in self.loops[h]]
            inside = [(loc, k) for loc, k in sites if loc[0] in self.loops[h]]
            if kind == "iter":
                if len(outside) != 1 or outside[0][1] != "whole" or len(inside) != 1 or inside[0][1] != "borrow":
                    raise ShapeNotRecognised("get_evaluation: loop iterator `%s` is written or borrowed more than once" % b.lname(l))
                nexts = [bb for bb, t in b.iter_calls() if bb in self.loops[h] and t["args"] and (operand_alias(b, t["args"][0]) or (None,))[0] == l]
                if len(nexts) != 1:
                    raise ShapeNotRecognised("get_evaluation: `%s` is used %d times per iteration" % (b.lname(l), len(nexts)))
                if h == self.outer:
                    wl = outside[0][0]
                    st = b.stmts(wl[0])
                    e0 = ex.rvalue(st[wl[1]]["rv"], wl) if wl[1] < len(st) else ex.call_expr(b.term(wl[0]), wl)
                    e0 = loopseg.strip_call_locs(e0)
                else:
                    vals = {env.get(l) for blocks, end, env, conds in self.segs["A"]}
                    if len(vals) != 1 or None in vals:
                        raise ShapeNotRecognised("get_evaluation: inner loop iterator `%s` is not set up once per row" % b.lname(l))
                    e0 = self.nz(next(iter(vals)))
                seq = self._decode_seq(e0)
                if seq is None or loopseg.undef_locals(e0):
                    raise ShapeNotRecognised("get_evaluation: loop iterator `%s` = `%s` is not a constant range or a constant sub-slice walk" % (b.lname(l), show_expr(e0, b)[:70]))
                lo, hi, pay = seq
                self.ranges[idx] = (lo, hi)
                segs = self.segs["A"] if h == self.outer else self.segs["B"]
                for blocks, end, env, conds in segs:
                    nx = strip_refs(strip_refs(conds[0][0])[1])
                    self.norm[("field", ("downcast", nx, "Some"), "0")] = pay(("item", idx))
                if h == self.outer:
                    # what a row computes from its counter before the inner loop starts (`row`, `rank`,
                    # the row slice, the inner iterator) is a function of the counter
                    seen = {}
                    for blocks, end, env, conds in self.segs["A"]:
                        for x, v in env.items():
                            seen.setdefault(x, set()).add(v)
                    inner_written = {x for kk in ("B", "C") for blocks, end, env, conds in self.segs[kk] for x in env}
                    for x, vs in seen.items():
                        if len(vs) == 1 and x not in inner_written and all(x in env for blocks, end, env, conds in self.segs["A"]):
                            v = self.nz(next(iter(vs)))
                            if not loopseg.undef_locals(v):
                                self.norm[loopseg.undef(x)] = v
            else:
                los = set()
                for loc, k in outside:
                    st = b.stmts(loc[0])
                    e0 = ex.rvalue(st[loc[1]]["rv"], loc) if (k == "whole" and loc[1] < len(st)) else None
                    if e0 is None or e0[0] != "const" or not isinstance(e0[1], int):
                        raise ShapeNotRecognised("get_evaluation: loop counter `%s` does not start at a constant (%s)" % (b.lname(l), b.where(loc)))
                    los.add(e0[1])
                if len(los) != 1 or any(k != "whole" for _, k in inside) or b.local_ty(l) not in INT_RANGES:
                    raise ShapeNotRecognised("get_evaluation: loop counter `%s` has no single constant start" % b.lname(l))
                me = loopseg.undef(l)
                closing, elsewhere = (("C",), ("A", "B", "X")) if h == self.outer else (("B",), ("C", "X"))
                for kk in closing:
                    for blocks, end, env, conds in self.segs[kk]:
                        le = linear(env[l]) if l in env else None
                        if le is None or le[0] != {me: 1} or le[1] != 1:
                            raise ShapeNotRecognised("get_evaluation: loop counter `%s` is not advanced by exactly one on the path ending at %s" % (b.lname(l), b.where(b.term_loc(blocks[-1]))))
                for kk in elsewhere:
                    for blocks, end, env, conds in self.segs[kk]:
                        if l in env and not (kk == "A" and h == self.inner and env[l] == ("const", next(iter(los)))):
                            raise ShapeNotRecognised("get_evaluation: loop counter `%s` is written outside its own loop step (%s)" % (b.lname(l), b.where(b.term_loc(blocks[-1]))))
                if h == self.inner and any(l not in env for blocks, end, env, conds in self.segs["A"]):
                    raise ShapeNotRecognised("get_evaluation: inner loop counter `%s` is not restarted for every row" % b.lname(l))
                self.ranges[idx] = (next(iter(los)), test[2])
                self.norm[me] = ("item", idx)
        # writes through projections and `&mut` borrows inside the nest are tracked per path by the
        # segment evaluation (wa/loopseg.py SegExprs); anything it could not attribute makes the path wild
        for kind, segs in self.segs.items():
            for blocks, end, env, conds in segs:
                if ("wild",) in env:
                    raise ShapeNotRecognised("get_evaluation: %s (%s); the fold is not recognised" % (env[("wild",)][1], b.where(b.term_loc(blocks[-1]))))

    def _elem_ty(self, l, key=0):
        """Type of sub-place `key` of local l: element of an integer array `[iN; K]`, or a struct field."""
        import re
        ty = self.b.local_ty(l)
        if isinstance(key, int):
            m = re.match(r"^\[(\w+); \d+\]$", ty)
            return m.group(1) if m and m.group(1) in INT_RANGES else None
        try:
            return self.f.struct_field_ty(ty, key)
        except Exception:
            return None

    def cname(self, c):
        """Display name of a cell: a local, or an element of an array local."""
        return self.b.lname(c) if isinstance(c, int) else "%s[%s]" % (self.b.lname(c[1]), c[2])

    # -- what survives an iteration -----------------------------------------------------------------
    def assigned_cells(self):
        """cell -> kinds of segments that write it"""
        out = {}
        for kind, segs in self.segs.items():
            for blocks, end, env, conds in segs:
                for l in env:
                    out.setdefault(l, set()).add(kind)
        return out

    def read_cells(self):
        reads = set()
        for kind, segs in self.segs.items():
            for blocks, end, env, conds in segs:
                for v in env.values():
                    reads |= loopseg.undef_cells(v)
                for c in conds:
                    reads |= loopseg.undef_cells(c[0])
        return reads

    def finish(self, reads):
        """`reads`: every cell some segment of some nest, the code between the nests or the tail reads
        from the state it starts in."""
        b = self.b
        assigned = self.assigned_cells()
        rd = b.reaching()
        counters = {l for k, l in self.counter.values()}
        self.accs = []
        assigned.pop(("wild",), None)
        for c in assigned:
            # an array written element-wise is only understood element by element
            if not isinstance(c, int) and (c[2] is None or c[1] in reads):
                raise ShapeNotRecognised("get_evaluation: array `%s` is written at an index that is not fixed by the colour trace, or read as a whole" % b.lname(c[1]))
        for l in sorted((c for c in assigned if c in reads), key=str):
            if isinstance(l, int) and (l in counters or loopseg.undef(l) in self.norm):
                continue       # a loop counter or a per-row function of it (checked in _counters)
            ty = b.local_ty(l) if isinstance(l, int) else self._elem_ty(l[1], l[2])
            if assigned[l] != {"B"} or ty not in ACC_TYPES:
                raise ShapeNotRecognised("get_evaluation: `%s` carries a value from one iteration to the next but is neither a loop counter nor an accumulator updated once per square" % self.cname(l))
            self.accs.append(l)
        # an accumulator starts at 0 and is written nowhere but in the loop body; what the code after
        # the nest does with it (`mg = -mg`) is part of the tail, which is evaluated path by path
        def zero(e):
            e = e[2] if e[0] == "named" else e
            return e == ("const", 0) or (e[0] == "repeat" and e[1] == ("const", 0)) or (e[0] == "agg" and e[1] != "closure" and bool(e[3]) and all(x == ("const", 0) for x in e[3]))
        for l in self.accs:
            arr = not isinstance(l, int)
            for loc, kind in rd.all_sites(l[1] if arr else l):
                if loc[0] in self.loop:
                    continue
                st = b.stmts(loc[0])
                init0 = (loc[1] < len(st) and zero(self.ex.rvalue(st[loc[1]]["rv"], loc)) and b.node_dominates(loc[0], self.outer)
                         and not b.node_dominates(self.exit, loc[0]))
                # (the tail evaluation does not track element writes: an array accumulator is final after
                # the nest; a scalar may be rewritten only after the last nest, where the tail sees it)
                if not (kind == "whole" and (init0 or (not arr and b.node_dominates(self.o.final_exit, loc[0])))):
                    raise ShapeNotRecognised("accumulator `%s` not initialised to 0, or written outside the loop nest (%s)" % (self.cname(l), b.where(loc)))
        # and the fold is not bypassed: every normal return comes after the loop nest
        for r in b.return_blocks():
            if not b.node_dominates(self.outer, r):
                raise ShapeNotRecognised("get_evaluation can return at %s without running the fold over the squares" % b.where(b.term_loc(r)))
        self._contributions()

    # -- what one square contributes, per colour trace -----------------------------------------------
    def _square_of(self, x):
        """x == board.board[item_i][item_j] (normalised segment language) -> (i, j) or None."""
        x = strip_refs(x)
        if x[0] == "index" and x[2][0] == "item" and x[1][0] == "index" and x[1][2][0] == "item":
            base = x[1][1]
            if base[0] == "field" and base[2] == "board" and strip_refs(base[1]) == ("arg", self.bp) and x[2][1] != x[1][2][1]:
                return (x[1][2][1], x[2][1])
        return None

    @staticmethod
    def _square_test(c):
        """The expression whose `Square` variant a branch decision tests (`match sq`, `if let`,
        `sq == Square::Empty`), else None."""
        d0 = strip_refs(c[0])
        if d0[0] == "discr" and d0[2] == "board::Square":
            return strip_refs(d0[1])
        if d0[0] == "bin" and d0[1] in ("Eq", "Ne") and cond_truth(c) is not None:
            for x, k in ((d0[2], d0[3]), (d0[3], d0[2])):
                k = strip_refs(k)
                if k[0] == "agg" and k[1] == "board::Square" and k[2] and not k[3]:
                    return strip_refs(x)
        return None

    def _contributions(self):
        b = self.b
        self.square = None
        sq_variants = self.f.enum_variant_by_discr("board::Square")
        paths = []
        for blocks, end, env, conds in self.segs["B"]:
            nconds = [(self.nz(c[0]),) + tuple(c[1:]) for c in conds[1:]]
            nconds = [c for c in nconds if self.o.decided(c[0], c) is None]      # decided by the hypothesis: not a guard
            # the square this iteration looks at: the subject of every `Square` discriminant test
            holds = set(sq_variants.values())
            rest = []
            for c in nconds:
                subject = self._square_test(c)
                if subject is not None:
                    sq = self._square_of(subject)
                    if sq is None or self.square not in (None, subject):
                        raise ShapeNotRecognised("get_evaluation: a square other than board[row][col] of the two loop counters is inspected at %s" % b.where(b.term_loc(blocks[0])))
                    self.square = subject
                    self.square_idx = sq
                    holds &= loopseg.variants_on_path([c], lambda x: x == subject, sq_variants)
                else:
                    rest.append(c)
            full = "infeasible" if not holds else (holds == {"Full"})
            paths.append((blocks, env, rest, full))
        if self.square is None:
            raise ShapeNotRecognised("get_evaluation: the loop body does not test the square board[row][col]")
        piece = ("field", ("downcast", self.square, "Full"), "0")
        self.colour_expr = ("field", piece, "color")
        self.kind_expr = ("field", piece, "kind")
        is_colour = lambda x: x == self.colour_expr
        is_kind = lambda x: x == self.kind_expr
        kind_names = self.f.enum_variant_by_discr("board::PieceKind")
        # what a piece adds is looked at per (colour, kind) trace: the kind may be decided by a branch
        # (`match kind {..}` in the loop body, e.g. an inlined per-kind lookup) or stay symbolic
        self.per_ck = {(c, k): {} for c in self.colours.values() for k in kind_names.values()}
        self.contrib_where = {}
        n_contrib = {ck: 0 for ck in self.per_ck}
        for blocks, env, rest, full in paths:
            if full == "infeasible":
                continue
            cols = loopseg.variants_on_path(rest, is_colour, self.colours)
            if not cols:
                continue
            kinds = loopseg.variants_on_path(rest, is_kind, kind_names)
            if not kinds:
                continue
            extra = [c for c in rest if not loopseg.is_variant_test(c, is_colour) and not loopseg.is_variant_test(c, is_kind)]
            contrib = {}
            for l in self.accs:
                if l not in env:
                    continue
                v = self.nz(env[l])
                le = linear(v)
                me = loopseg.cell_undef(l)
                if le is None or le[0].get(me) != 1:
                    raise ShapeNotRecognised("accumulator `%s` updated by `%s` (not acc += e)" % (self.cname(l), show_expr(v, b)[:60]))
                terms = {t: k for t, k in le[0].items() if t != me}
                if not terms and le[1] == 0:
                    continue
                for t in terms:
                    bad = loopseg.undef_locals(t)
                    if bad:
                        raise ShapeNotRecognised("accumulator addend of `%s` depends on %s, a value carried over from another square" % (
                            self.cname(l), ", ".join("`%s`" % b.lname(x) for x in sorted(bad))))
                contrib[l] = (terms, le[1])
                self.contrib_where.setdefault(l, b.where(self._def_site(blocks, l)))
            if full is not True and not contrib and not extra:
                continue            # an empty square: nothing happens
            if full is not True and contrib:
                raise ShapeNotRecognised("get_evaluation: a contribution is made at %s without the square being tested to hold a piece" % b.where(b.term_loc(blocks[-1])))
            for c in extra:
                bad = loopseg.undef_cells(c[0]) | loopseg.undef_locals(c[0])
                acc_locals = set(self.accs) | {a[1] for a in self.accs if not isinstance(a, int)}
                if bad & acc_locals:
                    l = sorted(bad & acc_locals, key=str)[0]
                    raise ShapeNotRecognised("update of the fold at %s is guarded by `%s`, which reads a running total (`%s`): the fold is not order-independent" % (
                        b.where(b.term_loc(blocks[-1])), show_expr(c[0], b)[:60], self.cname(l)))
                if full is True:
                    raise ShapeNotRecognised("what a piece contributes depends on `%s`, not only on the square's colour and kind: the per-colour traces are not recognised" % show_expr(c[0], b)[:70])
            if not contrib:
                continue
            for c in cols:
                for k in kinds:
                    n_contrib[(c, k)] += 1
                    self.per_ck[(c, k)] = contrib
        for (c, k), n in n_contrib.items():
            if n > 1:
                raise ShapeNotRecognised("get_evaluation: a %s %s is scored on %d paths of the loop body (expected at most one)" % (c, k, n))

    def affine_bounds(self):
        """{assert block: (holds, detail)} for the bounds checks inside the loop nest whose index is
        an affine expression of the two loop counters: evaluated over the counters' ranges on every
        segment the check lies on."""
        out = {}
        for kind, segs in self.segs.items():
            for blocks, end, env, conds in segs:
                for bb, akind, ops in loopseg.segment_asserts(self.b, blocks):
                    if akind != "bounds" or len(ops) != 2:
                        continue
                    ln = strip_refs(self.nz(ops[0]))
                    le = linear(self.nz(ops[1]))
                    ok, detail = False, "index is not affine in the loop counters"
                    if ln[0] == "const" and le is not None and all(t[0] == "item" for t in le[0]):
                        lo = hi = le[1]
                        for t, c in le[0].items():
                            r = self.ranges[t[1]]
                            if r[1] <= r[0]:
                                continue
                            lo += min(c * r[0], c * (r[1] - 1))
                            hi += max(c * r[0], c * (r[1] - 1))
                        ok = 0 <= lo and hi < ln[1]
                        detail = "index in [%d, %d] over the counter ranges, length %d" % (lo, hi, ln[1])
                    prev = out.get(bb)
                    out[bb] = (ok and (prev is None or prev[0]), detail)
        return out

    def _def_site(self, blocks, l):
        b = self.b
        site = None
        for bb in blocks:
            for i, st in enumerate(b.stmts(bb)):
                if st["k"] == "assign" and st["place"]["local"] == (l if isinstance(l, int) else l[1]) and bool(st["place"]["proj"]) == (not isinstance(l, int)):
                    site = (bb, i)
        return site or b.term_loc(blocks[-1])


def _pure_value(e):
    """An expression built from parameters, constants, their fields and pure (location-free) calls
    only: its value cannot change while the function runs."""
    for x in subexprs(e):
        if x[0] in ("var", "mem", "opaque", "static", "cname", "ovf"):
            return False
        if x[0] == "call" and len(x) > 3 and x[3] is not None:
            return False
    return True


class Fold:
    """get_evaluation under the hypothesis `board.to_move == side`: a sequence of loop nests (`Nest`),
    each a fold over the 64 squares (one board walk, or one walk per colour ...), straight-line code
    between them, and a loop-free tail that combines the accumulators.

    The hypothesis turns every value computed from the side to move (`us`, `them`, a `side` parameter
    handed to a per-colour pass, `to_move.opposite()`) into a constant colour; colour -> colour
    functions of the crate are evaluated from their bodies (_colour_fn)."""

    def __init__(self, f, side):
        self.f = f
        self.side = side
        b = self.b = f.body(GE)
        self.ex = Exprs(b)
        bp = [i for i in range(1, b.arg_count + 1) if b.local_ty(i) == "&board::BoardState"]
        if len(bp) != 1:
            raise ShapeNotRecognised("get_evaluation(board: &BoardState)")
        self.bp = bp[0]
        self.colours = f.enum_variant_by_discr("board::PieceColor")
        self._cfn = {}
        to_move = ("field", ("deref", ("arg", self.bp)), "to_move")
        self._side_map = {to_move: ("agg", "board::PieceColor", side, ())}
        loops = self.loops = b.loops()
        # pair the loops into nests: every outermost loop contains exactly one other loop
        outers = [h for h in loops if not any(loops[h] < loops[g] for g in loops)]
        pairs = []
        for h in outers:
            inner = [g for g in loops if loops[g] < loops[h]]
            if len(inner) != 1:
                raise ShapeNotRecognised("get_evaluation: a loop nest of depth %d (expected two nested loops per board walk)" % (len(inner) + 1))
            pairs.append((h, inner[0]))
        if not pairs:
            raise ShapeNotRecognised("get_evaluation: expected two nested loops, found %d loops" % len(loops))
        # they run one after the other, all of them on every path to a return
        pairs = sorted(pairs, key=lambda p, all_=tuple(pairs): sum(1 for q in all_ if b.node_dominates(q[0], p[0])))
        for (h1, _), (h2, _) in zip(pairs, pairs[1:]):
            if not b.node_dominates(h1, h2) or h2 in loops[h1]:
                raise ShapeNotRecognised("get_evaluation: the board walks are not executed one after the other")
        self.final_exit = None
        self.nests = [Nest(self, h, g) for h, g in pairs]
        self.final_exit = self.nests[-1].exit
        for r in b.return_blocks():
            for n in self.nests:
                if not b.node_dominates(n.outer, r):
                    raise ShapeNotRecognised("get_evaluation can return at %s without running the fold over the squares" % b.where(b.term_loc(r)))
        self._between_and_tail()
        reads = set(self.other_reads)
        for n in self.nests:
            reads |= n.read_cells()
        for n in self.nests:
            n.finish(reads)
        # one coordinate system for all walks
        n0 = self.nests[0]
        for n in self.nests[1:]:
            if (n.square, n.square_idx, n.ranges) != (n0.square, n0.square_idx, n0.ranges):
                raise ShapeNotRecognised("get_evaluation: the board walks do not visit the same squares")
        self.square_idx, self.ranges, self.kind_expr = n0.square_idx, n0.ranges, n0.kind_expr
        self.accs = [a for n in self.nests for a in n.accs]
        if len(set(self.accs)) != len(self.accs):
            raise ShapeNotRecognised("get_evaluation: an accumulator is shared between two board walks")
        self.per_ck = {}
        self.contrib_where = {}
        for n in self.nests:
            for ck, d in n.per_ck.items():
                self.per_ck.setdefault(ck, {}).update(d)
            self.contrib_where.update(n.contrib_where)

    # -- the hypothesis on the side to move -----------------------------------------------------------
    def fold_side(self, e):
        """e with `board.to_move` replaced by the hypothesised colour and crate-local colour -> colour
        functions of constant colours evaluated."""
        e = loopseg.subst_simplify(e, self._side_map)

        def walk(x):
            if not isinstance(x, tuple) or not x:
                return x
            y = tuple(walk(z) if isinstance(z, tuple) else z for z in x)
            if y and y[0] == "call" and len(y[2]) == 1 and self.f.has_body(y[1]):
                a = strip_refs(y[2][0])
                if a[0] == "agg" and a[1] == "board::PieceColor" and not a[3]:
                    if y[1] not in self._cfn:
                        self._cfn[y[1]] = _colour_fn(self.f, y[1])
                    m = self._cfn[y[1]]
                    if m:
                        return ("agg", "board::PieceColor", m[a[2]], ())
            return y
        return walk(e)

    def decided(self, d, c):
        """Is branch decision c, whose (normalised) discriminant is d, a test between constants?
        True: it holds, False: it contradicts, None: not decided (a real condition)."""
        d0 = strip_refs(d)
        const = lambda x: x[0] == "agg" and x[1] not in ("tuple", "array", "closure") and x[2] and not x[3]
        if d0[0] == "bin" and d0[1] in ("Eq", "Ne"):
            x, y = strip_refs(d0[2]), strip_refs(d0[3])
            if const(x) and const(y) and x[1] == y[1]:
                truth = (x[2] == y[2]) == (d0[1] == "Eq")
                tr = cond_truth(c)
                return None if tr is None else tr == truth
        if d0[0] == "discr":
            x = strip_refs(d0[1])
            if const(x) and x[1] == "board::PieceColor":
                return x[2] in loopseg.variants_on_path([(d0,) + tuple(c[1:])], lambda y: True, self.colours)
        return None

    # -- straight-line code between the walks, and the tail --------------------------------------------
    def _between_and_tail(self):
        """The loop-free code after each walk, evaluated path by path and composed: a local assigned
        between two walks (`mg_phase = if phase > 24 {24} else {phase}`) keeps that value in the tail
        unless a later walk writes it; a branch taken there stays a condition of the composed path.
        self.tail = [(result expression over the accumulators' final values, conditions)]."""
        b = self.b
        later_written = [set() for _ in self.nests]
        for i in range(len(self.nests)):
            for n in self.nests[i + 1:]:
                later_written[i] |= {c if isinstance(c, int) else c[1] for c in n.assigned_cells()}
        self.other_reads = set()
        prefixes = [(dict(self.nests[-1].invariant), [])]      # (known values, conditions so far)
        for i, (n1, n2) in enumerate(zip(self.nests, self.nests[1:])):
            nxt = []
            for blocks, dec in enum_paths(b, self.ex, start=n1.exit, stop={n2.outer}):
                if blocks[-1] != n2.outer:
                    raise ShapeNotRecognised("get_evaluation: code between two board walks can leave the function")
                env, conds = loopseg.eval_segment(b, blocks[:-1], blocks[-1])
                for v in env.values():
                    self.other_reads |= loopseg.undef_cells(v)
                for c in conds:
                    self.other_reads |= loopseg.undef_cells(c[0])
                for known, sofar in prefixes:
                    nz = lambda e: self.fold_side(loopseg.subst_simplify(loopseg.subst_simplify(e, n2.invariant), known))
                    nconds = [(nz(c[0]),) + tuple(c[1:]) for c in conds]
                    if any(self.decided(c[0], c) is False for c in nconds):
                        continue
                    k2 = dict(known)
                    for l, v in env.items():
                        if l not in later_written[i]:
                            k2[loopseg.undef(l)] = nz(v)
                    nxt.append((k2, sofar + [c for c in nconds if self.decided(c[0], c) is None]))
            if not nxt or len(nxt) > 16:
                raise ShapeNotRecognised("get_evaluation: the code between two board walks has %d feasible paths" % len(nxt))
            prefixes = nxt
        self.tail = []
        for blocks, dec in enum_paths(b, self.ex, start=self.final_exit):
            if b.term(blocks[-1])["k"] != "return":
                continue
            env, conds = loopseg.eval_segment(b, blocks, None)
            if ("wild",) in env:
                raise ShapeNotRecognised("get_evaluation: after the board walk, %s" % env[("wild",)][1])
            res = env.get(0)
            if res is not None:
                self.other_reads |= loopseg.undef_cells(res)
            for c in conds:
                self.other_reads |= loopseg.undef_cells(c[0])
            for known, sofar in prefixes:
                nz = lambda e: self.fold_side(loopseg.subst_simplify(e, known))
                nconds = [(nz(c[0]),) + tuple(c[1:]) for c in conds]
                if any(self.decided(c[0], c) is False for c in nconds):
                    continue
                nconds = sofar + [c for c in nconds if self.decided(c[0], c) is None]
                # the same test made twice on one composed path must agree
                seen, ok = {}, True
                for c in nconds:
                    k = (c[0], tuple(c[3]))
                    v = (tuple(c[1]), c[2])
                    ok = ok and seen.setdefault(k, v) == v
                if ok:
                    self.tail.append((nz(res) if res is not None else None, nconds))

    def cname(self, c):
        return self.nests[0].cname(c)

    def affine_bounds(self):
        out = {}
        for n in self.nests:
            for bb, (ok, d) in n.affine_bounds().items():
                prev = out.get(bb)
                out[bb] = (ok and (prev is None or prev[0]), d)
        return out


def _table_values(f, fn):
    """kind -> 8x8 matrix (or scalar) returned by a per-kind table/value function, decided by running
    the function on every kind (finite instantiation, wa/finiteval.py): a `match` with one arm per
    kind, or-patterns, a lookup array indexed by `kind.index()`, `const` or immutable `static`
    tables all evaluate alike.  An index out of range, a loop, an unknown callee or a value that is
    not an integer / integer matrix is rejected."""
    from wa import finiteval
    from wa.interp import Unknown
    b = f.body(fn)
    if b.arg_count != 1 or b.local_ty(1) != "board::PieceKind":
        raise ShapeNotRecognised("%s is not a function of one PieceKind" % fn)
    out = {}
    for kind in f.enum_variant_by_discr("board::PieceKind").values():
        try:
            v = finiteval.run_fn(f, fn, [finiteval.enum_value("board::PieceKind", kind)])
        except Unknown as e:
            raise ShapeNotRecognised("%s(%s) cannot be evaluated: %r" % (fn, kind, e))
        isint = lambda x: isinstance(x, int) and not isinstance(x, bool)
        if isint(v):
            out[kind] = v
        elif isinstance(v, list) and v and all(isinstance(r, list) and r and all(isint(x) for x in r) for r in v):
            out[kind] = v
        else:
            raise ShapeNotRecognised("%s(%s): unrecognised return %r" % (fn, kind, str(v)[:60]))
    return out


def _colour_fn(f, fn):
    """{colour: colour} computed by a crate-local function PieceColor -> PieceColor (e.g. `opposite`),
    decided from its body path by path like the kind tables; None if it is not such a total map."""
    try:
        b = f.body(fn)
        if b.arg_count != 1 or b.local_ty(1) != "board::PieceColor" or b.local_ty(0) != "board::PieceColor" or b.loops():
            return None
        ex = Exprs(b)
        colours = f.enum_variant_by_discr("board::PieceColor")
        out = {}
        for blocks, dec in enum_paths(b, ex):
            if b.term(blocks[-1])["k"] != "return":
                continue
            admitted = set(colours.values())
            for d, (vals, oth) in dec.items():
                d0 = strip_refs(d)
                if d0[0] != "discr" or strip_refs(d0[1]) != ("arg", 1):
                    return None
                here = {colours[v] for v in vals if v in colours}
                admitted &= (set(colours.values()) - here) if oth else here
            env, conds = eval_path(b, blocks)
            r = strip_refs(env.get(0, ("opaque", "")))
            if not (r[0] == "agg" and r[1] == "board::PieceColor" and not r[3]):
                return None
            for c in admitted:
                if out.get(c, r[2]) != r[2]:
                    return None
                out[c] = r[2]
        return out if set(out) == set(colours.values()) else None
    except Exception:
        return None


def _call_of_kind(f, t):
    """t == fn(kind...) for a crate-local function -> (name, return type, args) else None."""
    t = strip_refs(t)
    if t[0] == "call" and f.has_body(t[1]):
        return t[1], f.body(t[1]).local_ty(0), tuple(strip_refs(a) for a in t[2])
    return None


def _classify(f, terms, const):
    """A contribution is either  T(k)[ri][ci] + V(k)  (T returns a reference to a table, V an i32)
    or  P(k)  (the phase weight of the piece).  Returns ('table', T, V, ri, ci, kinds) /
    ('phase', P, kinds) / None."""
    if const != 0 or any(c != 1 for c in terms.values()):
        return None
    ts = list(terms)
    cells = [t for t in ts if t[0] == "index" and t[1][0] == "index" and _call_of_kind(f, t[1][1])]
    calls = [t for t in ts if t[0] == "call" and _call_of_kind(f, t)]
    if len(ts) == 2 and len(cells) == 1 and len(calls) == 1:
        T = _call_of_kind(f, cells[0][1][1])
        V = _call_of_kind(f, calls[0])
        if T[1].startswith("&") and V[1] == "i32" and len(T[2]) == 1 and len(V[2]) == 1:
            return ("table", T[0], V[0], cells[0][1][2], cells[0][2], (T[2][0], V[2][0]))
    if len(ts) == 1 and len(calls) == 1:
        P = _call_of_kind(f, calls[0])
        if P[1] == "i32" and len(P[2]) == 1:
            return ("phase", P[0], (P[2][0],))
    return None


def _show_terms(p, b):
    if not p:
        return "?"
    return " ".join("%+d*%s" % (c, show_expr(t, b)[:40]) for t, c in sorted(p[0].items(), key=str)) or str(p[1])


MIN_FNS = ("std::cmp::Ord::min", "core::cmp::Ord::min", "std::cmp::min", "core::cmp::min")


def _upper_bound(P, facts_true):
    """Largest value expression P can take: a constant, `min(x, C)`, or x with `x <= C` known on the
    path (facts_true: list of (op, lhs, rhs) comparisons that hold).  None if unbounded."""
    P = strip_refs(P)
    if P[0] == "const" and isinstance(P[1], int):
        return P[1]
    best = None
    if P[0] == "call" and P[1] in MIN_FNS and len(P[2]) == 2:
        for a in P[2]:
            u = _upper_bound(a, facts_true)
            if u is not None:
                best = u if best is None else min(best, u)
    for op, lhs, rhs in facts_true:
        u = None
        if lhs == P and rhs[0] == "const":
            u = {"Le": rhs[1], "Lt": rhs[1] - 1, "Eq": rhs[1]}.get(op)
        elif rhs == P and lhs[0] == "const":
            u = {"Ge": lhs[1], "Gt": lhs[1] - 1, "Eq": lhs[1]}.get(op)
        if u is not None:
            best = u if best is None else min(best, u)
    return best


def _nonneg(P, is_phase_total):
    """P >= 0: a non-negative constant, a phase total (a sum of non-negative weights, see
    phase:bounded), or the minimum of such values."""
    P = strip_refs(P)
    if P[0] == "const" and isinstance(P[1], int):
        return P[1] >= 0
    if is_phase_total(P):
        return True
    if P[0] == "call" and P[1] in MIN_FNS and len(P[2]) == 2:
        return all(_nonneg(a, is_phase_total) for a in P[2])
    return False


def r14_2(ctx):
    """Mirror identity and the rest of the symmetry/bound argument."""
    from wa import finiteval
    from wa.interp import Unknown
    f = ctx.facts
    colour_names = sorted(f.enum_variant_by_discr("board::PieceColor").values())
    kind_names = [k for _, k in sorted(f.enum_variant_by_discr("board::PieceKind").items())]
    # the whole recognition is done once per hypothesis on the side to move
    folds = {S: Fold(f, S) for S in colour_names}
    fold = folds["White"]
    b = fold.b
    ctx.note_fn(GE)
    for S, fo in folds.items():
        if (fo.square_idx, fo.ranges, fo.kind_expr, fo.accs) != (fold.square_idx, fold.ranges, fold.kind_expr, fold.accs):
            raise ShapeNotRecognised("get_evaluation: the board walk differs with the side to move (other squares or other accumulators)")
    rank, file_ = fold.square_idx
    rr, cr = fold.ranges[rank], fold.ranges[file_]
    nsq = (rr[1] - rr[0]) * (cr[1] - cr[0])

    # ---- what each accumulator receives from one piece, fully instantiated:
    # side to move S, colour C and kind K of the piece -> acc -> ({(matrix, row index, col index): coeff}, constant)
    # Table and value lookups are *evaluated* for the kind (wa/finiteval.py), whether they are calls
    # `mg_table(kind)`, fields of a per-kind struct built by an inlined helper, or literals selected by a
    # `match kind` in the loop body; what is left symbolic is only the position (row, col).
    labels = {}       # matrix -> name of the function it came from (for obligation keys), if any
    failures = []

    def matrix_of(B):
        B = strip_refs(B)
        try:
            if B[0] == "call" and f.has_body(B[1]):
                args = []
                for a in B[2]:
                    a = strip_refs(a)
                    if not (a[0] == "agg" and a[2] and not a[3]):
                        return None
                    args.append(finiteval.enum_value(a[1], a[2]))
                m = finiteval.run_fn(f, B[1], args)
                name = B[1]
            elif B[0] == "static":
                m, name = finiteval.static_value(f, B[1]), None
            elif B[0] == "agg" and B[1] == "array":
                m, name = [[x[1] for x in row[3]] if (row[0] == "agg" and all(x[0] == "const" for x in row[3])) else None for row in B[3]], None
            else:
                return None
        except Unknown:
            return None
        isint = lambda x: isinstance(x, int) and not isinstance(x, bool)
        if not (isinstance(m, list) and m and all(isinstance(r, list) and r and all(isint(x) for x in r) for r in m)):
            return None
        key = tuple(tuple(r) for r in m)
        if name:
            labels.setdefault(key, set()).add(name)
        return key

    def instantiate(terms, const, K):
        kindv = ("agg", "board::PieceKind", K, ())
        cells, k0 = {}, const
        for t, coef in terms.items():
            t = loopseg.subst(t, {fold.kind_expr: kindv})
            if t[0] == "index" and t[1][0] == "index":
                m = matrix_of(t[1][1])
                if m is None:
                    return None
                key = (m, t[1][2], t[2])
                cells[key] = cells.get(key, 0) + coef
                continue
            v = None
            c = _call_of_kind(f, t)
            if c and all(a[0] == "agg" and a[2] and not a[3] for a in c[2]):
                try:
                    v = finiteval.run_fn(f, c[0], [finiteval.enum_value(a[1], a[2]) for a in c[2]])
                except Unknown:
                    v = None
            if not (isinstance(v, int) and not isinstance(v, bool)):
                return None
            k0 += coef * v
        return {k: c for k, c in cells.items() if c != 0}, k0

    contrib = {}
    for S, fo in folds.items():
        for (C, K), d in fo.per_ck.items():
            for l, (terms, const) in d.items():
                inst = instantiate(terms, const, K)
                if inst is None:
                    failures.append("%s of a %s %s: %s" % (fold.cname(l), C, K, " + ".join(show_expr(t, b)[:50] for t in terms)))
                    inst = ({("?", None, None): 1}, 0)
                contrib[(S, C, K, l)] = inst
    ctx.ob("fold:scores-the-square-it-visits", not failures, b.file,
           "every contribution is a table cell / value of the kind of the piece on board[row][col] of the loop variables%s" % (
               "" if not failures else "; not decodable: %s" % failures[:2]))

    def acc_local(t):
        """The accumulator cell a term of the tail denotes (its value when its loop nest is left)."""
        cs = loopseg.undef_cells(t)
        c = next(iter(cs)) if len(cs) == 1 else None
        return c if c in fold.accs and loopseg.cell_undef(c) == t else None

    def per_piece(lf, S, C, K):
        """What one piece (C, K) adds, with S to move, to the quantity with linear form `lf` over the
        accumulators: sum_l lf[l] * contribution(l; S, C, K), as (cells, const); None if lf is not a
        combination of accumulators."""
        if lf is None or lf[1] != 0 or not lf[0]:
            return None
        out, const = {}, 0
        for t, a in lf[0].items():
            l = acc_local(t)
            if l is None:
                return None
            cells, k0 = contrib.get((S, C, K, l), ({}, 0))
            const += a * k0
            for x, cx in cells.items():
                out[x] = out.get(x, 0) + a * cx
        return {x: cx for x, cx in out.items() if cx != 0}, const

    phase_vals = {}
    ptot = {}

    def is_phase_total(e):
        """e is a colour-blind, side-blind piece count: whatever the side to move and the colour of a
        piece, a piece of kind K adds the constant p(K) to it (one phase accumulator, `own + opp` ...)."""
        e = strip_refs(e)
        if e not in ptot:
            ok, vals = True, {}
            for K in kind_names:
                got = [per_piece(linear(e), S, C, K) for S in colour_names for C in colour_names] if linear(e) else [None]
                got = {(tuple(sorted(g[0].items(), key=str)), g[1]) if g else None for g in got}
                if len(got) != 1 or None in got or next(iter(got))[0]:
                    ok = False
                    break
                vals[K] = next(iter(got))[1]
            ptot[e] = ok
            if ok:
                phase_vals[e] = vals
        return ptot[e]

    def phase_only(e):
        """constants, phase totals and minima of them"""
        e = strip_refs(e)
        if e[0] == "const":
            return True
        if e[0] == "call" and e[1] in MIN_FNS:
            return all(phase_only(a) for a in e[2])
        return is_phase_total(e)

    def phase_totals_in(e):
        e = strip_refs(e)
        if e[0] == "const":
            return []
        if e[0] == "call" and e[1] in MIN_FNS:
            return [x for a in e[2] for x in phase_totals_in(a)]
        return [e]

    # ---- tail: side arms and blend (loop-free part after the last loop nest), per side to move
    results = {}
    for S, fo in folds.items():
        for res, other in fo.tail:
            key = frozenset((c[0], cond_truth(c), tuple(c[1])) for c in other)
            results[(S, key)] = (res, other)
    sides = {k[0] for k in results}
    ctx.ob("side-arms:both-present", sides == set(colour_names), b.file, "result computed on traces %s of board.to_move" % sorted(map(str, sides)))

    def decompose(res):
        """res = (MG*P + EG*(C - P)) / C -> (MG, EG, P, C) modulo commutativity."""
        if res is None or res[0] != "bin" or res[1] != "Div" or res[3][0] != "const":
            return None
        C = res[3][1]
        num = res[2]
        if num[0] != "bin" or num[1] != "Add":
            return None
        terms = []
        for t in (num[2], num[3]):
            if t[0] != "bin" or t[1] != "Mul":
                return None
            terms.append((t[2], t[3]))
        for (a1, p1), (a2, p2) in (terms, terms[::-1]):
            for (x1, y1) in ((a1, p1), (p1, a1)):
                for (x2, y2) in ((a2, p2), (p2, a2)):
                    # y2 must be C - y1
                    l2 = linear(y2)
                    l1 = linear(y1)
                    if l1 is None or l2 is None:
                        continue
                    if l2[1] == C and {k: -v for k, v in l1[0].items()} == l2[0] and l1[1] == 0 or (not l1[0] and not l2[0] and l1[1] + l2[1] == C):
                        return (x1, x2, y1, C)
        return None

    forms = {}
    suffix = {}
    keys = sorted({k[1] for k in results}, key=lambda k: sorted(map(str, k)))
    for key in keys:
        any_res = next(results[(s, key)][0] for s in ("White", "Black") if (s, key) in results)
        dcm = decompose(any_res)
        sfx = ":clamped" if (dcm is not None and strip_refs(dcm[2])[0] == "const") else ""
        while sfx in suffix.values():
            sfx += "'"
        suffix[key] = sfx
    for (side, key), (res, other) in sorted(results.items(), key=lambda kv: (kv[0][0], suffix[kv[0][1]])):
        dcm = decompose(res)
        k2 = "blend:%s%s" % (side, suffix[key])
        if dcm is None:
            ctx.ob(k2 + ":form", False, b.file, "result `%s` is not (mg*p + eg*(C-p)) / C with a truncating division" % show_expr(res, b)[:100], reason="rule-breach")
            continue
        MG, EG, P, C = dcm
        forms[(side, key)] = (linear(MG), linear(EG), P, C)
        ctx.ob(k2 + ":form", True, b.file, "result = (mg*p + eg*(%d-p)) / %d, truncating (odd) division" % (C, C))
        # the weight is a convex one: 0 <= p <= C on this path (else the blend extrapolates and the bound below is void)
        facts_true = []
        neg = {"Gt": "Le", "Ge": "Lt", "Lt": "Ge", "Le": "Gt", "Eq": "Ne", "Ne": "Eq"}
        for c in other:
            d, tr = strip_refs(c[0]), cond_truth(c)
            if d[0] == "bin" and d[1] in neg and tr is not None:
                facts_true.append((d[1] if tr else neg[d[1]], strip_refs(d[2]), strip_refs(d[3])))
        ub = _upper_bound(P, facts_true)
        ctx.ob("blend:phase-weight-in-range:%s%s" % (side, suffix[key]), ub is not None and ub <= C and _nonneg(P, is_phase_total), b.file,
               "phase weight p = %s lies in [0, %d] on this path (upper bound %s): the blend is a convex combination of the two phase scores" % (show_expr(P, b)[:40], C, ub))
        # every other decision of the tail is a function of the colour-free phase total
        for c in other:
            d = strip_refs(c[0])
            ok = d[0] == "bin" and d[1] in neg and phase_only(d[2]) and phase_only(d[3])
            ctx.ob("blend:condition-colour-free:%s%s" % (side, suffix[key]), ok, b.file, "the tail branches on `%s`" % show_expr(c[0], b)[:60])

    # antisymmetry: per piece, what it adds with Black to move is the negation of what it adds with
    # White to move (two-sided accumulators: `b - w` against `w - b`; per-side passes: the pass
    # parameter changes with the side); phase weight identical;
    # orientation: with White to move each phase score adds  M_K[ri][ci] + v_K  for a white piece of
    # kind K and subtracts  M_K[ri'][ci'] + v_K  for a black one
    named_totals = set()
    tabs = {}       # 'mg' | 'eg' -> {K: (white (matrix, ri, ci, v), black (matrix, ri, ci, v))}

    def one_cell(pp, sign):
        """pp == sign * (cell + v) -> (matrix, ri, ci, v) else None"""
        if not pp or len(pp[0]) != 1:
            return None
        (key, coef), = pp[0].items()
        if coef != sign or key[0] == "?":
            return None
        return key + (sign * pp[1],)

    def show_pp(pp):
        if not pp:
            return "?"
        return " ".join("%+d*table[%s][%s]" % (c, show_expr(k[1], b)[:20], show_expr(k[2], b)[:20]) if k[0] != "?" else "?" for k, c in pp[0].items()) + " %+d" % pp[1]
    for key in keys:
        sfx = suffix[key]
        w, k = forms.get(("White", key)), forms.get(("Black", key))
        if not w or not k:
            if ("White", key) in results and ("Black", key) in results:
                continue      # blend form already reported
            ctx.ob("side-arms:paired%s" % sfx, False, b.file, "a path of the tail exists for only one side to move (conditions %s)" % [show_expr(c[0], b)[:40] for c in key])
            continue
        ok = w[2] == k[2] and w[3] == k[3]
        for i in (0, 1):
            for C in colour_names:
                for K in kind_names:
                    pw_, pk_ = per_piece(w[i], "White", C, K), per_piece(k[i], "Black", C, K)
                    ok = ok and pw_ is not None and pk_ is not None and pk_ == ({x: -c for x, c in pw_[0].items()}, -pw_[1])
        ctx.ob("side-arms:antisymmetric%s" % sfx, bool(ok), b.file,
               "with Black to move every piece adds to both phase scores the negation of what it adds with White to move, and the phase weight is the same")
        for i, nm in enumerate(("mg", "eg")):
            per_kind, ok, ex_w, ex_b = {}, True, None, None
            for K in kind_names:
                pw, pb = per_piece(w[i], "White", "White", K), per_piece(w[i], "White", "Black", K)
                cw, cb = one_cell(pw, 1), one_cell(pb, -1)
                ex_w, ex_b = ex_w or pw, ex_b or pb
                if cw is None or cb is None or cw[0] != cb[0]:
                    ok, ex_w, ex_b = False, pw, pb
                    break
                per_kind[K] = (cw, cb)
            if ok:
                ok = tabs.setdefault(nm, per_kind) == per_kind
            ctx.ob("side-arms:%s-orientation%s" % (nm, sfx), ok, b.file,
                   "with White to move the %s score adds table[..][..] + value of one table per kind for every white piece and subtracts it for every black piece: e.g. white piece %s, black piece %s" % (
                       nm, show_pp(ex_w), show_pp(ex_b)))
        # phase weight: function of the phase total only
        P = w[2]
        ctx.ob("blend:phase-weight-colour-free%s" % sfx, phase_only(P), b.file, "phase weight p = %s" % show_expr(P, b)[:50])
        for e in phase_totals_in(P):
            if e not in named_totals:
                named_totals.add(e)
                accs_in = sorted(fold.cname(c) for c in loopseg.undef_cells(e))
                ctx.ob("phase:%s:colour-independent" % "+".join(accs_in), is_phase_total(e), b.file,
                       "whatever its colour and the side to move, a piece adds the same phase weight P(kind) to `%s`" % show_expr(e, b)[:60])
    # ---- mirror identity per phase score (labelled by the table function when there is one)
    shape_ok = len(tabs) == 2
    ctx.ob("fold:shape", shape_ok, b.file,
           "evaluation is a fold over %s x %s; per phase score a white piece adds and a black piece subtracts table[..][..] + value of the table of its kind" % (
               fold.ranges[0], fold.ranges[1]), reason="shape-not-recognised")
    if not shape_ok:
        return
    item_name = {("item", rank): "row", ("item", file_): "col"}
    bounds = {}
    for nm, per_kind in sorted(tabs.items()):
        names = {n for K in kind_names for n in labels.get(per_kind[K][0][0], ())}
        short = next(iter(names)).split("::")[-1] if len(names) == 1 else nm
        where = b.file
        ctx.ob("mirror:%s:same-value-function" % short, all(cw[3] == cb[3] for cw, cb in per_kind.values()), where,
               "for every kind both colours add the same material value next to the table cell: %s" % {K: (cw[3], cb[3]) for K, (cw, cb) in per_kind.items()})
        verdict = {"forms": True, "row": True, "col": True}
        detail = ""
        for K, (cw, cb) in per_kind.items():
            lw_r, lb_r, lw_c, lb_c = linear(cw[1]), linear(cb[1]), linear(cw[2]), linear(cb[2])
            if not all(x is not None and len(x[0]) == 1 for x in (lw_r, lb_r, lw_c, lb_c)):
                verdict["forms"] = False
                continue
            (rw, aw), = lw_r[0].items()
            (rb, ab), = lb_r[0].items()
            (cw_, acw), = lw_c[0].items()
            (cb_, acb), = lb_c[0].items()
            bw, bb_ = lw_r[1], lb_r[1]
            same_vars = rw == rb == ("item", rank) and cw_ == cb_ == ("item", file_)
            # black at row r must use what white uses at row FLIP - r:  aw*(FLIP - r) + bw == ab*r + bb
            verdict["row"] = verdict["row"] and same_vars and ab == -aw and bb_ == aw * FLIP + bw
            verdict["col"] = verdict["col"] and same_vars and acw == acb and lw_c[1] == lb_c[1]
            detail = "white row index %+d*%s%+d, black row index %+d*%s%+d (the colour mirror maps row r to %d-r, so black must index %+d*row%+d); column index white %+d*%s%+d, black %+d*%s%+d" % (
                aw, item_name.get(rw, "?"), bw, ab, item_name.get(rb, "?"), bb_, FLIP, -aw, aw * FLIP + bw, acw, item_name.get(cw_, "?"), lw_c[1], acb, item_name.get(cb_, "?"), lb_c[1])
        if not verdict["forms"]:
            ctx.ob("mirror:%s:index-forms" % short, False, where, "table indices are not affine in the loop variables", reason="shape-not-recognised")
        else:
            ctx.ob("mirror:%s:row-identity" % short, verdict["row"], where, detail)
            ctx.ob("mirror:%s:column-identity" % short, verdict["col"], where, detail + " (files are not mirrored)")
        dims = {(len(cw[0]), len(cw[0][0])) for cw, cb in per_kind.values()}
        ctx.ob("tables:%s:8x8" % short, dims == {(8, 8)}, b.file, "table shapes %s" % sorted(dims))
        bounds[nm] = max(abs(x + cw[3]) for cw, cb in per_kind.values() for row in cw[0] for x in row)
    ctx.ob("fold:visits-64-squares", rr == (2, 10) and cr == (2, 10), b.file, "rows %s, columns %s" % (rr, cr))
    # ---- bound
    mate = f.const_value("engine::MATE_SCORE")
    max_depth = f.const_value("search::MAX_DEPTH") if f.has_const("search::MAX_DEPTH") else 100
    M = max(bounds.values())
    total = nsq * M
    margin = max(15, int(max_depth))
    ctx.ob("bound:below-mate-window", total < mate - margin, b.file,
           "|evaluation| <= %d squares x max per-square contribution %d = %d; must stay below MATE_SCORE - %d = %d so that no material score is mistaken for a mate" % (
               nsq, M, total, margin, mate - margin))
    # phase values and overflow
    pmax = 0
    for e, vals in sorted(phase_vals.items(), key=str):
        pmax = max(pmax, max(vals.values()) * nsq)
        ctx.ob("phase:bounded", min(vals.values()) >= 0 and pmax < 2**31, b.file, "phase per piece in [%d, %d]" % (min(vals.values()), max(vals.values())))
    # running totals: |accumulator| <= squares x largest |contribution| it can receive from one piece
    acc_max = 0
    for (S, C, K, l), (cells, k0) in contrib.items():
        if any(k[0] == "?" for k in cells):
            acc_max = None
            break
        acc_max = max(acc_max, nsq * (abs(k0) + sum(abs(c) * max(abs(x) for row in k[0] for x in row) for k, c in cells.items())))
    C = next(iter(forms.values()))[3] if forms else 24
    big = max(total, acc_max or 0)
    worst = 2 * big * max(C, pmax) * 2
    ctx.ob("overflow:i32", acc_max is not None and worst < 2**31, b.file,
           "running totals <= %s, scores <= %d; largest intermediate |2 * %d * %d * 2| = %d < 2^31" % (acc_max, total, big, max(C, pmax), worst))
    # in-bounds: every bounds assert by intervals
    # (by intervals, or - inside the loop nest - by evaluating the affine index over the counter ranges)
    iv = Intervals(b)
    aff = {}
    for fo in folds.values():       # a check must hold under every hypothesis whose segments contain it
        for bb, (ok, d) in fo.affine_bounds().items():
            aff[bb] = (ok and aff.get(bb, (True,))[0], d)
    nb = 0
    for bb in b.normal:
        if bb in b.reachable and b.term(bb)["k"] == "assert" and b.term(bb)["assert_kind"] == "bounds":
            nb += 1
            ok, d = iv.assert_holds(bb)
            if not ok and aff.get(bb, (False,))[0]:
                ok, d = aff[bb]
            ctx.ob("bounds#%d" % nb, ok, b.where(b.term_loc(bb)), d)
    # sub-slices taken with a constant range (`board.board[2..10]`) must fit the array they are taken from
    ex = fold.ex
    for bb, t in b.iter_calls():
        c = callee_of(t) or ""
        tys = t.get("arg_tys") or []
        if c.endswith("::index") and len(tys) == 2 and tys[1].startswith("std::ops::Range"):
            import re
            m = re.search(r"; (\d+)\]$", tys[0])
            rng = strip_refs(ex.call_args(bb)[1])
            consts = rng[0] == "agg" and len(rng[3]) == 2 and all(z[0] == "const" and isinstance(z[1], int) for z in rng[3])
            ok = bool(m) and consts and 0 <= rng[3][0][1] <= rng[3][1][1] <= int(m.group(1))
            ctx.ob("slice-bounds:%s" % show_expr(rng, b)[:30], ok, b.where(b.term_loc(bb)), "sub-slice %s of `%s`" % (show_expr(rng, b)[:30], tys[0]))
    # vacuity guard only: the board read and at least one table read carry a compiler-inserted check
    ctx.floor("bounds checks in get_evaluation", nb, 2)
