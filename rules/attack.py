"""Attack test rules: R1.3 / R6.4 (every attack class depends on the probed square; the king
class reads the enemy king's cached square)."""
from wa.mir import AnchorMissing, ShapeNotRecognised
from wa.expr import Exprs, data_slice, show_expr, strip_refs
from wa.cond import enum_value_on_trace

ICC = "move_generation::is_check_cords"
PIECE_CTORS = {"board::Piece::rook": "rook", "board::Piece::queen": "queen", "board::Piece::bishop": "bishop",
               "board::Piece::knight": "knight", "board::Piece::pawn": "pawn"}
KING_FIELDS = {"white_king_location": "White", "black_king_location": "Black"}


def _params(b):
    board = color = sq = None
    for i in range(1, b.arg_count + 1):
        ty = b.local_ty(i)
        if ty == "&board::BoardState":
            board = i
        elif ty == "board::PieceColor":
            color = i
        elif ty == "board::Point":
            sq = i
    if None in (board, color, sq):
        raise ShapeNotRecognised("is_check_cords(board, colour, square) parameters not found")
    return board, color, sq


def deciders(b, ex):
    """(loc, expr) of every expression that decides the result: switch conditions and
    non-constant values assigned to the return place."""
    out = []
    for bb in b.normal:
        if bb in b.reachable and b.term(bb)["k"] == "switch":
            out.append((b.term_loc(bb), ex.switch_discr(bb)))
    for loc, st in b.iter_stmts():
        if st["k"] == "assign" and st["place"]["local"] == 0 and not st["place"]["proj"]:
            e = ex.rvalue(st["rv"], loc)
            if e[0] != "const":
                out.append((loc, e))
    return out


def r1_3(ctx):
    f = ctx.facts
    b = f.body(ICC)
    ctx.note_fn(ICC)
    ex = Exprs(b)
    board, color, sq = _params(b)
    colours = f.enum_variant_by_discr("board::PieceColor")
    classes = {}
    king = []
    for loc, e in deciders(b, ex):
        sl = data_slice(ex, e)
        kinds = set()
        for x in sl:
            if x[0] == "call" and x[1] in PIECE_CTORS:
                kinds.add(PIECE_CTORS[x[1]])
        has_king = any(x[0] == "field" and x[2] in KING_FIELDS for x in sl)
        dep_sq = any(x == ("arg", sq) for x in sl)
        for kd in kinds:
            classes.setdefault(kd, []).append((loc, dep_sq, e))
        if has_king:
            king.append((loc, dep_sq, e))
    for kd in ("rook", "queen", "bishop", "knight", "pawn"):
        lst = classes.get(kd, [])
        if not lst:
            ctx.ob("is_check_cords:%s-class:present" % kd, False, b.file,
                   "no deciding comparison against Piece::%s(attacker) found" % kd, reason="anchor-missing")
            continue
        bad = [(loc, e) for loc, dep, e in lst if not dep]
        ctx.ob("is_check_cords:%s-class" % kd, not bad, b.where(bad[0][0]) if bad else b.where(lst[0][0]),
               "%d deciding comparison(s) against Piece::%s; all must depend on the probed square%s" % (
                   len(lst), kd, "" if not bad else "; this one does not: " + show_expr(bad[0][1], b)[:160]))
    if not king:
        ctx.ob("is_check_cords:king-class", False, b.file,
               "no deciding comparison reads a king location: adjacency of the enemy king is not tested")
    else:
        bad = [(loc, e) for loc, dep, e in king if not dep]
        ctx.ob("is_check_cords:king-class", not bad, b.where((bad or king)[0][0]),
               "%d deciding comparison(s) on the king squares; each must depend on the probed square%s" % (
                   len(king), "" if not bad else ": `%s` does not (it compares the two cached king squares with each other)" % show_expr(bad[0][1], b)[:200]))
    # enemy-field discipline: a king square read on the trace colour==C must be the field of C's enemy
    nreads = 0
    for loc, st in b.iter_stmts():
        if st["k"] != "assign":
            continue
        rv = st["rv"]
        places = []
        if rv["k"] == "use" and rv["op"]["k"] in ("copy", "move"):
            places.append(rv["op"]["place"])
        elif rv["k"] == "ref":
            places.append(rv["place"])
        for p in places:
            if p["local"] != board:
                continue
            fields = [e["name"] for e in p["proj"] if e["k"] == "field"]
            if not fields or fields[0] not in KING_FIELDS:
                continue
            nreads += 1
            owner = KING_FIELDS[fields[0]]
            poss = enum_value_on_trace(b, ex, loc[0], ("arg", color), colours)
            ok = poss == ({"White", "Black"} - {owner})
            ctx.ob("is_check_cords:king-class:enemy-field:%s" % fields[0], ok, b.where(loc),
                   "reads %s's king square where the defender colour may be %s; it must be read only when the defender is the other colour" % (owner, sorted(poss)))
    ctx.floor("king square reads", nreads, 2)
