"""Attack test rules: R1.3 / R6.4 (every attack class depends on the probed square; the king
class reads the enemy king's cached square)."""
from wa.mir import AnchorMissing, ShapeNotRecognised
from wa.expr import Exprs, data_slice, show_expr, strip_refs
from wa.cond import enum_value_on_trace
from wa.itermodel import xbody

ICC = "move_generation::is_check_cords"
OPPOSITE = "board::PieceColor::opposite"
PIECE_CTORS = {"board::Piece::rook": "rook", "board::Piece::queen": "queen", "board::Piece::bishop": "bishop",
               "board::Piece::knight": "knight", "board::Piece::pawn": "pawn"}
KING_FIELDS = {"white_king_location": "White", "black_king_location": "Black"}


def _params(b):
    board = color = sq = None
    for i in range(1, b.arg_count + 1):
        ty = b.local_ty(i)
        if ty == "&board::BoardState":
            board = i
        elif ty == "board::PieceColor":
            color = i
        elif ty == "board::Point":
            sq = i
    if None in (board, color, sq):
        raise ShapeNotRecognised("is_check_cords(board, colour, square) parameters not found")
    return board, color, sq


def colour_on_trace(b, ex, bb, colour, colours):
    """Possible values of the colour expression on entry to bb, from dominating tests on the colour
    itself or on its opposite (`match c.opposite() { Black => .. }` says as much about c as
    `match c { White => .. }`; `opposite` is the swap, R0.1)."""
    poss = enum_value_on_trace(b, ex, bb, colour, colours)
    opp = enum_value_on_trace(b, ex, bb, ("call", OPPOSITE, (colour,), None), colours)
    swap = {"White": "Black", "Black": "White"}
    return poss & {swap.get(c, c) for c in opp}


class AttackTest:
    """The square-attack test: the function is_check hands the king square to.  It is looked up by
    name when the reference name exists, else by role (the one crate-local fn(&BoardState, PieceColor,
    Point) -> bool, in any parameter order, that is_check calls).  `polarity` says what its colour
    parameter means, read off the body: 'defender' if every attacking piece is built with
    opposite(param), 'attacker' if with the parameter itself, None if mixed."""

    def __init__(self, f):
        self.name = ICC
        if not f.has_body(ICC):
            raw = f.d["bodies"].get(IS_CHECK)
            cands = set()
            for blk in (raw or {}).get("blocks", []):
                t = blk["term"]
                c = t.get("resolved") or t.get("callee") if t["k"] == "call" else None
                cb = f.d["bodies"].get(c) if c else None
                if cb is None or cb.get("kind") not in ("Fn", "AssocFn"):
                    continue
                tys = sorted(l["ty"] for l in cb["locals"][1:cb["arg_count"] + 1])
                if tys == sorted(["&board::BoardState", "board::PieceColor", "board::Point"]) and cb["locals"][0]["ty"] == "bool":
                    cands.add(c)
            if len(cands) != 1:
                raise AnchorMissing("square-attack test not found: no `%s` and is_check calls %d candidate functions" % (ICC, len(cands)))
            self.name = next(iter(cands))
        b = xbody(f, self.name)
        ex = Exprs(b)
        self.board, self.color, self.sq = _params(b)
        cols = set()
        for bb, t in b.iter_calls():
            if callee_of(t) in PIECE_CTORS:
                cols.add(strip_refs(ex.call_args(bb)[0]))
        me = ("arg", self.color)
        self.polarity = "defender" if cols == {("call", OPPOSITE, (me,), None)} else "attacker" if cols == {me} else None

    def attacker_expr(self):
        me = ("arg", self.color)
        return me if self.polarity == "attacker" else ("call", OPPOSITE, (me,), None)

    def attackers(self, param_values):
        """Possible attacker colours given the possible values of the colour parameter."""
        swap = {"White": "Black", "Black": "White"}
        return set(param_values) if self.polarity == "attacker" else {swap.get(c, c) for c in param_values}

    def colour_arg_for(self, defender):
        """The colour a caller must pass to ask 'is a square of `defender` attacked'."""
        return defender if self.polarity != "attacker" else {"White": "Black", "Black": "White"}[defender]


def attack_test(f):
    if "_attack_test" not in f.__dict__:
        f.__dict__["_attack_test"] = AttackTest(f)
    return f.__dict__["_attack_test"]


def deciders(b, ex):
    """(loc, expr) of every expression that decides the result: switch conditions and
    non-constant values assigned to the return place."""
    out = []
    for bb in b.normal:
        if bb in b.reachable and b.term(bb)["k"] == "switch":
            out.append((b.term_loc(bb), ex.switch_discr(bb)))
    for loc, st in b.iter_stmts():
        if st["k"] == "assign" and st["place"]["local"] == 0 and not st["place"]["proj"]:
            e = ex.rvalue(st["rv"], loc)
            if e[0] != "const":
                out.append((loc, e))
    return out


def r1_3(ctx):
    f = ctx.facts
    T = attack_test(f)
    b = xbody(f, T.name)
    ctx.note_fn(T.name)
    ex = Exprs(b)
    board, color, sq = _params(b)
    colours = f.enum_variant_by_discr("board::PieceColor")
    kind_names = f.enum_variant_by_discr("board::PieceKind")
    classes = {}
    king = []
    for loc, e in deciders(b, ex):
        sl = data_slice(ex, e)
        kinds = set()
        for x in sl:
            if x[0] == "call" and x[1] in PIECE_CTORS:
                kinds.add(PIECE_CTORS[x[1]])
        # a structural test: `match blocker.kind { Queen => .., Rook if .. => .., _ => .. }` decides on
        # the kinds it names
        if e[0] == "discr" and "PieceKind" in str(e[2]) and b.term(loc[0])["k"] == "switch" and loc == b.term_loc(loc[0]):
            for v, tg in b.term(loc[0])["cases"]:
                if v in kind_names and b.blocks[tg]["term"]["k"] != "unreachable":
                    kinds.add(kind_names[v].lower())
        has_king = any(x[0] == "field" and x[2] in KING_FIELDS for x in sl)
        dep_sq = any(x == ("arg", sq) for x in sl)
        for kd in kinds:
            classes.setdefault(kd, []).append((loc, dep_sq, e))
        if has_king:
            king.append((loc, dep_sq, e))
    for kd in ("rook", "queen", "bishop", "knight", "pawn"):
        lst = classes.get(kd, [])
        if not lst:
            ctx.ob("is_check_cords:%s-class:present" % kd, False, b.file,
                   "no deciding comparison against Piece::%s(attacker) found" % kd, reason="anchor-missing")
            continue
        bad = [(loc, e) for loc, dep, e in lst if not dep]
        ctx.ob("is_check_cords:%s-class" % kd, not bad, b.where(bad[0][0]) if bad else b.where(lst[0][0]),
               "%d deciding comparison(s) against Piece::%s; all must depend on the probed square%s" % (
                   len(lst), kd, "" if not bad else "; this one does not: " + show_expr(bad[0][1], b)[:160]))
    if not king:
        ctx.ob("is_check_cords:king-class", False, b.file,
               "no deciding comparison reads a king location: adjacency of the enemy king is not tested")
    else:
        bad = [(loc, e) for loc, dep, e in king if not dep]
        ctx.ob("is_check_cords:king-class", not bad, b.where((bad or king)[0][0]),
               "%d deciding comparison(s) on the king squares; each must depend on the probed square%s" % (
                   len(king), "" if not bad else ": `%s` does not (it compares the two cached king squares with each other)" % show_expr(bad[0][1], b)[:200]))
    # enemy-field discipline: a king square read on the trace colour==C must be the field of C's enemy
    nreads = 0
    for loc, st in b.iter_stmts():
        if st["k"] != "assign":
            continue
        rv = st["rv"]
        places = []
        if rv["k"] == "use" and rv["op"]["k"] in ("copy", "move"):
            places.append(rv["op"]["place"])
        elif rv["k"] == "ref":
            places.append(rv["place"])
        for p in places:
            # the place read is <board>.<king field>..., whatever local holds the board reference
            # (the parameter itself or a copy of it handed to a helper)
            k = next((i for i, e in enumerate(p["proj"]) if e["k"] == "field"), None)
            if k is None or p["proj"][k]["name"] not in KING_FIELDS:
                continue
            base = strip_refs(ex.place({"local": p["local"], "proj": p["proj"][:k], "ty": None}, loc))
            if base != ("arg", board):
                continue
            fname = p["proj"][k]["name"]
            nreads += 1
            owner = KING_FIELDS[fname]
            poss = T.attackers(colour_on_trace(b, ex, loc[0], ("arg", color), colours))
            ok = poss == {owner}
            ctx.ob("is_check_cords:king-class:enemy-field:%s" % fname, ok, b.where(loc),
                   "reads %s's king square where the attacking colour may be %s; it must be read only when %s is the attacker" % (owner, sorted(poss), owner))
    ctx.floor("king square reads", nreads, 1)


# ---- C06: R6.1 is_check, R6.2 attack tables, R6.3 ray walk, R6.4 king adjacency (finite instantiation)
from wa.expr import subexprs, root_local
from wa.cond import dominating_facts
from wa.interp import eval_expr, walk, Unknown
from wa.mir import callee_of, operand_alias
from . import chess

IS_CHECK = "move_generation::is_check"
SQ_EQ = "<board::Square as std::cmp::PartialEq<board::Piece>>::eq"


def r6_1(ctx):
    """is_check(board, c) probes c's own cached king square with colour c: decided on the body
    specialised under the hypothesis colour == C (so a `match`, an `if c == White`, or a helper that
    selects the square all reduce to the one call that is feasible for C)."""
    from wa.cond import specialise
    f = ctx.facts
    T = attack_test(f)
    b0 = xbody(f, IS_CHECK, keep={T.name})
    ctx.note_fn(IS_CHECK)
    colours = f.enum_variant_by_discr("board::PieceColor")
    cp = [i for i in range(1, b0.arg_count + 1) if b0.local_ty(i) == "board::PieceColor"][0]
    bp = [i for i in range(1, b0.arg_count + 1) if b0.local_ty(i) == "&board::BoardState"][0]
    seen = set()
    for cname in sorted(colours.values()):
        b, ex, dead = specialise(b0, {("arg", cp): ("eq", cname)}, {("arg", cp): colours})
        calls = list(b.iter_calls(callee=T.name))
        okall = bool(calls)
        where = b.file
        detail = []
        want_c = T.colour_arg_for(cname)
        for bb, t in calls:
            args = ex.call_args(bb)
            ca = strip_refs(args[T.color - 1])
            sq = strip_refs(args[T.sq - 1])
            # the colour passed, as a value under the hypothesis colour == cname
            cv = cname if ca == ("arg", cp) else {"White": "Black", "Black": "White"}[cname] if ca == ("call", OPPOSITE, (("arg", cp),), None) else ca[2] if ca[0] == "agg" else None
            okc = cv == want_c
            oks = sq[0] == "field" and sq[2] == "%s_king_location" % cname.lower() and strip_refs(sq[1]) == ("arg", bp)
            okb = strip_refs(args[T.board - 1]) == ("arg", bp)
            okall = okall and okc and oks and okb
            where = b.where(b.term_loc(bb))
            detail.append("%s(board=%s, colour=%s, square=%s)" % (T.name.split("::")[-1], show_expr(strip_refs(args[T.board - 1]), b), show_expr(ca, b), show_expr(sq, b)))
        if okall:
            seen.add(cname)
        ctx.ob("is_check:%s" % cname, okall, where,
               "on the trace colour=%s: %s; must probe that colour's own king square%s" % (
                   cname, "; ".join(detail) or "no call of the square-attack test", " (the test's colour parameter is the attacker)" if T.polarity == "attacker" else ""))
    ctx.ob("is_check:both-colours", seen == {"White", "Black"}, b0.file, "colours handled: %s" % sorted(seen))


def table_loops(b, ex):
    """Outer loops iterating a constant table of (i8, i8) offsets: {header: (loop blocks, offsets, item expr)}."""
    out = {}
    loops = b.loops()
    for h, body_ in loops.items():
        for x in body_:
            if b.term(x)["k"] != "switch":
                continue
            d = ex.switch_discr(x)
            if d[0] == "discr" and d[1][0] == "call" and d[1][1].endswith("::next"):
                tab = None
                for y in data_slice(ex, strip_refs(d[1][2][0])):
                    if y[0] == "agg" and y[1] == "array" and y[3] and all(z[0] == "agg" and z[1] == "tuple" and len(z[3]) == 2 for z in y[3]):
                        tab = {(z[3][0][1], z[3][1][1]) for z in y[3]}
                if tab is not None and not any(body_ < loops[o] and o in out for o in loops):
                    out[h] = (body_, tab, ("field", ("downcast", d[1], "Some"), "0"))
    return out


def _piece_tests(b, ex, blocks):
    """[(bb, kind name, colour expr, square expr)] of `square == Piece::kind(colour)` comparisons made
    in blocks (whether the result is branched on at once or first bound to a name)."""
    res = []
    for s in sorted(blocks):
        t = b.term(s)
        if s not in b.reachable or t["k"] != "call" or callee_of(t) != SQ_EQ:
            continue
        args = ex.call_args(s)
        p = strip_refs(args[1])
        if p[0] == "call" and p[1] in PIECE_CTORS:
            res.append((s, PIECE_CTORS[p[1]], strip_refs(p[2][0]), strip_refs(args[0])))
    return res


class Undecided(Exception):
    pass


KINDS = ("Pawn", "Knight", "Bishop", "Rook", "Queen", "King")
CTOR_KIND = {"board::Piece::rook": "Rook", "board::Piece::queen": "Queen", "board::Piece::bishop": "Bishop",
             "board::Piece::knight": "Knight", "board::Piece::pawn": "Pawn", "board::Piece::king": "King"}


def _aval(e, m):
    """Concrete value of an (erased) expression for one instantiation m = {f, comps: {expr: int}, C:
    value of the colour parameter, color: its local, is_cur(e), state: 'empty' | 'boundary' |
    (colour, kind)}.  Enum values are variant names.  Raises Undecided."""
    from wa.mir import fold_binop
    f = m["f"]
    if e in m["comps"]:
        return m["comps"][e]
    k = e[0]
    if k == "const":
        return e[1]
    if k == "arg" and e[1] == m["color"]:
        return m["C"]
    if k == "agg" and not e[3] and e[2] and e[1] not in ("tuple", "array", "closure"):
        return e[2]
    if k == "agg" and e[3] and e[1] not in ("array", "closure"):
        # a value with payload, e.g. Some(kind of the blocker): compared structurally
        return ("agg", e[1], e[2], tuple(_aval(x, m) for x in e[3]))
    if m["is_cur"](e):
        return ("square", m["state"])
    if k == "un" and e[1] == "Not":
        v = _aval(e[2], m)
        if isinstance(v, bool):
            return not v
        raise Undecided(e)
    if k == "un" and e[1] == "Neg":
        return -_aval(e[2], m)
    if k == "bin":
        x, y = _aval(e[2], m), _aval(e[3], m)
        op = e[1].replace("WithOverflow", "")
        if op in ("BitAnd", "BitOr") and isinstance(x, bool) and isinstance(y, bool):
            return (x and y) if op == "BitAnd" else (x or y)
        if isinstance(x, tuple) or isinstance(y, tuple):
            if op in ("Eq", "Ne"):
                return (x == y) == (op == "Eq")
            raise Undecided(e)
        r = fold_binop(op, x, y)
        if r is None:
            raise Undecided(e)
        return r
    if k == "call":
        name = e[1]
        if name == OPPOSITE:
            return {"White": "Black", "Black": "White"}[_aval(e[2][0], m)]
        if name in CTOR_KIND:
            return ("piece", _aval(e[2][0], m), CTOR_KIND[name])
        if name in ("board::Square::is_empty", "board::Square::is_color", "board::Square::is_empty_or_color"):
            sqv = _aval(e[2][0], m)
            if not (isinstance(sqv, tuple) and sqv[0] == "square"):
                raise Undecided(e)
            stt = sqv[1]
            if name.endswith("is_empty"):
                return stt == "empty"
            c = _aval(e[2][1], m)
            isc = isinstance(stt, tuple) and stt[0] == c
            return isc if name.endswith("is_color") else (isc or stt == "empty")
        if name == SQ_EQ:
            sqv, pv = _aval(e[2][0], m), _aval(e[2][1], m)
            if isinstance(sqv, tuple) and sqv[0] == "square" and isinstance(pv, tuple) and pv[0] == "piece":
                return sqv[1] == (pv[1], pv[2])
            raise Undecided(e)
        raise Undecided(e)
    if k == "discr":
        v = _aval(e[1], m)
        if isinstance(v, tuple) and v[0] == "square":
            names = f.enum_variants("board::Square")
            return names["Empty"] if v[1] == "empty" else names["Boundary"] if v[1] == "boundary" else names["Full"]
        if isinstance(v, str):
            for ty in ("board::PieceColor", "board::PieceKind"):
                names = f.enum_variants(ty)
                if v in names and (e[2] is None or ty in str(e[2])):
                    return names[v]
        raise Undecided(e)
    if k == "field":
        base = e[1]
        # (S as Full).0 is the piece on the square
        if e[2] in ("color", "kind") and base[0] == "field" and base[2] == "0" and base[1][0] == "downcast" and base[1][2] == "Full":
            sqv = _aval(base[1][1], m)
            if isinstance(sqv, tuple) and sqv[0] == "square" and isinstance(sqv[1], tuple):
                return sqv[1][0] if e[2] == "color" else sqv[1][1]
            raise Undecided(e)
        v = _aval(base, m)
        if isinstance(v, tuple) and v and v[0] == "piece" and e[2] in ("color", "kind"):
            return v[1] if e[2] == "color" else v[2]
        raise Undecided(e)
    raise Undecided(e)


def _path_feasible(p, m):
    for c in p.conds:
        d = erase(c[0])
        v = _aval(d, m)
        if isinstance(v, bool):
            v = int(v)
        if isinstance(v, (tuple, str)):
            raise Undecided(d)
        dd, vals, oth, listed = c
        if not (v in vals or (oth and v not in listed)):
            return False
    return True


def class_answers(f, T, b, ex, h, body_, tab, item, loops, board, sq):
    """For a loop over an offset table: per offset (dr, dc), which blockers make the function answer
    `true` in that iteration: {(dr, dc): frozenset of ('attacker' | 'defender', kind)}, whether the
    offset is walked as a ray, and the RayWalk (or None).  Decided by instantiating the iteration's
    symbolic paths for every offset, both values of the colour parameter and every blocker (off board,
    or one of the 12 pieces; for a single probe also an empty square): exactly one path is feasible
    and it either returns true or goes on.  Works for `square == Piece::rook(attacker)` chains and for
    structural `match`es on the blocker alike.  Raises Undecided / ShapeNotRecognised."""
    origin = (erase(("field", ("arg", sq), "0")), erase(("field", ("arg", sq), "1")))
    comp = [erase(("field", item, "0")), erase(("field", item, "1"))]
    inner = [(h2, b2) for h2, b2 in loops.items() if b2 < body_]
    rw = None
    if len(inner) == 1:
        rw = RayWalk(f, b, ex, h, item, inner[0][0], inner[0][1], board, origin)
        paths, is_cur, states = rw.exits, rw.cur, ["boundary"]
    elif not inner:
        # one iteration, from the first block that has the table item
        start = None
        for x in body_:
            t = b.term(x)
            if t["k"] == "switch":
                d = ex.switch_discr(x)
                if d[0] == "discr" and d[1][0] == "call" and d[1][1].endswith("::next") and ("field", ("downcast", d[1], "Some"), "0") == item:
                    start = next((tg for v, tg in t["cases"] if v == 1), None)
        if start is None:
            raise ShapeNotRecognised("table loop without a Some(item) edge")
        from wa.symex import SymEx
        sx = SymEx(f)
        paths = sx.run(b, start, {}, stop={h2 for h2, b2 in loops.items() if h in b2}, fallback=lambda l: ex.local(l, (start, 0)))
        probe = (_lin_of({origin[0]: 1, comp[0]: 1}), _lin_of({origin[1]: 1, comp[1]: 1}))
        is_cur = lambda e: square_lin(e, board) == probe
        states = ["empty", "boundary"]
    else:
        raise ShapeNotRecognised("%d loops inside a table loop" % len(inner))
    states = states + [(c, k) for c in ("White", "Black") for k in KINDS]
    out = {}
    for (dr, dc) in sorted(tab):
        per_c = []
        for C in ("White", "Black"):
            attacker = C if T.polarity == "attacker" else {"White": "Black", "Black": "White"}[C]
            trues = set()
            for stt in states:
                m = {"f": f, "comps": {comp[0]: dr, comp[1]: dc}, "C": C, "color": T.color, "is_cur": is_cur, "state": stt}
                feas = [p for p in paths if _path_feasible(p, m)]
                if len(feas) != 1:
                    raise Undecided(("det", (dr, dc), C, stt, len(feas)))
                p = feas[0]
                if p.end == "return" and p.ret == ("const", True):
                    trues.add(("attacker" if isinstance(stt, tuple) and stt[0] == attacker else "defender" if isinstance(stt, tuple) else stt, stt[1] if isinstance(stt, tuple) else "-"))
                elif p.end == "return":
                    raise Undecided(("early-answer", (dr, dc), C, stt))
            per_c.append(frozenset(trues))
        if per_c[0] != per_c[1]:
            raise Undecided(("colour-dependent", (dr, dc)))
        out[(dr, dc)] = per_c[0]
    return out, rw


def r6_2(ctx):
    """Per attack class: direction/offset table, attacker kinds, attacker colour, pawn rows."""
    f = ctx.facts
    T = attack_test(f)
    b = xbody(f, T.name)
    ctx.note_fn(T.name)
    ex = Exprs(b)
    board, color, sq = _params(b)
    want = [("orthogonal", chess.ROOK_DIRS, {"Rook", "Queen"}, True), ("diagonal", chess.BISHOP_DIRS, {"Bishop", "Queen"}, True),
            ("knight", chess.KNIGHT_OFFSETS, {"Knight"}, False)]
    tl = table_loops(b, ex)
    loops = b.loops()
    # per offset of every table loop: who answers `true` from there, and is the offset walked as a ray
    per_dir = {}
    found = {}
    for h, (body_, tab, item) in sorted(tl.items()):
        inner = set()
        for h2, b2 in loops.items():
            if b2 < body_:
                inner |= b2
        tests = _piece_tests(b, ex, body_ - inner)
        name = next((n for n, t, ks, w in want if t == tab), None) or "table@%d" % h
        found[name] = (h, tab, {k for _, k, _, _ in tests}, tests)
        try:
            ans, rw = class_answers(f, T, b, ex, h, body_, tab, item, loops, board, sq)
            why = None
        except (Undecided, ShapeNotRecognised) as e:
            ans, rw, why = None, None, "the answer of an iteration is not a function of (offset, colour, blocker): %s" % (
                show_expr(e.args[0], b)[:100] if e.args and isinstance(e.args[0], tuple) and e.args[0] and isinstance(e.args[0][0], str) and e.args[0][0] not in ("det", "early-answer", "colour-dependent") else str(e.args[0] if e.args else e)[:120])
        for d in tab:
            per_dir.setdefault(d, []).append((h, bool(inner), ans.get(d) if ans is not None else None, why))
    for name, tab, ks, walked in want:
        entries = {d: per_dir.get(d, []) for d in tab}
        missing = sorted(d for d, es in entries.items() if not es)
        dup = sorted(d for d, es in entries.items() if len(es) > 1)
        shape = sorted(d for d, es in entries.items() if es and es[0][1] != walked)
        hs = sorted({es[0][0] for es in entries.values() if es})
        where = b.where(b.term_loc(hs[0])) if hs else b.file
        ctx.ob("is_check_cords:%s:table" % name, not missing and not dup and not shape, where,
               "the %s offsets %s are each %s exactly once%s" % (name, sorted(tab), "walked as a ray" if walked else "probed once", "" if not (missing or dup or shape) else
                                                                   ": missing %s, repeated %s, %s %s" % (missing, dup, "not walked" if walked else "walked", shape)))
        if missing:
            continue
        und = [es[0][3] for es in entries.values() if es[0][2] is None]
        if und:
            ctx.ob("is_check_cords:%s:attackers" % name, False, where, und[0], reason="shape-not-recognised")
            continue
        kinds = {d: {k for rel, k in es[0][2]} for d, es in entries.items()}
        badk = {d: sorted(v) for d, v in kinds.items() if v != ks}
        ctx.ob("is_check_cords:%s:attackers" % name, not badk, where,
               "a blocker reached along a %s offset answers `attacked` exactly when it is one of %s%s" % (name, sorted(ks), "" if not badk else "; NOT so for offsets %s" % badk))
        rels = {rel for es in entries.values() for rel, k in es[0][2]}
        ctx.ob("is_check_cords:%s:enemy-colour" % name, rels == {"attacker"}, where, "only pieces of the attacking colour count (found: %s)" % sorted(rels))
    opp = T.attacker_expr()
    known_dirs = set().union(*(t for _, t, _, _ in want))
    for d in sorted(set(per_dir) - known_dirs):
        h = per_dir[d][0][0]
        ctx.ob("is_check_cords:unknown-offset@%s" % (d,), False, b.where(b.term_loc(h)),
               "offset %s of a table loop is none of rook/bishop/knight movement" % (d,))
    # pawns: attacked from the two forward diagonals as seen from the attacker
    colours = f.enum_variant_by_discr("board::PieceColor")
    allb = set(b.normal)
    inloops = set()
    for h2, b2 in loops.items():
        inloops |= b2
    ptests = [t for t in _piece_tests(b, ex, allb - inloops) if t[1] == "pawn"]
    cols = set()
    sqp = ("arg", sq)
    for s, k, c, sqe in ptests:
        ctx.ob("is_check_cords:pawn:enemy-colour#%d" % (len(cols) + 1), c == opp, b.where(b.term_loc(s)), "attacker colour `%s`" % show_expr(c, b))
        if sqe[0] == "index" and sqe[1][0] == "index":
            r_e, c_e = sqe[1][2], sqe[2]
            lc = linear(c_e)
            if lc and lc[0] == {("field", sqp, "1"): 1}:
                cols.add(lc[1])
            # row: a variable defined per colour trace
            rdefs = []
            if r_e[0] == "var":
                for dloc, kind in r_e[2]:
                    if kind != "whole":
                        continue
                    e = ex.rvalue(b.stmts(dloc[0])[dloc[1]]["rv"], dloc)
                    poss = colour_on_trace(b, ex, dloc[0], ("arg", color), colours)
                    rdefs.append((poss, linear(e), dloc))
            okr = len(rdefs) == 2
            for poss, le, dloc in rdefs:
                if len(poss) != 1 or le is None or le[0] != {("field", sqp, "0"): 1}:
                    okr = False
                    continue
                defender = next(iter({"White", "Black"} - T.attackers(poss)))
                # a White defender is attacked by black pawns standing one row closer to rank 8 (row - 1)
                okr = okr and le[1] == chess.PAWN[defender]["dir"]
            ctx.ob("is_check_cords:pawn:row#%d" % len(cols), okr, b.where(b.term_loc(s)),
                   "pawn attackers are looked for one row ahead of the defender (White: row-1, Black: row+1): %s" % [(sorted(p), l[1] if l else None) for p, l, _ in rdefs])
    ctx.ob("is_check_cords:pawn:both-diagonals", cols == {-1, 1}, b.file, "pawn attack columns relative to the square: %s" % sorted(cols))
    # a hit answers `attacked`: from each comparison `square == Piece::kind(attacker)`, every path on
    # which it is true returns true before the next table entry / class is looked at (so `any` is not
    # `all`, `a || b` is not `a && b`, and a hit is not made conditional on something else)
    from wa.symex import SymEx
    from wa.pathsym import cond_truth
    nhit = 0
    seen_keys = set()
    cls_of = {}
    for nm, (h, t, kinds, tests) in found.items():
        for s, k, c, sqe in tests:
            cls_of[s] = nm
    for s, k, c, sqe in _piece_tests(b, ex, allb):
        k = "%s:%s" % (cls_of.get(s, "direct"), k)
        # a hit answers before the next table entry or the next class is looked at: reaching any loop
        # header (of the loop the test is in, or of a later class's loop) is 'went on without answering'
        hdrs = set(loops)
        sx = SymEx(f)
        try:
            paths = sx.run(b, s, {}, stop=hdrs, fallback=lambda l, s=s: ex.local(l, (s, 0)))
        except ShapeNotRecognised as e:
            ctx.ob("is_check_cords:%s:hit-answers-true" % k, False, b.where(b.term_loc(s)), "cannot follow the comparison's result: %s" % e, reason="shape-not-recognised")
            continue
        used = 0
        bad = 0
        for p in paths:
            me = next((ev[4] for ev in p.events if ev[0] == "call" and ev[1][1] == s and ev[2] == SQ_EQ), None)
            branched = False
            for cnd in p.conds:
                if me is not None and cnd[0] == me:
                    used += 1
                    branched = True
                    if cond_truth(cnd) is True and not (p.end == "return" and p.ret == ("const", True)):
                        bad += 1
            if not branched and me is not None and p.end == "return" and p.ret == me:
                used += 1       # the comparison itself is the answer (`.. || square == pawn` in tail position)
        nhit += 1
        while "is_check_cords:%s:hit-answers-true" % k in seen_keys:
            k += "'"
        seen_keys.add("is_check_cords:%s:hit-answers-true" % k)
        ctx.ob("is_check_cords:%s:hit-answers-true" % k, used > 0 and not bad, b.where(b.term_loc(s)),
               "when the square equals the attacking %s the answer is `true` at once (paths deciding on it: %d, of which %d do not answer true)" % (k, used, bad))
    # (the table classes are decided by class_answers whichever way they compare; this floor only says
    # that the direct comparisons, at least the pawn probes, were followed)
    ctx.floor("attacker comparisons followed to the answer", nhit, 1)


from wa.linear import linear


from wa.symex import summarise_loop, summarise_loop_state, state_path, descend, erase, elinear, mentions_sym
from wa.pathsym import cond_truth


def square_lin(e, board_arg):
    """`board.board[r][c]` (through references / width casts) -> (affine r, affine c); else None."""
    e = erase(e)
    if e[0] == "index" and e[1][0] == "index":
        base = e[1][1]
        if base[0] == "field" and base[2] == "board" and base[1] == ("arg", board_arg):
            lr, lc = elinear(e[1][2]), elinear(e[2])
            if lr is not None and lc is not None:
                return (lr, lc)
    return None


def _lin_of(terms, const=0):
    return (frozenset((erase(t), c) for t, c in terms.items()), const)


class RayWalk:
    """Summary of a walking loop nested in a loop over a direction table, from one symbolic iteration
    (wa/symex.summarise_loop).  The loop is a ray walk from `origin` when
      * two carried variables R, C are advanced by the direction's components (dr, dc) exactly once on
        every path that continues, and enter the loop as origin + (dr, dc)                  [step, init]
      * every other carried variable the decisions use is the square at the current position:
        it enters as board[R0][C0] and is re-loaded as board[R'][C'] when the loop continues  [invariant]
    so that `cur(e)` can say whether a square-valued expression is 'the square at the walk position
    at the start of this iteration', whichever of the two ways (carried variable / indexed load) the
    source uses.  Nothing here depends on the loop's syntactic form (`while`, `loop` + `break` or
    `return`, `+=` or `add_assign`, helper or closure)."""

    def __init__(self, f, b, ex, h, item, h2, b2, board_arg, origin):
        self.b, self.h2 = b, h2
        # the loop-carried state, split into components (a walk may keep its position in two locals or
        # in one `Option<(row, col)>` / tuple / struct rebuilt on every step)
        self.state, self.paths = summarise_loop_state(f, b, ex, h2, b2, stop={h})
        self.carried = set(self.state)
        self.cont = [p for p in self.paths if p.end == "stop" and p.end_bb == h2]
        self.exits = [p for p in self.paths if not (p.end == "stop" and p.end_bb == h2)]
        comp = [erase(("field", item, "0")), erase(("field", item, "1"))]

        def after(p, name):
            l, path = state_path(name)
            v = descend(p.env.get(l, ("sym", l)), path)
            return v if v is not None else ("opaque", "shape")
        self.R = self.C = None
        self.phase = 0
        self.comp = comp
        self.ok_step = bool(self.cont)
        for l in sorted(self.state, key=str):
            forms = {elinear(after(p, l)) for p in self.cont}
            if len(forms) != 1:
                continue
            fm = next(iter(forms))
            if fm == _lin_of({("sym", l): 1, comp[0]: 1}):
                self.ok_step = self.ok_step and self.R is None
                self.R = l
            elif fm == _lin_of({("sym", l): 1, comp[1]: 1}):
                self.ok_step = self.ok_step and self.C is None
                self.C = l
        self.ok_step = self.ok_step and self.R is not None and self.C is not None
        init_of = lambda l: self.state.get(l)
        self.ok_init = False
        self.squares = set()
        self.ok_inv = True
        if self.ok_step:
            iR, iC = init_of(self.R), init_of(self.C)
            liR = elinear(iR) if iR is not None else None
            liC = elinear(iC) if iC is not None else None
            self.ok_init = liR == _lin_of({origin[0]: 1, comp[0]: 1}) and liC == _lin_of({origin[1]: 1, comp[1]: 1})
            if not self.ok_init and liR == _lin_of({origin[0]: 1}) and liC == _lin_of({origin[1]: 1}):
                # the walk keeps the position it came from and looks one step ahead (`loop { step; test }`
                # entered on the origin): the square of the iteration is the one at position + (dr, dc);
                # the sequence of squares looked at is the same origin + k*(dr, dc), k = 1, 2, ..
                self.ok_init = True
                self.phase = 1
            used = set()
            for p in self.paths:
                for c in p.conds:
                    used |= {x[1] for x in subexprs(c[0]) if x[0] == "sym"}
                for ev in p.events:
                    if ev[0] == "call":
                        for a_ in ev[3]:
                            used |= {x[1] for x in subexprs(a_) if x[0] == "sym"}
            for l in sorted(used - {self.R, self.C}, key=str):
                iX = init_of(l)
                ok = iX is not None and square_lin(iX, board_arg) == (liR, liC) and liR is not None
                for p in self.cont:
                    ok = ok and square_lin(after(p, l), board_arg) == (elinear(after(p, self.R)), elinear(after(p, self.C)))
                if ok:
                    self.squares.add(l)
                else:
                    self.ok_inv = False
        self.board_arg = board_arg

    def cur(self, e):
        ee = erase(e)
        if ee[0] == "sym" and ee[1] in self.squares:
            return True
        return self.R is not None and square_lin(e, self.board_arg) == self._pos()

    def _pos(self):
        if self.phase:
            return (_lin_of({("sym", self.R): 1, self.comp[0]: 1}), _lin_of({("sym", self.C): 1, self.comp[1]: 1}))
        return (_lin_of({("sym", self.R): 1}), _lin_of({("sym", self.C): 1}))

    def only_cur(self, d):
        """Does the expression depend on the walk state through the current square only?"""
        if self.cur(d):
            return True
        if not isinstance(d, tuple) or not d:
            return True
        if d[0] == "sym":
            return False
        for x in d[1:]:
            if isinstance(x, tuple) and x and isinstance(x[0], str):
                if not self.only_cur(x):
                    return False
            elif isinstance(x, tuple):
                for y in x:
                    if isinstance(y, tuple) and y and isinstance(y[0], str) and not self.only_cur(y):
                        return False
        return True

    def cur_point(self, r, c):
        return self.R is not None and (elinear(r), elinear(c)) == self._pos()

    def walk_conds(self, p):
        """Conditions of a path that speak about the walk state: [(what, truth)]; what is 'empty' for
        is_empty(current square), else the expression."""
        out = []
        for c in p.conds:
            d = c[0]
            if not mentions_sym(d):
                continue
            if d[0] == "call" and d[1] == "board::Square::is_empty" and self.cur(d[2][0]):
                out.append(("empty", cond_truth(c)))
            else:
                out.append((d, cond_truth(c)))
        return out


def r6_3(ctx):
    """Ray walk shape: each slider ray advances by the direction while the square just loaded is
    empty, and the square compared with the attackers is the one the walk stopped on."""
    f = ctx.facts
    b = xbody(f, attack_test(f).name)
    ex = Exprs(b)
    board, color, sq = _params(b)
    tl = table_loops(b, ex)
    loops = b.loops()
    n = 0
    origin = (erase(("field", ("arg", sq), "0")), erase(("field", ("arg", sq), "1")))
    for h, (body_, tab, item) in sorted(tl.items()):
        inner = [(h2, b2) for h2, b2 in loops.items() if b2 < body_]
        # a table whose offsets are walked (an inner loop) is a ray table; which offsets must be walked
        # and which probed once is R6.2's business (per-offset decision table)
        is_slider = bool(inner)
        if not is_slider:
            tests = _piece_tests(b, ex, body_)
            for s, k, c, sqe in tests:
                sl = square_lin(sqe, board)
                ok = sl == (_lin_of({origin[0]: 1, ("field", item, "0"): 1}), _lin_of({origin[1]: 1, ("field", item, "1"): 1}))
                ctx.ob("is_check_cords:%s:probe-square" % k, ok, b.where(b.term_loc(s)), "probes board[square.0 + dr][square.1 + dc]: `%s`" % show_expr(sqe, b)[:110])
            continue
        n += 1
        name = "orthogonal" if tab == chess.ROOK_DIRS else "diagonal" if tab == chess.BISHOP_DIRS else "rays@%d" % len(tab)
        if len(inner) != 1:
            ctx.ob("is_check_cords:%s:ray-walk" % name, False, b.where(b.term_loc(h)), "expected one inner walking loop, found %d" % len(inner), reason="shape-not-recognised")
            continue
        h2, b2 = inner[0]
        rw = RayWalk(f, b, ex, h, item, h2, b2, board, origin)
        # continue exactly on empty squares: every continuing path saw is_empty(current) == true and
        # nothing else about the walk; every leaving path saw is_empty(current) == false first
        ok_cont = bool(rw.cont) and bool(rw.exits)
        for p in rw.cont:
            ok_cont = ok_cont and rw.walk_conds(p) == [("empty", True)]
        for p in rw.exits:
            wc = rw.walk_conds(p)
            ok_cont = ok_cont and bool(wc) and wc[0] == ("empty", False)
        # what is compared with the attackers after the walk is the square it stopped on: every later
        # decision that depends on the walk state speaks about that square only
        ncmp = 0
        ok_cmp = True
        for p in rw.exits:
            for ev in p.events:
                if ev[0] == "call" and ev[2] == SQ_EQ:
                    ok_cmp = ok_cmp and rw.cur(ev[3][0])
            for d, tr in rw.walk_conds(p)[1:]:
                ncmp += 1
                ok_cmp = ok_cmp and isinstance(d, tuple) and rw.only_cur(d)
        ok_cmp = ok_cmp and ncmp > 0
        ok = ok_cont and rw.ok_step and rw.ok_init and rw.ok_inv and ok_cmp
        ctx.ob("is_check_cords:%s:ray-walk" % name, ok, b.where(b.term_loc(h2)),
               "walk continues exactly on empty squares: %s; steps by (dr, dc) once per iteration, row<-dr, col<-dc: %s; starts one step from the square: %s; the square tested is the one at the walk position: %s; compares the square it stopped on: %s" % (
                   ok_cont, rw.ok_step, rw.ok_init, rw.ok_inv, ok_cmp))
    ctx.floor("slider ray loops", n, 1)


def _strip_cd(e):
    while e[0] in ("cast", "deref", "ref"):
        e = e[2] if e[0] == "cast" else e[1]
    return e


def _same_terms(got, want):
    """Compare linear-form term dicts modulo cast / deref wrappers."""
    g = {_strip_cd(k): v for k, v in got.items()}
    w = {_strip_cd(k): v for k, v in want.items()}
    return g == w


def _root(e):
    return root_local(_strip_cd(e))


def _king_answer(b, ex, env, start, kblocks):
    """Answer of the king class for one concrete (king, square) pair: walk from the first king-class
    decision; a return reached by king-class decisions alone is the class's answer, and running into
    a decision of another class (one that the pair does not determine) means the king class did not
    claim the square (it may stand first, with an early `return true`, or last)."""
    from wa import interp
    bb = start
    path = []
    for _ in range(400):
        path.append(bb)
        t = b.term(bb)
        k = t["k"]
        if k == "return":
            try:
                return interp.path_return_value(b, ex, path, env)
            except Unknown:
                # the answer is a value bound differently on different paths: evaluate it along this path
                from wa.pathsym import eval_path
                penv, _ = eval_path(b, path)
                r = penv.get(0)
                if r is None:
                    raise
                def fill(e):
                    # locals bound before the first king-class decision keep their value-numbered form
                    if not isinstance(e, tuple) or not e or not isinstance(e[0], str):
                        return e
                    if e[0] == "opaque" and isinstance(e[1], str) and e[1].startswith("undef _"):
                        return ex.local(int(e[1][len("undef _"):]), (path[0], 0))
                    return tuple(fill(x) if isinstance(x, tuple) and x and isinstance(x[0], str) else
                                 (tuple(fill(y) for y in x) if isinstance(x, tuple) else x) for x in e)
                return eval_expr(fill(r), env)
        if k in ("goto", "call", "assert", "drop"):
            if t.get("target") is None:
                raise Unknown(("diverges", bb))
            bb = t["target"]
            continue
        if k == "switch":
            try:
                v = eval_expr(ex.switch_discr(bb), env)
            except Unknown:
                if bb in kblocks:
                    raise
                return False
            if isinstance(v, bool):
                v = int(v)
            nxt = t["otherwise"]
            for val, tg in t["cases"]:
                if val == v:
                    nxt = tg
            bb = nxt
            continue
        raise Unknown(("terminator", k))
    raise Unknown(("walk did not terminate",))


def r6_4(ctx):
    """King class by finite instantiation: for every pair (enemy king square, probed square) on the
    board the king-class decision equals 'Chebyshev distance <= 1'."""
    f = ctx.facts
    b = xbody(f, attack_test(f).name)
    ex = Exprs(b)
    board, color, sq = _params(b)
    ds = [(loc, e) for loc, e in deciders(b, ex) if any(x[0] == "field" and x[2] in KING_FIELDS for x in data_slice(ex, e))]
    if not ds:
        ctx.ob("is_check_cords:king-class:distance", False, b.file, "no king-class decision found")
        return
    # leaves: the two coordinates of the enemy king and of the probed square
    ARITH_CALLS = ("::abs", "::abs_diff", "std::cmp::max", "std::cmp::min")

    def arith_leaves(e):
        k = e[0]
        if k == "bin":
            yield from arith_leaves(e[2])
            yield from arith_leaves(e[3])
        elif k in ("un", "cast"):
            yield from arith_leaves(e[2])
        elif k in ("deref", "ref"):
            yield from arith_leaves(e[1])
        elif k == "call" and (any(e[1].endswith(sfx) for sfx in ARITH_CALLS) or f.has_body(e[1])):
            for a in e[2]:
                yield from arith_leaves(a)
        elif k in ("const", "float"):
            return
        elif k == "var" and e not in seen_vars:
            # a value bound on several paths (`a && b` as a value, the result of an inlined helper): its
            # leaves are those of the expressions it may hold
            seen_vars.add(e)
            got = False
            for dloc, kind in e[2]:
                if kind != "whole":
                    continue
                st_ = b.stmts(dloc[0])
                d = ex.rvalue(st_[dloc[1]]["rv"], dloc) if dloc[1] < len(st_) else (ex.call_expr(b.term(dloc[0]), dloc) if b.term(dloc[0])["k"] == "call" else None)
                if d is None:
                    continue
                if d[0] in ("bin", "un", "cast", "const") or (d[0] == "call" and any(d[1].endswith(sfx) for sfx in ARITH_CALLS)) or d[0] == "var":
                    got = True
                    yield from arith_leaves(d)
                else:
                    got = False
                    break
            if not got:
                yield e
        else:
            yield e
    seen_vars = set()
    leaves = set()
    for loc, e in ds:
        leaves |= set(arith_leaves(e))
    # point-valued roots: the enemy king's square and the probed square
    from wa import interp
    interp.set_facts(f)
    roots = set()
    for x in leaves:
        if x[0] == "field" and x[2] in ("0", "1"):
            roots.add(x[1])
        else:
            roots.add(x)
    P = [r for r in roots if root_local(r) == sq and strip_refs(r)[0] == "arg"]
    K = [r for r in roots if r not in P]
    if len(P) != 1 or len(K) != 1:
        raise ShapeNotRecognised("king-class decision is not a function of (enemy king square, probed square): %s" % [show_expr(x, b) for x in roots])
    P, K = P[0], K[0]
    start = min((loc[0] for loc, _ in ds), key=lambda bb: len([x for x in b.normal if b.node_dominates(x, bb)]))
    kblocks = {loc[0] for loc, _ in ds}
    bad = []
    n = 0
    for kr in range(2, 10):
        for kc in range(2, 10):
            for pr in range(2, 10):
                for pc in range(2, 10):
                    if (kr, kc) == (pr, pc):
                        continue
                    env = {K: (kr, kc), P: (pr, pc)}
                    try:
                        val = _king_answer(b, ex, env, start, kblocks)
                    except Unknown as e:
                        raise ShapeNotRecognised("cannot evaluate king-class decision: %r" % (e,))
                    want = max(abs(kr - pr), abs(kc - pc)) <= 1
                    n += 1
                    if bool(val) != want:
                        bad.append(((kr, kc), (pr, pc), val))
    ctx.ob("is_check_cords:king-class:distance", not bad, b.where(ds[0][0]),
           "evaluated for all %d (enemy king, probed square) pairs: attacked exactly when both coordinates differ by at most one%s" % (
               n, "" if not bad else "; WRONG for %d pairs, e.g. king %s vs square %s -> %s (%s)" % (
                   len(bad), chess.name(bad[0][0]), chess.name(bad[0][1]), bad[0][2], "diagonal neighbours are not seen" if abs(bad[0][0][0] - bad[0][1][0]) == 1 and abs(bad[0][0][1] - bad[0][1][1]) == 1 else "see pair")))


def r2_5(ctx):
    """Generator king cache: a king move stores its destination in the mover's cached king square
    before the legality gate; castling stores the oracle's destination."""
    from . import successor
    from wa.cond import refuted_edges
    an = successor.get(ctx)
    f = ctx.facts
    kinds = f.enum_variant_by_discr("board::PieceKind")
    colours = f.enum_variant_by_discr("board::PieceColor")
    n = 0
    castling_fns = set()
    for site in an.sites:
        b, ex, L = site.b, site.ex, site.L
        mp = [(loc, ev) for loc, evs in site.events.items() for ev in evs if ev[0] == "call" and ev[1] == successor.MOVE_PIECE and ev[2] == 0]
        writes = {}
        for loc, evs in site.events.items():
            for ev in evs:
                if ev[0] == "write" and ev[1][0].endswith("_king_location"):
                    writes.setdefault(ev[1][0], []).append((loc, ev[2]))
        if len(mp) == 1 and site.gate_edges:
            pp = [i for i in range(1, b.arg_count + 1) if b.local_ty(i) == "board::Piece"]
            if len(pp) != 1:
                continue
            to = strip_refs(ex.call_args(mp[0][0][0])[2])
            kind_e, col_e = ("field", ("arg", pp[0]), "kind"), ("field", ("arg", pp[0]), "color")
            gates = {bb for (bb, tg) in site.gate_edges}
            if enum_value_on_trace(b, ex, site.bb, kind_e, kinds) <= {"Pawn"}:
                continue   # en-passant successor: the mover is a pawn on this trace
            for colour in ("White", "Black"):
                field = "%s_king_location" % colour.lower()
                ref = refuted_edges(b, ex, {kind_e: ("eq", "King"), col_e: ("eq", colour)}, {kind_e: kinds, col_e: colours})
                wr = {loc[0] for loc, v in writes.get(field, []) if strip_refs(v) == to}
                reach = any(site.bb != g and b.reaches(site.bb, g, removed_nodes=wr, removed_edges=ref) for g in gates)
                n += 1
                ctx.ob("%s:king(%s):cache-before-gate" % (site.name, colour), not reach, b.where(site.loc),
                       "a %s king move reaches the legality test only after %s was set to the destination square%s" % (
                           colour, field, "" if not reach else ": NOT so — the gate would probe the king's old square"))
            for field, ws in writes.items():
                for loc, v in ws:
                    ctx.ob("%s:%s:value" % (site.name, field), strip_refs(v) == to, b.where(loc), "cached king square is written with the move's destination")
        elif len(mp) == 2:
            castling_fns.add(b.name)
    if castling_fns:
        # castling: the oracle's destination in the mover's own field, decided per side to move and per
        # castling right on the symbolically executed generator (rules/castling.py: castling_records)
        from . import castling
        n += castling.king_cache_of_castling(ctx)
    ctx.floor("king-cache obligations", n, 4)


def r6_5(ctx):
    """Sentinel safety of the single-step probes: with the probed / moving piece's square on the
    board ([2,9] x [2,9]) every index formed by knight offsets, pawn offsets and the king
    neighbourhood lies in [0, 11].  (Ray walks are covered by the walk shape R6.3/R1.4 and the
    sentinel ring argument, which is not computed.)"""
    from wa.exprint import expr_interval
    f = ctx.facts
    targets = [attack_test(f).name, "move_generation::knight_moves", "move_generation::king_moves", "move_generation::pawn_moves", "move_generation::pawn_moves_en_passant"]
    n = nd = 0
    for fn in targets:
        b = xbody(f, fn)
        ctx.note_fn(fn)
        ex = Exprs(b)
        pts = [i for i in range(1, b.arg_count + 1) if b.local_ty(i) == "board::Point"]
        us = [i for i in range(1, b.arg_count + 1) if b.local_ty(i) == "usize"]
        tl = table_loops(b, ex)
        cols = {}
        for h, (body_, tab, item) in tl.items():
            cols[_strip_cd(("field", ("deref", item), "0"))] = (min(t[0] for t in tab), max(t[0] for t in tab))
            cols[_strip_cd(("field", ("deref", item), "1"))] = (min(t[1] for t in tab), max(t[1] for t in tab))
        ranges = {}
        for h, body_ in b.loops().items():
            for x in body_:
                if b.term(x)["k"] == "switch":
                    d = ex.switch_discr(x)
                    if d[0] == "discr" and d[1][0] == "call" and d[1][1].endswith("Range<A>>::next"):
                        for y in data_slice(ex, strip_refs(d[1][2][0])):
                            if y[0] == "agg" and y[1].endswith("ops::Range") and all(z[0] == "const" for z in y[3]):
                                ranges[("field", ("downcast", d[1], "Some"), "0")] = (y[3][0][1], y[3][1][1] - 1)

        def leaf(e):
            e0 = e
            if e0[0] == "field" and e0[1][0] == "arg" and e0[1][1] in pts:
                return (2, 9)
            if e0[0] == "arg" and e0[1] in us:
                return (2, 9)
            if _strip_cd(e0) in cols and e0[0] != "cast":
                return cols[_strip_cd(e0)]
            if e0 in ranges:
                return ranges[e0]
            return None

        short = fn.split("::")[-1]
        k = 0
        for bb in b.normal:
            if bb not in b.reachable or b.term(bb)["k"] != "assert":
                continue
            t = b.term(bb)
            loc = b.term_loc(bb)
            if t["assert_kind"] == "bounds":
                ln = t["ops"][0]
                e = ex.operand(t["ops"][1], loc)
                iv = expr_interval(e, leaf)
                k += 1
                if iv is None:
                    nd += 1
                    continue     # walking index (loop-carried): not decided here
                n += 1
                ok = iv[0] >= 0 and iv[1] <= ln["val"] - 1
                ctx.ob("%s:index#%d" % (short, k), ok, b.where(loc), "index `%s` in [%s, %s] for an array of %s" % (show_expr(e, b)[:60], iv[0], iv[1], ln["val"]))
            elif t["assert_kind"].startswith("overflow:"):
                op = t["assert_kind"].split(":")[1]
                a, c = ex.operand(t["ops"][0], loc), ex.operand(t["ops"][1], loc)
                ia, ic = expr_interval(a, leaf), expr_interval(c, leaf)
                ty = t["ops"][0].get("ty") or t["ops"][0].get("place", {}).get("ty")
                k += 1
                if ia is None or ic is None or ty not in ("usize", "i8"):
                    nd += 1
                    continue
                n += 1
                from wa.absint import Intervals as _I
                from wa.mir import INT_RANGES as _R
                r = _I._arith(op, ia, ic)
                ok = r is not None and r[0] >= _R[ty][0] and r[1] <= _R[ty][1]
                ctx.ob("%s:arith#%d" % (short, k), ok, b.where(loc), "%s of [%s,%s] and [%s,%s] in %s" % (op, ia[0], ia[1], ic[0], ic[1], ty))
    ctx.ob("walking-indices-not-decided", True, "", "%d index/arithmetic checks depend on loop-carried walk positions and are left to the sentinel argument" % nd, nontrivial=False)
    ctx.floor("single-step index obligations", n, 20)


def r6_6(ctx):
    """No attack class is skipped: the answer 'not attacked' (any result that is not the constant
    true) is reached only after the orthogonal, diagonal and knight loops and the pawn probe have
    all been passed."""
    f = ctx.facts
    b = xbody(f, attack_test(f).name)
    ex = Exprs(b)
    board, color, sq = _params(b)
    tl = table_loops(b, ex)
    loops = b.loops()
    inloops = set()
    for h2, b2 in loops.items():
        inloops |= b2
    ptests = [t for t in _piece_tests(b, ex, set(b.normal) - inloops) if t[1] == "pawn"]
    finals = []
    for loc, st in b.iter_stmts():
        if st["k"] == "assign" and st["place"]["local"] == 0 and not st["place"]["proj"]:
            e = ex.rvalue(st["rv"], loc)
            if e != ("const", True):
                finals.append(loc)
    ctx.floor("non-true results of is_check_cords", len(finals), 1)
    names = {}
    classes = (("orthogonal", chess.ROOK_DIRS), ("diagonal", chess.BISHOP_DIRS), ("knight", chess.KNIGHT_OFFSETS))
    for nm, dirs in classes:
        # the loops that cover the class's offsets (one loop per class, one fused loop, or several)
        hs = sorted(h for h, (body_, tab, item) in tl.items() if tab & dirs)
        covered = set().union(*[tl[h][1] for h in hs]) if hs else set()
        if hs and dirs <= covered:
            names[nm] = hs
    if ptests:
        first = min((t[0] for t in ptests), key=lambda x: len([y for y in b.normal if b.node_dominates(y, x)]))
        names["pawn"] = [first]
    for nm in ("orthogonal", "diagonal", "knight", "pawn"):
        if nm not in names:
            ctx.ob("is_check_cords:%s:evaluated" % nm, False, b.file, "no %s attack test found" % nm)
            continue
        blks = names[nm]
        bad = [loc for loc in finals for blk in blks if not b.node_dominates(blk, loc[0])]
        ctx.ob("is_check_cords:%s:always-evaluated" % nm, not bad, b.where(bad[0]) if bad else b.where(b.term_loc(blks[0])),
               "the %s attack test lies on every path to a 'not attacked' answer%s" % (nm, "" if not bad else ": NOT so — it can be skipped (guarded by an extra condition), so some attacks of this kind are never seen"))


def r6_7(ctx):
    """Check detection is a function of the placement, the colour asked about and the cached king
    squares: `is_check` and everything it calls read no other field of the position (not the side to
    move, castling flags, en-passant target, key, ...).  The property quantifies over placements that
    are "legal or not with respect to whose turn it is", so the answer may not depend on the turn."""
    from wa import callgraph
    from wa.mir import alias_of
    f = ctx.facts
    IC = "move_generation::is_check"
    if not f.has_body(IC):
        raise AnchorMissing(IC)
    cg = callgraph.get(f)
    cone = sorted(fn for fn in cg.cone(IC) if f.has_body(fn))
    ctx.note_fn(*cone)
    allowed = {"board", "white_king_location", "black_king_location"}
    nreads = 0
    for fn in cone:
        b = f.body(fn)
        bps = [i for i in range(1, b.arg_count + 1) if b.local_ty(i) in ("&board::BoardState", "&mut board::BoardState", "board::BoardState")]
        if not bps:
            continue
        isb = {}

        def board_ptr(l):
            if l not in isb:
                r, mode, proj = alias_of(b, l)
                isb[l] = (r in bps and mode == "val" and not proj)
            return isb[l]
        reads = {}

        def walk(x, loc):
            if isinstance(x, dict):
                if "local" in x and "proj" in x and isinstance(x["local"], int) and board_ptr(x["local"]):
                    fs = [e["name"] for e in x["proj"] if e["k"] == "field"]
                    if fs:
                        reads.setdefault(fs[0], loc)
                for v in x.values():
                    walk(v, loc)
            elif isinstance(x, list):
                for v in x:
                    walk(v, loc)
        for loc, st in b.iter_stmts():
            walk(st, loc)
        for bb in b.normal:
            if bb in b.reachable:
                t = b.term(bb)
                walk(t.get("args"), b.term_loc(bb))
                walk(t.get("discr"), b.term_loc(bb))
        short = fn.split("::")[-1]
        for fld, loc in sorted(reads.items()):
            nreads += 1
            ctx.ob("%s:reads:%s" % (short, fld), fld in allowed, b.where(loc),
                   "check detection reads BoardState.%s%s" % (fld, "" if fld in allowed else
                                                            ": the answer then depends on more than the placement and the colour asked about (e.g. on whose turn it is)"))
    ctx.floor("BoardState fields read by check detection", nreads, 2)
