"""Attack test rules: R1.3 / R6.4 (every attack class depends on the probed square; the king
class reads the enemy king's cached square)."""
from wa.mir import AnchorMissing, ShapeNotRecognised
from wa.expr import Exprs, data_slice, show_expr, strip_refs
from wa.cond import enum_value_on_trace
from wa.itermodel import xbody

ICC = "move_generation::is_check_cords"
OPPOSITE = "board::PieceColor::opposite"
PIECE_CTORS = {"board::Piece::rook": "rook", "board::Piece::queen": "queen", "board::Piece::bishop": "bishop",
               "board::Piece::knight": "knight", "board::Piece::pawn": "pawn"}
KING_FIELDS = {"white_king_location": "White", "black_king_location": "Black"}


def _params(b):
    board = color = sq = None
    for i in range(1, b.arg_count + 1):
        ty = b.local_ty(i)
        if ty == "&board::BoardState":
            board = i
        elif ty == "board::PieceColor":
            color = i
        elif ty == "board::Point":
            sq = i
    if None in (board, color, sq):
        raise ShapeNotRecognised("is_check_cords(board, colour, square) parameters not found")
    return board, color, sq


def colour_on_trace(b, ex, bb, colour, colours):
    """Possible values of the colour expression on entry to bb, from dominating tests on the colour
    itself or on its opposite (`match c.opposite() { Black => .. }` says as much about c as
    `match c { White => .. }`; `opposite` is the swap, R0.1)."""
    poss = enum_value_on_trace(b, ex, bb, colour, colours)
    opp = enum_value_on_trace(b, ex, bb, ("call", OPPOSITE, (colour,), None), colours)
    swap = {"White": "Black", "Black": "White"}
    return poss & {swap.get(c, c) for c in opp}


def deciders(b, ex):
    """(loc, expr) of every expression that decides the result: switch conditions and
    non-constant values assigned to the return place."""
    out = []
    for bb in b.normal:
        if bb in b.reachable and b.term(bb)["k"] == "switch":
            out.append((b.term_loc(bb), ex.switch_discr(bb)))
    for loc, st in b.iter_stmts():
        if st["k"] == "assign" and st["place"]["local"] == 0 and not st["place"]["proj"]:
            e = ex.rvalue(st["rv"], loc)
            if e[0] != "const":
                out.append((loc, e))
    return out


def r1_3(ctx):
    f = ctx.facts
    b = xbody(f, ICC)
    ctx.note_fn(ICC)
    ex = Exprs(b)
    board, color, sq = _params(b)
    colours = f.enum_variant_by_discr("board::PieceColor")
    classes = {}
    king = []
    for loc, e in deciders(b, ex):
        sl = data_slice(ex, e)
        kinds = set()
        for x in sl:
            if x[0] == "call" and x[1] in PIECE_CTORS:
                kinds.add(PIECE_CTORS[x[1]])
        has_king = any(x[0] == "field" and x[2] in KING_FIELDS for x in sl)
        dep_sq = any(x == ("arg", sq) for x in sl)
        for kd in kinds:
            classes.setdefault(kd, []).append((loc, dep_sq, e))
        if has_king:
            king.append((loc, dep_sq, e))
    for kd in ("rook", "queen", "bishop", "knight", "pawn"):
        lst = classes.get(kd, [])
        if not lst:
            ctx.ob("is_check_cords:%s-class:present" % kd, False, b.file,
                   "no deciding comparison against Piece::%s(attacker) found" % kd, reason="anchor-missing")
            continue
        bad = [(loc, e) for loc, dep, e in lst if not dep]
        ctx.ob("is_check_cords:%s-class" % kd, not bad, b.where(bad[0][0]) if bad else b.where(lst[0][0]),
               "%d deciding comparison(s) against Piece::%s; all must depend on the probed square%s" % (
                   len(lst), kd, "" if not bad else "; this one does not: " + show_expr(bad[0][1], b)[:160]))
    if not king:
        ctx.ob("is_check_cords:king-class", False, b.file,
               "no deciding comparison reads a king location: adjacency of the enemy king is not tested")
    else:
        bad = [(loc, e) for loc, dep, e in king if not dep]
        ctx.ob("is_check_cords:king-class", not bad, b.where((bad or king)[0][0]),
               "%d deciding comparison(s) on the king squares; each must depend on the probed square%s" % (
                   len(king), "" if not bad else ": `%s` does not (it compares the two cached king squares with each other)" % show_expr(bad[0][1], b)[:200]))
    # enemy-field discipline: a king square read on the trace colour==C must be the field of C's enemy
    nreads = 0
    for loc, st in b.iter_stmts():
        if st["k"] != "assign":
            continue
        rv = st["rv"]
        places = []
        if rv["k"] == "use" and rv["op"]["k"] in ("copy", "move"):
            places.append(rv["op"]["place"])
        elif rv["k"] == "ref":
            places.append(rv["place"])
        for p in places:
            # the place read is <board>.<king field>..., whatever local holds the board reference
            # (the parameter itself or a copy of it handed to a helper)
            k = next((i for i, e in enumerate(p["proj"]) if e["k"] == "field"), None)
            if k is None or p["proj"][k]["name"] not in KING_FIELDS:
                continue
            base = strip_refs(ex.place({"local": p["local"], "proj": p["proj"][:k], "ty": None}, loc))
            if base != ("arg", board):
                continue
            fname = p["proj"][k]["name"]
            nreads += 1
            owner = KING_FIELDS[fname]
            poss = colour_on_trace(b, ex, loc[0], ("arg", color), colours)
            ok = poss == ({"White", "Black"} - {owner})
            ctx.ob("is_check_cords:king-class:enemy-field:%s" % fname, ok, b.where(loc),
                   "reads %s's king square where the defender colour may be %s; it must be read only when the defender is the other colour" % (owner, sorted(poss)))
    ctx.floor("king square reads", nreads, 1)


# ---- C06: R6.1 is_check, R6.2 attack tables, R6.3 ray walk, R6.4 king adjacency (finite instantiation)
from wa.expr import subexprs, root_local
from wa.cond import dominating_facts
from wa.interp import eval_expr, walk, Unknown
from wa.mir import callee_of, operand_alias
from . import chess

IS_CHECK = "move_generation::is_check"
SQ_EQ = "<board::Square as std::cmp::PartialEq<board::Piece>>::eq"


def r6_1(ctx):
    """is_check(board, c) probes c's own cached king square with colour c: decided on the body
    specialised under the hypothesis colour == C (so a `match`, an `if c == White`, or a helper that
    selects the square all reduce to the one call that is feasible for C)."""
    from wa.cond import specialise
    f = ctx.facts
    b0 = xbody(f, IS_CHECK)
    ctx.note_fn(IS_CHECK)
    colours = f.enum_variant_by_discr("board::PieceColor")
    cp = [i for i in range(1, b0.arg_count + 1) if b0.local_ty(i) == "board::PieceColor"][0]
    bp = [i for i in range(1, b0.arg_count + 1) if b0.local_ty(i) == "&board::BoardState"][0]
    seen = set()
    for cname in sorted(colours.values()):
        b, ex, dead = specialise(b0, {("arg", cp): ("eq", cname)}, {("arg", cp): colours})
        calls = list(b.iter_calls(callee=ICC))
        okall = bool(calls)
        where = b.file
        detail = []
        for bb, t in calls:
            args = ex.call_args(bb)
            ca = strip_refs(args[1])
            sq = strip_refs(args[2])
            okc = ca == ("arg", cp) or (ca[0] == "agg" and ca[2] == cname)
            oks = sq[0] == "field" and sq[2] == "%s_king_location" % cname.lower() and strip_refs(sq[1]) == ("arg", bp)
            okb = strip_refs(args[0]) == ("arg", bp)
            okall = okall and okc and oks and okb
            where = b.where(b.term_loc(bb))
            detail.append("is_check_cords(%s, %s, %s)" % (show_expr(strip_refs(args[0]), b), show_expr(ca, b), show_expr(sq, b)))
        if okall:
            seen.add(cname)
        ctx.ob("is_check:%s" % cname, okall, where,
               "on the trace colour=%s: %s; must probe that colour's own king square" % (cname, "; ".join(detail) or "no is_check_cords call"))
    ctx.ob("is_check:both-colours", seen == {"White", "Black"}, b0.file, "colours handled: %s" % sorted(seen))


def table_loops(b, ex):
    """Outer loops iterating a constant table of (i8, i8) offsets: {header: (loop blocks, offsets, item expr)}."""
    out = {}
    loops = b.loops()
    for h, body_ in loops.items():
        for x in body_:
            if b.term(x)["k"] != "switch":
                continue
            d = ex.switch_discr(x)
            if d[0] == "discr" and d[1][0] == "call" and d[1][1].endswith("::next"):
                tab = None
                for y in data_slice(ex, strip_refs(d[1][2][0])):
                    if y[0] == "agg" and y[1] == "array" and y[3] and all(z[0] == "agg" and z[1] == "tuple" and len(z[3]) == 2 for z in y[3]):
                        tab = {(z[3][0][1], z[3][1][1]) for z in y[3]}
                if tab is not None and not any(body_ < loops[o] and o in out for o in loops):
                    out[h] = (body_, tab, ("field", ("downcast", d[1], "Some"), "0"))
    return out


def _piece_tests(b, ex, blocks):
    """[(bb, kind name, colour expr, square expr)] of `square == Piece::kind(colour)` comparisons made
    in blocks (whether the result is branched on at once or first bound to a name)."""
    res = []
    for s in sorted(blocks):
        t = b.term(s)
        if s not in b.reachable or t["k"] != "call" or callee_of(t) != SQ_EQ:
            continue
        args = ex.call_args(s)
        p = strip_refs(args[1])
        if p[0] == "call" and p[1] in PIECE_CTORS:
            res.append((s, PIECE_CTORS[p[1]], strip_refs(p[2][0]), strip_refs(args[0])))
    return res


def r6_2(ctx):
    """Per attack class: direction/offset table, attacker kinds, attacker colour, pawn rows."""
    f = ctx.facts
    b = xbody(f, ICC)
    ctx.note_fn(ICC)
    ex = Exprs(b)
    board, color, sq = _params(b)
    want = [("orthogonal", chess.ROOK_DIRS, {"rook", "queen"}), ("diagonal", chess.BISHOP_DIRS, {"bishop", "queen"}), ("knight", chess.KNIGHT_OFFSETS, {"knight"})]
    tl = table_loops(b, ex)
    loops = b.loops()
    found = {}
    for h, (body_, tab, item) in tl.items():
        inner = set()
        for h2, b2 in loops.items():
            if b2 < body_:
                inner |= b2
        tests = _piece_tests(b, ex, body_ - inner)
        kinds = {k for _, k, _, _ in tests}
        name = next((n for n, t, ks in want if t == tab), None)
        found[name or "table@%d" % h] = (h, tab, kinds, tests)
    opp = ("call", "board::PieceColor::opposite", (("arg", color),), None)
    for name, tab, ks in want:
        if name not in found:
            ctx.ob("is_check_cords:%s:table" % name, False, b.file, "no loop over the %s offset table %s" % (name, sorted(tab)))
            continue
        h, t, kinds, tests = found[name]
        ctx.ob("is_check_cords:%s:attackers" % name, kinds == ks, b.where(b.term_loc(h)),
               "squares reached along %s offsets are compared with %s; the rules say %s" % (name, sorted(kinds), sorted(ks)))
        for s, k, c, sqe in tests:
            ctx.ob("is_check_cords:%s:%s:enemy-colour" % (name, k), c == opp, b.where(b.term_loc(s)), "attacker colour is `%s`; must be the opposite of the defender" % show_expr(c, b))
    extra = [n for n in found if n.startswith("table@")]
    for n in extra:
        h, t, kinds, tests = found[n]
        ctx.ob("is_check_cords:unknown-offset-table@%s" % sorted(t)[:2], False, b.where(b.term_loc(h)),
               "loop over offsets %s (compared with %s) is none of rook/bishop/knight movement" % (sorted(t), sorted(kinds)))
    # pawns: attacked from the two forward diagonals as seen from the attacker
    colours = f.enum_variant_by_discr("board::PieceColor")
    allb = set(b.normal)
    inloops = set()
    for h2, b2 in loops.items():
        inloops |= b2
    ptests = [t for t in _piece_tests(b, ex, allb - inloops) if t[1] == "pawn"]
    cols = set()
    sqp = ("arg", sq)
    for s, k, c, sqe in ptests:
        ctx.ob("is_check_cords:pawn:enemy-colour#%d" % (len(cols) + 1), c == opp, b.where(b.term_loc(s)), "attacker colour `%s`" % show_expr(c, b))
        if sqe[0] == "index" and sqe[1][0] == "index":
            r_e, c_e = sqe[1][2], sqe[2]
            lc = linear(c_e)
            if lc and lc[0] == {("field", sqp, "1"): 1}:
                cols.add(lc[1])
            # row: a variable defined per colour trace
            rdefs = []
            if r_e[0] == "var":
                for dloc, kind in r_e[2]:
                    if kind != "whole":
                        continue
                    e = ex.rvalue(b.stmts(dloc[0])[dloc[1]]["rv"], dloc)
                    poss = colour_on_trace(b, ex, dloc[0], ("arg", color), colours)
                    rdefs.append((poss, linear(e), dloc))
            okr = len(rdefs) == 2
            for poss, le, dloc in rdefs:
                if len(poss) != 1 or le is None or le[0] != {("field", sqp, "0"): 1}:
                    okr = False
                    continue
                defender = next(iter(poss))
                # a White defender is attacked by black pawns standing one row closer to rank 8 (row - 1)
                okr = okr and le[1] == chess.PAWN[defender]["dir"]
            ctx.ob("is_check_cords:pawn:row#%d" % len(cols), okr, b.where(b.term_loc(s)),
                   "pawn attackers are looked for one row ahead of the defender (White: row-1, Black: row+1): %s" % [(sorted(p), l[1] if l else None) for p, l, _ in rdefs])
    ctx.ob("is_check_cords:pawn:both-diagonals", cols == {-1, 1}, b.file, "pawn attack columns relative to the square: %s" % sorted(cols))
    # a hit answers `attacked`: from each comparison `square == Piece::kind(attacker)`, every path on
    # which it is true returns true before the next table entry / class is looked at (so `any` is not
    # `all`, `a || b` is not `a && b`, and a hit is not made conditional on something else)
    from wa.symex import SymEx
    from wa.pathsym import cond_truth
    nhit = 0
    seen_keys = set()
    cls_of = {}
    for nm, (h, t, kinds, tests) in found.items():
        for s, k, c, sqe in tests:
            cls_of[s] = nm
    for s, k, c, sqe in _piece_tests(b, ex, allb):
        k = "%s:%s" % (cls_of.get(s, "direct"), k)
        hdrs = {h2 for h2, b2 in loops.items() if s in b2}
        sx = SymEx(f)
        try:
            paths = sx.run(b, s, {}, stop=hdrs, fallback=lambda l, s=s: ex.local(l, (s, 0)))
        except ShapeNotRecognised as e:
            ctx.ob("is_check_cords:%s:hit-answers-true" % k, False, b.where(b.term_loc(s)), "cannot follow the comparison's result: %s" % e, reason="shape-not-recognised")
            continue
        used = 0
        bad = 0
        for p in paths:
            me = next((ev[4] for ev in p.events if ev[0] == "call" and ev[1][1] == s and ev[2] == SQ_EQ), None)
            for cnd in p.conds:
                if me is not None and cnd[0] == me:
                    used += 1
                    if cond_truth(cnd) is True and not (p.end == "return" and p.ret == ("const", True)):
                        bad += 1
        nhit += 1
        while "is_check_cords:%s:hit-answers-true" % k in seen_keys:
            k += "'"
        seen_keys.add("is_check_cords:%s:hit-answers-true" % k)
        ctx.ob("is_check_cords:%s:hit-answers-true" % k, used > 0 and not bad, b.where(b.term_loc(s)),
               "when the square equals the attacking %s the answer is `true` at once (paths deciding on it: %d, of which %d do not answer true)" % (k, used, bad))
    ctx.floor("attacker comparisons followed to the answer", nhit, 4)


from wa.linear import linear


from wa.symex import summarise_loop, erase, elinear, mentions_sym
from wa.pathsym import cond_truth


def square_lin(e, board_arg):
    """`board.board[r][c]` (through references / width casts) -> (affine r, affine c); else None."""
    e = erase(e)
    if e[0] == "index" and e[1][0] == "index":
        base = e[1][1]
        if base[0] == "field" and base[2] == "board" and base[1] == ("arg", board_arg):
            lr, lc = elinear(e[1][2]), elinear(e[2])
            if lr is not None and lc is not None:
                return (lr, lc)
    return None


def _lin_of(terms, const=0):
    return (frozenset((erase(t), c) for t, c in terms.items()), const)


class RayWalk:
    """Summary of a walking loop nested in a loop over a direction table, from one symbolic iteration
    (wa/symex.summarise_loop).  The loop is a ray walk from `origin` when
      * two carried variables R, C are advanced by the direction's components (dr, dc) exactly once on
        every path that continues, and enter the loop as origin + (dr, dc)                  [step, init]
      * every other carried variable the decisions use is the square at the current position:
        it enters as board[R0][C0] and is re-loaded as board[R'][C'] when the loop continues  [invariant]
    so that `cur(e)` can say whether a square-valued expression is 'the square at the walk position
    at the start of this iteration', whichever of the two ways (carried variable / indexed load) the
    source uses.  Nothing here depends on the loop's syntactic form (`while`, `loop` + `break` or
    `return`, `+=` or `add_assign`, helper or closure)."""

    def __init__(self, f, b, ex, h, item, h2, b2, board_arg, origin):
        self.b, self.h2 = b, h2
        self.carried, self.paths = summarise_loop(f, b, ex, h2, b2, stop={h})
        self.cont = [p for p in self.paths if p.end == "stop" and p.end_bb == h2]
        self.exits = [p for p in self.paths if not (p.end == "stop" and p.end_bb == h2)]
        comp = [erase(("field", item, "0")), erase(("field", item, "1"))]
        self.R = self.C = None
        self.ok_step = bool(self.cont)
        for l in sorted(self.carried):
            forms = {elinear(p.env.get(l, ("sym", l))) for p in self.cont}
            if len(forms) != 1:
                continue
            fm = next(iter(forms))
            if fm == _lin_of({("sym", l): 1, comp[0]: 1}):
                self.ok_step = self.ok_step and self.R is None
                self.R = l
            elif fm == _lin_of({("sym", l): 1, comp[1]: 1}):
                self.ok_step = self.ok_step and self.C is None
                self.C = l
        self.ok_step = self.ok_step and self.R is not None and self.C is not None
        rd = b.reaching()

        def init_of(l):
            ds = [(dloc, k) for dloc, k in rd.defs(l, (h2, 0)) if k != "borrow" and (k == "entry" or dloc[0] not in b2)]
            if len(ds) != 1 or ds[0][1] != "whole":
                return None
            return ex._def_expr(l, ds[0][0])
        self.ok_init = False
        self.squares = set()
        self.ok_inv = True
        if self.ok_step:
            iR, iC = init_of(self.R), init_of(self.C)
            liR = elinear(iR) if iR is not None else None
            liC = elinear(iC) if iC is not None else None
            self.ok_init = liR == _lin_of({origin[0]: 1, comp[0]: 1}) and liC == _lin_of({origin[1]: 1, comp[1]: 1})
            used = set()
            for p in self.paths:
                for c in p.conds:
                    used |= {x[1] for x in subexprs(c[0]) if x[0] == "sym"}
                for ev in p.events:
                    if ev[0] == "call":
                        for a in ev[3]:
                            used |= {x[1] for x in subexprs(a) if x[0] == "sym"}
            for l in sorted(used - {self.R, self.C}):
                iX = init_of(l)
                ok = iX is not None and square_lin(iX, board_arg) == (liR, liC) and liR is not None
                for p in self.cont:
                    ok = ok and square_lin(p.env.get(l, ("sym", l)), board_arg) == (elinear(p.env[self.R]), elinear(p.env[self.C]))
                if ok:
                    self.squares.add(l)
                else:
                    self.ok_inv = False
        self.board_arg = board_arg

    def cur(self, e):
        ee = erase(e)
        if ee[0] == "sym" and ee[1] in self.squares:
            return True
        return self.R is not None and square_lin(e, self.board_arg) == (_lin_of({("sym", self.R): 1}), _lin_of({("sym", self.C): 1}))

    def cur_point(self, r, c):
        return self.R is not None and elinear(r) == _lin_of({("sym", self.R): 1}) and elinear(c) == _lin_of({("sym", self.C): 1})

    def walk_conds(self, p):
        """Conditions of a path that speak about the walk state: [(what, truth)]; what is 'empty' for
        is_empty(current square), else the expression."""
        out = []
        for c in p.conds:
            d = c[0]
            if not mentions_sym(d):
                continue
            if d[0] == "call" and d[1] == "board::Square::is_empty" and self.cur(d[2][0]):
                out.append(("empty", cond_truth(c)))
            else:
                out.append((d, cond_truth(c)))
        return out


def r6_3(ctx):
    """Ray walk shape: each slider ray advances by the direction while the square just loaded is
    empty, and the square compared with the attackers is the one the walk stopped on."""
    f = ctx.facts
    b = xbody(f, ICC)
    ex = Exprs(b)
    board, color, sq = _params(b)
    tl = table_loops(b, ex)
    loops = b.loops()
    n = 0
    origin = (erase(("field", ("arg", sq), "0")), erase(("field", ("arg", sq), "1")))
    for h, (body_, tab, item) in sorted(tl.items()):
        inner = [(h2, b2) for h2, b2 in loops.items() if b2 < body_]
        is_slider = tab in (chess.ROOK_DIRS, chess.BISHOP_DIRS)
        if not is_slider:
            # knight-like: one probe per offset, no walk
            ctx.ob("is_check_cords:offsets@%d:single-probe" % len(tab), not inner, b.where(b.term_loc(h)), "%d-offset table is probed once per offset (no walk)" % len(tab))
            tests = _piece_tests(b, ex, body_)
            for s, k, c, sqe in tests:
                sl = square_lin(sqe, board)
                ok = sl == (_lin_of({origin[0]: 1, ("field", item, "0"): 1}), _lin_of({origin[1]: 1, ("field", item, "1"): 1}))
                ctx.ob("is_check_cords:%s:probe-square" % k, ok, b.where(b.term_loc(s)), "probes board[square.0 + dr][square.1 + dc]: `%s`" % show_expr(sqe, b)[:110])
            continue
        n += 1
        name = "orthogonal" if tab == chess.ROOK_DIRS else "diagonal"
        if len(inner) != 1:
            ctx.ob("is_check_cords:%s:ray-walk" % name, False, b.where(b.term_loc(h)), "expected one inner walking loop, found %d" % len(inner), reason="shape-not-recognised")
            continue
        h2, b2 = inner[0]
        rw = RayWalk(f, b, ex, h, item, h2, b2, board, origin)
        # continue exactly on empty squares: every continuing path saw is_empty(current) == true and
        # nothing else about the walk; every leaving path saw is_empty(current) == false first
        ok_cont = bool(rw.cont) and bool(rw.exits)
        for p in rw.cont:
            ok_cont = ok_cont and rw.walk_conds(p) == [("empty", True)]
        for p in rw.exits:
            wc = rw.walk_conds(p)
            ok_cont = ok_cont and bool(wc) and wc[0] == ("empty", False)
        # the square compared with the attackers is the one the walk stopped on
        ncmp = 0
        ok_cmp = True
        for p in rw.exits:
            for ev in p.events:
                if ev[0] == "call" and ev[2] == SQ_EQ:
                    ncmp += 1
                    ok_cmp = ok_cmp and rw.cur(ev[3][0])
            for d, tr in rw.walk_conds(p)[1:]:
                ok_cmp = ok_cmp and isinstance(d, tuple) and d[0] == "call" and d[1] == SQ_EQ
        ok_cmp = ok_cmp and ncmp > 0
        ok = ok_cont and rw.ok_step and rw.ok_init and rw.ok_inv and ok_cmp
        ctx.ob("is_check_cords:%s:ray-walk" % name, ok, b.where(b.term_loc(h2)),
               "walk continues exactly on empty squares: %s; steps by (dr, dc) once per iteration, row<-dr, col<-dc: %s; starts one step from the square: %s; the square tested is the one at the walk position: %s; compares the square it stopped on: %s" % (
                   ok_cont, rw.ok_step, rw.ok_init, rw.ok_inv, ok_cmp))
    ctx.floor("slider ray loops", n, 2)


def _strip_cd(e):
    while e[0] in ("cast", "deref", "ref"):
        e = e[2] if e[0] == "cast" else e[1]
    return e


def _same_terms(got, want):
    """Compare linear-form term dicts modulo cast / deref wrappers."""
    g = {_strip_cd(k): v for k, v in got.items()}
    w = {_strip_cd(k): v for k, v in want.items()}
    return g == w


def _root(e):
    return root_local(_strip_cd(e))


def _king_answer(b, ex, env, start, kblocks):
    """Answer of the king class for one concrete (king, square) pair: walk from the first king-class
    decision; a return reached by king-class decisions alone is the class's answer, and running into
    a decision of another class (one that the pair does not determine) means the king class did not
    claim the square (it may stand first, with an early `return true`, or last)."""
    from wa import interp
    bb = start
    path = []
    for _ in range(400):
        path.append(bb)
        t = b.term(bb)
        k = t["k"]
        if k == "return":
            return interp.path_return_value(b, ex, path, env)
        if k in ("goto", "call", "assert", "drop"):
            if t.get("target") is None:
                raise Unknown(("diverges", bb))
            bb = t["target"]
            continue
        if k == "switch":
            try:
                v = eval_expr(ex.switch_discr(bb), env)
            except Unknown:
                if bb in kblocks:
                    raise
                return False
            if isinstance(v, bool):
                v = int(v)
            nxt = t["otherwise"]
            for val, tg in t["cases"]:
                if val == v:
                    nxt = tg
            bb = nxt
            continue
        raise Unknown(("terminator", k))
    raise Unknown(("walk did not terminate",))


def r6_4(ctx):
    """King class by finite instantiation: for every pair (enemy king square, probed square) on the
    board the king-class decision equals 'Chebyshev distance <= 1'."""
    f = ctx.facts
    b = xbody(f, ICC)
    ex = Exprs(b)
    board, color, sq = _params(b)
    ds = [(loc, e) for loc, e in deciders(b, ex) if any(x[0] == "field" and x[2] in KING_FIELDS for x in data_slice(ex, e))]
    if not ds:
        ctx.ob("is_check_cords:king-class:distance", False, b.file, "no king-class decision found")
        return
    # leaves: the two coordinates of the enemy king and of the probed square
    ARITH_CALLS = ("::abs", "::abs_diff", "std::cmp::max", "std::cmp::min")

    def arith_leaves(e):
        k = e[0]
        if k == "bin":
            yield from arith_leaves(e[2])
            yield from arith_leaves(e[3])
        elif k in ("un", "cast"):
            yield from arith_leaves(e[2])
        elif k in ("deref", "ref"):
            yield from arith_leaves(e[1])
        elif k == "call" and (any(e[1].endswith(sfx) for sfx in ARITH_CALLS) or f.has_body(e[1])):
            for a in e[2]:
                yield from arith_leaves(a)
        elif k in ("const", "float"):
            return
        else:
            yield e
    leaves = set()
    for loc, e in ds:
        leaves |= set(arith_leaves(e))
    # point-valued roots: the enemy king's square and the probed square
    from wa import interp
    interp.set_facts(f)
    roots = set()
    for x in leaves:
        if x[0] == "field" and x[2] in ("0", "1"):
            roots.add(x[1])
        else:
            roots.add(x)
    P = [r for r in roots if root_local(r) == sq and strip_refs(r)[0] == "arg"]
    K = [r for r in roots if r not in P]
    if len(P) != 1 or len(K) != 1:
        raise ShapeNotRecognised("king-class decision is not a function of (enemy king square, probed square): %s" % [show_expr(x, b) for x in roots])
    P, K = P[0], K[0]
    start = min((loc[0] for loc, _ in ds), key=lambda bb: len([x for x in b.normal if b.node_dominates(x, bb)]))
    kblocks = {loc[0] for loc, _ in ds}
    bad = []
    n = 0
    for kr in range(2, 10):
        for kc in range(2, 10):
            for pr in range(2, 10):
                for pc in range(2, 10):
                    if (kr, kc) == (pr, pc):
                        continue
                    env = {K: (kr, kc), P: (pr, pc)}
                    try:
                        val = _king_answer(b, ex, env, start, kblocks)
                    except Unknown as e:
                        raise ShapeNotRecognised("cannot evaluate king-class decision: %r" % (e,))
                    want = max(abs(kr - pr), abs(kc - pc)) <= 1
                    n += 1
                    if bool(val) != want:
                        bad.append(((kr, kc), (pr, pc), val))
    ctx.ob("is_check_cords:king-class:distance", not bad, b.where(ds[0][0]),
           "evaluated for all %d (enemy king, probed square) pairs: attacked exactly when both coordinates differ by at most one%s" % (
               n, "" if not bad else "; WRONG for %d pairs, e.g. king %s vs square %s -> %s (%s)" % (
                   len(bad), chess.name(bad[0][0]), chess.name(bad[0][1]), bad[0][2], "diagonal neighbours are not seen" if abs(bad[0][0][0] - bad[0][1][0]) == 1 and abs(bad[0][0][1] - bad[0][1][1]) == 1 else "see pair")))


def r2_5(ctx):
    """Generator king cache: a king move stores its destination in the mover's cached king square
    before the legality gate; castling stores the oracle's destination."""
    from . import successor
    from wa.cond import refuted_edges
    an = successor.get(ctx)
    f = ctx.facts
    kinds = f.enum_variant_by_discr("board::PieceKind")
    colours = f.enum_variant_by_discr("board::PieceColor")
    n = 0
    for site in an.sites:
        b, ex, L = site.b, site.ex, site.L
        mp = [(loc, ev) for loc, evs in site.events.items() for ev in evs if ev[0] == "call" and ev[1] == successor.MOVE_PIECE and ev[2] == 0]
        writes = {}
        for loc, evs in site.events.items():
            for ev in evs:
                if ev[0] == "write" and ev[1][0].endswith("_king_location"):
                    writes.setdefault(ev[1][0], []).append((loc, ev[2]))
        if len(mp) == 1 and site.gate_edges:
            pp = [i for i in range(1, b.arg_count + 1) if b.local_ty(i) == "board::Piece"]
            if len(pp) != 1:
                continue
            to = strip_refs(ex.call_args(mp[0][0][0])[2])
            kind_e, col_e = ("field", ("arg", pp[0]), "kind"), ("field", ("arg", pp[0]), "color")
            gates = {bb for (bb, tg) in site.gate_edges}
            if enum_value_on_trace(b, ex, site.bb, kind_e, kinds) <= {"Pawn"}:
                continue   # en-passant successor: the mover is a pawn on this trace
            for colour in ("White", "Black"):
                field = "%s_king_location" % colour.lower()
                ref = refuted_edges(b, ex, {kind_e: ("eq", "King"), col_e: ("eq", colour)}, {kind_e: kinds, col_e: colours})
                wr = {loc[0] for loc, v in writes.get(field, []) if strip_refs(v) == to}
                reach = any(site.bb != g and b.reaches(site.bb, g, removed_nodes=wr, removed_edges=ref) for g in gates)
                n += 1
                ctx.ob("%s:king(%s):cache-before-gate" % (site.name, colour), not reach, b.where(site.loc),
                       "a %s king move reaches the legality test only after %s was set to the destination square%s" % (
                           colour, field, "" if not reach else ": NOT so — the gate would probe the king's old square"))
            for field, ws in writes.items():
                for loc, v in ws:
                    ctx.ob("%s:%s:value" % (site.name, field), strip_refs(v) == to, b.where(loc), "cached king square is written with the move's destination")
        elif len(mp) == 2:
            # castling: constant destination per the oracle, and the king is moved from the parent's square
            # to it.  Decided per mover colour on the body specialised to `board.to_move == colour`, so
            # that a destination built from a rank selected by `match board.to_move` is a constant.
            from wa.cond import specialise
            bps = [i for i in range(1, b.arg_count + 1) if b.local_ty(i) == "&board::BoardState"]
            tm = ("field", ("deref", ("arg", bps[0])), "to_move") if len(bps) == 1 else None
            for colour in ("White", "Black"):
                if tm is not None:
                    b2, ex2, _ref = specialise(b, {tm: ("eq", colour)}, {tm: colours})
                else:
                    b2, ex2 = b, ex
                if site.bb not in b2.reachable:
                    continue
                for field, ws in sorted(writes.items()):
                    for loc, v in ws:
                        if loc[0] not in b2.reachable or not (loc[0] == site.bb or b2.reaches(site.bb, loc[0])):
                            continue
                        st = b.stmts(loc[0])[loc[1]]
                        v = strip_refs(ex2.rvalue(st["rv"], loc))
                        ok = v[0] == "agg" and all(x[0] == "const" for x in v[3])
                        dest = (v[3][0][1], v[3][1][1]) if ok else None
                        own = field.startswith(colour.lower())
                        okd = own and dest in [chess.sq(c[1]) for r, c in chess.CASTLING.items() if chess.RIGHT_COLOUR[r] == colour]
                        n += 1
                        ctx.ob("%s:%s:castling-destination" % (site.name, field), bool(okd), b.where(loc),
                               "castling by %s stores %s in %s" % (colour, chess.name(dest) if dest and 2 <= dest[0] <= 9 and 2 <= dest[1] <= 9 else dest, field))
    ctx.floor("king-cache obligations", n, 4)


def r6_5(ctx):
    """Sentinel safety of the single-step probes: with the probed / moving piece's square on the
    board ([2,9] x [2,9]) every index formed by knight offsets, pawn offsets and the king
    neighbourhood lies in [0, 11].  (Ray walks are covered by the walk shape R6.3/R1.4 and the
    sentinel ring argument, which is not computed.)"""
    from wa.exprint import expr_interval
    f = ctx.facts
    targets = [ICC, "move_generation::knight_moves", "move_generation::king_moves", "move_generation::pawn_moves", "move_generation::pawn_moves_en_passant"]
    n = nd = 0
    for fn in targets:
        b = xbody(f, fn)
        ctx.note_fn(fn)
        ex = Exprs(b)
        pts = [i for i in range(1, b.arg_count + 1) if b.local_ty(i) == "board::Point"]
        us = [i for i in range(1, b.arg_count + 1) if b.local_ty(i) == "usize"]
        tl = table_loops(b, ex)
        cols = {}
        for h, (body_, tab, item) in tl.items():
            cols[_strip_cd(("field", ("deref", item), "0"))] = (min(t[0] for t in tab), max(t[0] for t in tab))
            cols[_strip_cd(("field", ("deref", item), "1"))] = (min(t[1] for t in tab), max(t[1] for t in tab))
        ranges = {}
        for h, body_ in b.loops().items():
            for x in body_:
                if b.term(x)["k"] == "switch":
                    d = ex.switch_discr(x)
                    if d[0] == "discr" and d[1][0] == "call" and d[1][1].endswith("Range<A>>::next"):
                        for y in data_slice(ex, strip_refs(d[1][2][0])):
                            if y[0] == "agg" and y[1].endswith("ops::Range") and all(z[0] == "const" for z in y[3]):
                                ranges[("field", ("downcast", d[1], "Some"), "0")] = (y[3][0][1], y[3][1][1] - 1)

        def leaf(e):
            e0 = e
            if e0[0] == "field" and e0[1][0] == "arg" and e0[1][1] in pts:
                return (2, 9)
            if e0[0] == "arg" and e0[1] in us:
                return (2, 9)
            if _strip_cd(e0) in cols and e0[0] != "cast":
                return cols[_strip_cd(e0)]
            if e0 in ranges:
                return ranges[e0]
            return None

        short = fn.split("::")[-1]
        k = 0
        for bb in b.normal:
            if bb not in b.reachable or b.term(bb)["k"] != "assert":
                continue
            t = b.term(bb)
            loc = b.term_loc(bb)
            if t["assert_kind"] == "bounds":
                ln = t["ops"][0]
                e = ex.operand(t["ops"][1], loc)
                iv = expr_interval(e, leaf)
                k += 1
                if iv is None:
                    nd += 1
                    continue     # walking index (loop-carried): not decided here
                n += 1
                ok = iv[0] >= 0 and iv[1] <= ln["val"] - 1
                ctx.ob("%s:index#%d" % (short, k), ok, b.where(loc), "index `%s` in [%s, %s] for an array of %s" % (show_expr(e, b)[:60], iv[0], iv[1], ln["val"]))
            elif t["assert_kind"].startswith("overflow:"):
                op = t["assert_kind"].split(":")[1]
                a, c = ex.operand(t["ops"][0], loc), ex.operand(t["ops"][1], loc)
                ia, ic = expr_interval(a, leaf), expr_interval(c, leaf)
                ty = t["ops"][0].get("ty") or t["ops"][0].get("place", {}).get("ty")
                k += 1
                if ia is None or ic is None or ty not in ("usize", "i8"):
                    nd += 1
                    continue
                n += 1
                from wa.absint import Intervals as _I
                from wa.mir import INT_RANGES as _R
                r = _I._arith(op, ia, ic)
                ok = r is not None and r[0] >= _R[ty][0] and r[1] <= _R[ty][1]
                ctx.ob("%s:arith#%d" % (short, k), ok, b.where(loc), "%s of [%s,%s] and [%s,%s] in %s" % (op, ia[0], ia[1], ic[0], ic[1], ty))
    ctx.ob("walking-indices-not-decided", True, "", "%d index/arithmetic checks depend on loop-carried walk positions and are left to the sentinel argument" % nd, nontrivial=False)
    ctx.floor("single-step index obligations", n, 20)


def r6_6(ctx):
    """No attack class is skipped: the answer 'not attacked' (any result that is not the constant
    true) is reached only after the orthogonal, diagonal and knight loops and the pawn probe have
    all been passed."""
    f = ctx.facts
    b = xbody(f, ICC)
    ex = Exprs(b)
    board, color, sq = _params(b)
    tl = table_loops(b, ex)
    loops = b.loops()
    inloops = set()
    for h2, b2 in loops.items():
        inloops |= b2
    ptests = [t for t in _piece_tests(b, ex, set(b.normal) - inloops) if t[1] == "pawn"]
    finals = []
    for loc, st in b.iter_stmts():
        if st["k"] == "assign" and st["place"]["local"] == 0 and not st["place"]["proj"]:
            e = ex.rvalue(st["rv"], loc)
            if e != ("const", True):
                finals.append(loc)
    ctx.floor("non-true results of is_check_cords", len(finals), 1)
    names = {}
    for h, (body_, tab, item) in tl.items():
        nm = "orthogonal" if tab == chess.ROOK_DIRS else "diagonal" if tab == chess.BISHOP_DIRS else "knight" if tab == chess.KNIGHT_OFFSETS else "table@%d" % h
        names[nm] = h
    if ptests:
        first = min((t[0] for t in ptests), key=lambda x: len([y for y in b.normal if b.node_dominates(y, x)]))
        names["pawn"] = first
    for nm in ("orthogonal", "diagonal", "knight", "pawn"):
        if nm not in names:
            ctx.ob("is_check_cords:%s:evaluated" % nm, False, b.file, "no %s attack test found" % nm)
            continue
        blk = names[nm]
        bad = [loc for loc in finals if not b.node_dominates(blk, loc[0])]
        ctx.ob("is_check_cords:%s:always-evaluated" % nm, not bad, b.where(bad[0]) if bad else b.where(b.term_loc(blk)),
               "the %s attack test lies on every path to a 'not attacked' answer%s" % (nm, "" if not bad else ": NOT so — it can be skipped (guarded by an extra condition), so some attacks of this kind are never seen"))
