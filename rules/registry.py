"""Property -> rules.  A rule is evaluated by every property whose statement it is a necessary
condition of (DESIGN §4 'Shared obligations')."""
from . import successor, attack, uci_rules, draw, fen, search, modes, hash, textmove, timectl

RULES = {
    "R9.1": ("trace-partitioned on the colour: the slice reads only the mover's clock fields; usable-clock trace has the form k*(clock-s)/movestogo with k<=0.8, s>=100, default>=30; no clock and no increment gives 0", timectl.r9_123),
    "R9.4": ("the caller passes the side to move and the parsed clock of this go; search thread and polling loop share one (start, slice) deadline", timectl.r9_45),
    "R3.4": ("clock fields of GameTime are signed and wide", timectl.r3_4),
    "R4.1": ("make_move event discipline: ep cleared first, exactly one side swap and last, king moves update the cached king square with the destination and remove both rights (path feasibility under the hypothesis kind==King, colour==C)", textmove.r4_1),
    "R4.3": ("move text <-> rights: for every representative move text touching a rook corner the right is removed (string guards evaluated per text); castling texts trigger the oracle's rook hop", textmove.r4_3),
    "R4.4": ("play_out_position creates the board with from_fen and mutates it only through make_move", textmove.r4_4),
    "R5.1": ("each helper keeps key and state in step on every path: swap_color, take_away_castling_rights, unset_pawn_double_move, move_piece", hash.r5_1),
    "R5.2": ("every raw write of a hashed component outside the helpers has its XOR in the same control region, and every XOR term has its write (R5.3)", hash.r5_2),
    "R5.4": ("from_fen builds the key from scratch: piece, side, en-passant file and castling terms each under exactly its own condition", hash.r5_4),
    "R5.5": ("key getters are injective: kind index bijection, colour offset, castling variant->field table, constant seed", hash.r5_5),
    "R5.c": ("positive control: the raw-write matcher sees the null-move to_move write", hash.r5_positive_control),
    "R13.1": ("no successor-construction event (helper call, field write, publish) is control-dependent on a branch that is a pure function of the generation mode", modes.r13_1),
    "R7.1": ("in get_best_move every accept site (best_move, send, alpha update, info, PV) is dominated by the not-expired edge of an out_of_time(start,t) re-read after alpha_beta_search; the only other send is the fallback (R7.3)", search.r7_1),
    "R7.2": ("the abort sentinel is returned only under the entry clock test, which dominates every recursive call and table event; out_of_time is a pure clock comparison", search.r7_2),
    "R10.5": ("add/remove on the repetition table balance on every exit of alpha_beta_search; test precedes add; no table events elsewhere in the search", search.r10_5),
    "R3.2": ("every board sent is a clone of an element of generate_moves(root, AllMoves)", search.r3_2),
    "R11.1": ("a move-less node returns 0 unless in check, else ply - MATE_SCORE", search.r11_1),
    "R12.1": ("child scores are negated exactly once; the leaf hand-over to quiescence is returned unnegated", search.r12_1),
    "R8.1": ("the wait for the search thread has an exit that does not need a received move (channel disconnect) or the producer must-sends", uci_rules.r8_1),
    "R17.3": ("the byte count of the stdin read reaches a comparison whose zero edge ends the process (or is told apart by the command loop)", uci_rules.r17_3),
    "R10.3": ("the threefold predicate is true exactly for counts >= 2 (evaluated for all 256 counts)", draw.r10_3),
    "R15.1": ("panic census of cone(from_fen): every assert and every panicking entry point is discharged by intervals (A), an enumerated idiom (I1, I2, I4) or the guard-witnessed entry M1", fen.r15_1),
    "R15.2": ("FEN counters are parsed into wide enough unsigned integers", fen.r15_2),
    "R1.3": ("every attack class of the square-attack test depends on the probed square; the king class reads the enemy king's square on each colour trace", attack.r1_3),
    "R1.1": ("every published successor passed a legality gate (is_check false edge for the mover's colour, or can_castle) with no board mutation afterwards", successor.r1_1),
    "R2.1": ("at every publish last_move and pawn_promotion have been written on that successor", successor.r2_1),
    "R2.2": ("at every publish the side to move was swapped exactly once", successor.r2_2),
    "R2.4": ("a successor whose move leaves or lands on a rook home corner has lost that corner's right; a king move loses both rights of its colour (path feasibility under the hypothesis from/to == corner)", successor.r2_4),
    "R2.3": ("at every publish the en-passant target was resolved for this move", successor.r2_3),
    "R5.2e": ("an en-passant target is set on a successor only after the inherited one was cleared (EpClear)", successor.r5_2_epclear),
}

QUICK = {
    "C01": ["R1.1", "R1.3", "R2.1", "R2.2", "R2.3", "R2.4"],
    "C02": ["R2.1", "R2.2", "R2.3", "R2.4"],
    "C05": ["R5.1", "R5.2", "R5.2e", "R5.4", "R5.5", "R5.c"],
    "C04": ["R4.1", "R4.3", "R4.4", "R5.2", "R5.2e", "R2.1"],
    "C03": ["R3.2", "R3.4", "R2.1", "R4.1", "R4.3"],
    "C09": ["R9.1", "R9.4"],
    "C07": ["R7.1", "R7.2", "R10.5"],
    "C08": ["R8.1"],
    "C11": ["R11.1"],
    "C12": ["R12.1"],
    "C10": ["R10.3", "R10.5"],
    "C13": ["R13.1", "R2.3", "R1.1", "R2.4"],
    "C15": ["R15.1", "R15.2"],
    "C17": ["R17.3"],
}
THOROUGH_EXTRA = {}

LEVEL = {}

# what each claimed check decides (MANIFEST level_claimed.text) and what it does not
CLAIMS = {
    "C01": {"technique": "MIR typestate (must-pass-through legality gate) + backward data slices of the attack test",
            "text": "Necessary structural conditions of legal move generation: every published successor passed the legality gate; every attack class depends on the probed square and the king class reads the enemy king.",
            "not": "set equality with FIDE legality over all positions, completeness, duplicates"},
    "C02": {"technique": "MIR successor typestate over every clone->publish path",
            "text": "On every path from a successor's creation to its publication: side swapped exactly once, last_move and pawn_promotion written, en-passant target resolved.",
            "not": "correctness of the pseudo-move lists themselves"},
    "C05": {"technique": "MIR hash-coherence typestate (write/XOR pairing, EpClear)",
            "text": "An en-passant target is only set on a successor whose inherited target was cleared first (the XOR discipline that keeps key and state in step).",
            "not": "numerical quality of the 64-bit constants"},
    "C08": {"technique": "CFG reachability on the polling loop (move-independent exit) / must-send on the producer",
            "text": "The wait for the search thread has an exit that does not need a received move, or the producer sends on every path.",
            "not": "the wall-clock latency bound"},
    "C10": {"technique": "finite instantiation of the threefold predicate over all 256 counts",
            "text": "The repetition predicate is true exactly for counts >= 2.",
            "not": "that the key identifies the position (C05) and the score consequence of the search"},
    "C15": {"technique": "panic census of cone(from_fen) discharged by interval abstract interpretation + enumerated idioms",
            "text": "Every assert and panicking entry point reachable from the FEN loader is discharged for all input strings; counters are parsed wide enough.",
            "not": "faithfulness of the loaded position beyond the letter/layout tables"},
    "C17": {"technique": "dataflow from the read_line byte count to a process exit",
            "text": "End of input on stdin (0-byte read) reaches a process exit.",
            "not": "promptness (timing)"},
}
NOT_APPLICABLE = {}
