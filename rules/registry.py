"""Property -> rules.  A rule is evaluated by every property whose statement it is a necessary
condition of (DESIGN §4 'Shared obligations')."""
from . import successor, attack, uci_rules, draw, fen

RULES = {
    "R8.1": ("the wait for the search thread has an exit that does not need a received move (channel disconnect) or the producer must-sends", uci_rules.r8_1),
    "R17.3": ("the byte count of the stdin read reaches a comparison whose zero edge ends the process (or is told apart by the command loop)", uci_rules.r17_3),
    "R10.3": ("the threefold predicate is true exactly for counts >= 2 (evaluated for all 256 counts)", draw.r10_3),
    "R15.1": ("panic census of cone(from_fen): every assert and every panicking entry point is discharged by intervals (A), an enumerated idiom (I1, I2, I4) or the guard-witnessed entry M1", fen.r15_1),
    "R15.2": ("FEN counters are parsed into wide enough unsigned integers", fen.r15_2),
    "R1.3": ("every attack class of the square-attack test depends on the probed square; the king class reads the enemy king's square on each colour trace", attack.r1_3),
    "R1.1": ("every published successor passed a legality gate (is_check false edge for the mover's colour, or can_castle) with no board mutation afterwards", successor.r1_1),
    "R2.1": ("at every publish last_move and pawn_promotion have been written on that successor", successor.r2_1),
    "R2.2": ("at every publish the side to move was swapped exactly once", successor.r2_2),
    "R2.3": ("at every publish the en-passant target was resolved for this move", successor.r2_3),
    "R5.2e": ("an en-passant target is set on a successor only after the inherited one was cleared (EpClear)", successor.r5_2_epclear),
}

QUICK = {
    "C01": ["R1.1", "R1.3"],
    "C02": ["R2.1", "R2.2", "R2.3"],
    "C05": ["R5.2e"],
    "C08": ["R8.1"],
    "C10": ["R10.3"],
    "C15": ["R15.1", "R15.2"],
    "C17": ["R17.3"],
}
THOROUGH_EXTRA = {}
