"""Time control rules (C09; R3.4 shared with C03): the slice depends only on the mover's clock and
has the form k*(clock - s)/movestogo with k <= 0.8, s >= 100."""
from wa.mir import AnchorMissing, ShapeNotRecognised, callee_of, operand_alias
from wa.expr import Exprs, show_expr, strip_refs, subexprs, root_local
from wa.paths import enum_paths
from wa.pathsym import eval_path, cond_truth

CTS = "time_control::GameTime::calculate_time_slice"
FIND = "uci::find_and_play_best_move"
LOOP_FN = "uci::play_game_uci"
PGC = "uci::parse_go_command"
GT = "time_control::GameTime"
OOT = "utils::out_of_time"
K_MAX, S_MIN, MTG_DEFAULT = 0.8, 100.0, 30      # the numbers in the property statement
ALLOWED = {"White": {"wtime", "winc", "movestogo"}, "Black": {"btime", "binc", "movestogo"}}
CLOCK = {"White": "wtime", "Black": "btime"}
INC = {"White": "winc", "Black": "binc"}


class Form:
    """k * (sum coef*term + c) / prod(den)"""

    def __init__(self, k, terms, c, den):
        self.k, self.terms, self.c, self.den = k, terms, c, den

    def is_const(self):
        return not self.terms and not self.den


def form(e):
    k = e[0]
    if k == "float":
        return Form(1.0, {}, e[1], [])
    if k == "const" and isinstance(e[1], (int, float)) and not isinstance(e[1], bool):
        return Form(1.0, {}, float(e[1]), [])
    if k == "cast":
        inner = e[2]
        if e[1] in ("f64", "f32"):
            if inner[0] in ("float", "const"):
                return form(inner)
            return Form(1.0, {inner: 1.0}, 0.0, [])
        return form(inner)          # float -> integer cast: monotone, saturating
    if k == "call" and e[1].endswith("f64>::round"):
        return form(e[2][0])        # |round(x) - x| <= 0.5
    if k == "bin":
        op = e[1]
        a, b = form(e[2]), form(e[3])
        if a is None or b is None:
            return None
        if op in ("Add", "Sub"):
            sgn = 1.0 if op == "Add" else -1.0
            if b.is_const() and a.k != 0:
                return Form(a.k, dict(a.terms), a.c + sgn * (b.k * b.c) / a.k, list(a.den)) if not a.den else None
            if a.is_const() and b.k != 0 and not b.den:
                return Form(sgn * b.k, dict(b.terms), b.c + (a.k * a.c) / (sgn * b.k), [])
            if a.k == b.k and a.den == b.den:
                t = dict(a.terms)
                for x, cf in b.terms.items():
                    t[x] = t.get(x, 0.0) + sgn * cf
                return Form(a.k, t, a.c + sgn * b.c, list(a.den))
            return None
        if op == "Mul":
            if b.is_const():
                return Form(a.k * b.k * b.c, dict(a.terms), a.c, list(a.den))
            if a.is_const():
                return Form(b.k * a.k * a.c, dict(b.terms), b.c, list(b.den))
            return None
        if op == "Div":
            if b.is_const() and b.k * b.c != 0:
                return Form(a.k / (b.k * b.c), dict(a.terms), a.c, list(a.den))
            if not b.den and b.c == 0 and len(b.terms) == 1 and b.k == 1.0:
                (t, cf), = b.terms.items()
                if cf == 1.0:
                    return Form(a.k, dict(a.terms), a.c, a.den + [t])
            return None
    return None


def _self_fields(e, selfp):
    out = set()
    for x in subexprs(e):
        if x[0] == "field" and strip_refs(x[1]) == ("arg", selfp):
            out.add(x[2])
    return out


def r9_123(ctx):
    f = ctx.facts
    b = f.body(CTS)
    ctx.note_fn(CTS)
    ex = Exprs(b)
    if b.loops():
        raise ShapeNotRecognised("calculate_time_slice contains a loop")
    selfp = [i for i in range(1, b.arg_count + 1) if b.local_ty(i) == "&" + GT]
    colp = [i for i in range(1, b.arg_count + 1) if b.local_ty(i) == "board::PieceColor"]
    if len(selfp) != 1 or len(colp) != 1:
        raise ShapeNotRecognised("calculate_time_slice(&self, colour)")
    selfp, colp = selfp[0], colp[0]
    paths = enum_paths(b, ex)
    seen = {"White": set(), "Black": set()}
    n = 0
    for blocks, dec in paths:
        if b.term(blocks[-1])["k"] != "return":
            continue
        env, conds = eval_path(b, blocks)
        res = env.get(0)
        # colour of this trace
        colour = None
        for c in conds:
            d = c[0]
            tr = cond_truth(c)
            if d[0] == "bin" and d[1] == "Eq" and tr is not None:
                for x, k in ((strip_refs(d[2]), strip_refs(d[3])), (strip_refs(d[3]), strip_refs(d[2]))):
                    if x == ("arg", colp) and k[0] == "agg":
                        colour = k[2] if tr else {"White": "Black", "Black": "White"}[k[2]]
            if d[0] == "discr" and strip_refs(d[1]) == ("arg", colp) and not c[2] and len(c[1]) == 1:
                colour = f.enum_variant_by_discr("board::PieceColor").get(c[1][0])
        if colour is None:
            ctx.ob("calculate_time_slice:path-without-colour", False, b.where((blocks[-1], 0)),
                   "a path computes the slice without distinguishing whose move it is")
            continue
        n += 1
        # R9.1: only the mover's fields flow into result and conditions
        used = _self_fields(res, selfp)
        for c in conds:
            used |= _self_fields(c[0], selfp)
        foreign = used - ALLOWED[colour]
        pkey = "+".join("%s%s" % ("" if cond_truth(c) else "!", _cname(c[0], selfp)) for c in conds if _cname(c[0], selfp))
        ctx.ob("calculate_time_slice:%s[%s]:mover-only" % (colour, pkey), not foreign, b.where((blocks[-1], 0)),
               "on the %s trace the slice reads %s; fields of the other side: %s" % (colour, sorted(used), sorted(foreign)))
        # classify the trace by the clock test
        usable = None
        inc_pos = None
        for c in conds:
            d, tr = c[0], cond_truth(c)
            if d[0] == "bin" and d[1] in ("Le", "Lt", "Gt", "Ge") and tr is not None:
                fm = form(d[2])
                rhs = form(d[3])
                if fm is None or rhs is None or not rhs.is_const() or rhs.c != 0.0:
                    continue
                flds = {x[2] for t_ in fm.terms for x in subexprs(t_) if x[0] == "field"}
                positive = tr if d[1] in ("Gt", "Ge") else (not tr)
                if flds == {CLOCK[colour]} and fm.c * fm.k <= -S_MIN * fm.k * list(fm.terms.values())[0] + 1e-9:
                    usable = positive
                elif flds == {INC[colour]}:
                    inc_pos = positive
        seen[colour].add((usable, inc_pos))
        fr = form(res)
        if usable is True:
            ok, why = False, "result `%s` is not of the form k*(clock - s)/movestogo" % show_expr(res, b)[:120]
            if fr is not None and len(fr.terms) == 1:
                (t, cf), = fr.terms.items()
                tf = {x[2] for x in subexprs(t) if x[0] == "field"}
                k_eff = fr.k * cf
                s_eff = -fr.c / cf if cf else 0
                den_ok = False
                dflt = None
                if len(fr.den) == 1:
                    dd = fr.den[0]
                    # the divisor is the announced number of moves itself (or its default): through casts
                    # and a lower clamp `max(.., c)` only - anything else (`min`, a difference, a quotient)
                    # can make it smaller than announced, and the slice larger than clock/movestogo
                    x = strip_refs(dd)
                    while True:
                        if x[0] == "cast":
                            x = strip_refs(x[2])
                        elif x[0] == "call" and (x[1].endswith("::max") or x[1].endswith("Ord::max")) and len(x[2]) == 2 and strip_refs(x[2][1])[0] in ("const", "float"):
                            x = strip_refs(x[2][0])
                        else:
                            break
                    if x[0] == "call" and x[1].endswith("::unwrap_or") and x[2][1][0] == "const":
                        dflt = x[2][1][1]
                        mf = {y[2] for y in subexprs(x[2][0]) if y[0] == "field"}
                        den_ok = mf == {"movestogo"}
                ok = tf == {CLOCK[colour]} and 0 < k_eff <= K_MAX + 1e-12 and s_eff >= S_MIN - 1e-9 and den_ok and dflt is not None and dflt >= MTG_DEFAULT
                why = "slice = %.4g * (%s - %.6g) / movestogo(default %s): needs k <= %.1f, margin >= %g, division by the moves to go (default >= %d)" % (
                    k_eff, "/".join(sorted(tf)), s_eff, dflt, K_MAX, S_MIN, MTG_DEFAULT)
            ctx.ob("calculate_time_slice:%s:usable-clock:form" % colour, ok, b.where((blocks[-1], 0)), why)
        elif usable is False and inc_pos is False:
            # the value, not its spelling: `0`, `NO_TIME`, `(0.0).round() as u128` ... evaluate to 0
            is_zero = res == ("const", 0)
            if not is_zero:
                from wa.interp import eval_expr, Unknown
                try:
                    is_zero = eval_expr(res, {}) == 0
                except (Unknown, TypeError, ValueError):
                    is_zero = False
            ctx.ob("calculate_time_slice:%s:no-clock-no-increment:zero" % colour, is_zero, b.where((blocks[-1], 0)),
                   "with no usable clock and no increment the slice is `%s`; must be 0" % show_expr(res, b)[:80])
        elif usable is False and inc_pos is True:
            ctx.ob("calculate_time_slice:%s:increment-only" % colour, True, b.where((blocks[-1], 0)),
                   "increment-only branch: slice = %s (not judged: the statement is silent on this case)" % show_expr(res, b)[:80], nontrivial=False)
        else:
            ctx.ob("calculate_time_slice:%s:unclassified-path" % colour, False, b.where((blocks[-1], 0)),
                   "a path returns `%s` without first deciding whether the mover's clock exceeds the safety margin" % show_expr(res, b)[:100],
                   reason="shape-not-recognised")
    for colour in ("White", "Black"):
        ctx.ob("calculate_time_slice:%s:cases-covered" % colour, (True, None) in {(u, None) for u, i in seen[colour] if u} and (False, False) in seen[colour],
               b.file, "traces seen (usable clock, positive increment): %s" % sorted(seen[colour], key=str))
    ctx.floor("slice paths", n, 6)


def _cname(d, selfp):
    fs = sorted(_self_fields(d, selfp))
    return fs[0] if fs else ""


def r9_45(ctx):
    """The caller passes the side to move and both threads share one deadline."""
    f = ctx.facts
    b = f.body(FIND)
    ctx.note_fn(FIND)
    ex = Exprs(b)
    # the board parameter, borrowed shared or exclusively: what matters is whose field is read
    bp = [i for i in range(1, b.arg_count + 1) if b.local_ty(i) in ("&mut board::BoardState", "&board::BoardState", "board::BoardState")]
    calls = b.calls_to(CTS)
    if len(calls) == 1:
        bb, t = calls[0]
        args = ex.call_args(bb)
        where = b.where(b.term_loc(bb))
        col = strip_refs(args[1])
        base = strip_refs(col[1]) if col[0] == "field" else None
        ok = col[0] == "field" and col[2] == "to_move" and len(bp) == 1 and base in (("arg", bp[0]),) + ((col[1],) if col[1][0] == "mem" and col[1][1] == bp[0] else ())
        shown = show_expr(args[1], b)
        recv = strip_refs(args[0])
        shown_recv = show_expr(recv, b)[:80]
        slice_e = ex.call_expr(t, b.term_loc(bb))
    elif not calls and f.has_body(LOOP_FN) and len(f.body(LOOP_FN).calls_to(FIND)) == 1:
        # the slice is computed by the caller and handed in: the same two facts are decided at the
        # call site (colour = side to move of the very board that is passed on to be searched)
        lb = f.body(LOOP_FN)
        ctx.note_fn(LOOP_FN)
        lex = Exprs(lb)
        fbb, ft = lb.calls_to(FIND)[0]
        fargs = lex.call_args(fbb)
        ks = [i for i, a in enumerate(fargs) if strip_refs(a)[0] == "call" and strip_refs(a)[1] == CTS]
        if len(ks) != 1 or len(bp) != 1:
            raise ShapeNotRecognised("find_and_play_best_move receives no time slice computed by calculate_time_slice")
        cts = strip_refs(fargs[ks[0]])
        args = cts[2]
        where = lb.where(cts[3]) if cts[3] else lb.where(lb.term_loc(fbb))
        col = strip_refs(args[1])
        ok = col[0] == "field" and col[2] == "to_move" and strip_refs(col[1]) == strip_refs(fargs[bp[0] - 1])
        shown = show_expr(args[1], lb)
        recv = strip_refs(args[0])
        shown_recv = show_expr(recv, lb)[:80]
        slice_e = ("arg", ks[0] + 1)
    else:
        raise ShapeNotRecognised("find_and_play_best_move: %d calls of calculate_time_slice" % len(calls))
    ctx.ob("find_and_play_best_move:slice-for-side-to-move", ok, where,
           "colour argument is `%s`; must be the side to move of the board being searched" % shown)
    ok = recv[0] == "call" and recv[1] == PGC
    ctx.ob("find_and_play_best_move:slice-from-this-go", ok, where, "receiver is `%s`; must be the parsed clock of this go command" % shown_recv)
    startp = [i for i in range(1, b.arg_count + 1) if b.local_ty(i) == "std::time::Instant"]
    # polling loop deadline: every deadline test of the function (the out_of_time call, or the
    # comparison it stands for when the predicate is an inlined method of a clock object)
    from wa.implied import implying_edges
    from .search import clock_test
    n = 0
    seen_tests = set()
    for s, tg, (e, truth), fresh, lastdefs in implying_edges(b, ex, lambda e, t: clock_test(e, t) is not None):
        ct = clock_test(e, truth)
        if (s, ct[3]) in seen_tests:
            continue
        seen_tests.add((s, ct[3]))
        n += 1
        ok = startp and strip_refs(ct[1]) == ("arg", startp[0]) and strip_refs(ct[2]) == slice_e
        ctx.ob("find_and_play_best_move:poll-deadline#%d" % n, ok, b.where(b.term_loc(s)),
               "polling loop tests out_of_time(%s, %s); must be (start of this go, the computed slice)" % (show_expr(ct[1], b), show_expr(ct[2], b)[:60]))
    ctx.floor("deadline tests in the polling loop", n, 1)
    # the spawned closure captures the same pair and hands it to get_best_move
    closures = []
    for loc, st in b.iter_stmts():
        if st["k"] == "assign" and st["rv"]["k"] == "aggregate" and st["rv"].get("agg") == "closure":
            closures.append((loc, st["rv"]["closure"], ex.rvalue(st["rv"], loc)))
    nsp = 0
    for loc, cname, ce in closures:
        cb = f.body(cname)
        cex = Exprs(cb)
        for cbb, ct in cb.iter_calls(callee="engine::get_best_move"):
            nsp += 1
            cargs = cex.call_args(cbb)
            caps = ce[3]
            def cap_of(a):
                a = strip_refs(a)
                # field i of the closure environment (_1)
                if a[0] == "field" and root_local(a[1]) == 1 and strip_refs(a[1])[0] in ("arg", "var"):
                    try:
                        return caps[int(a[2])]
                    except (ValueError, IndexError):
                        return None
                return None
            # the deadline handed to the search: the Instant / u128 arguments, or the fields of a
            # clock object that bundles them
            leaves = []
            for ca in cargs:
                v = cap_of(ca)
                if v is None:
                    continue
                v = strip_refs(v)
                leaves += [strip_refs(x) for x in v[3]] if v[0] == "agg" and v[1] not in ("array", "closure") else [v]
            st_c = next((x for x in leaves if x[0] == "arg" and b.local_ty(x[1]) == "std::time::Instant"), None)
            t_c = slice_e if slice_e in leaves else next((x for x in leaves if x != st_c and (x[0] == "call" or (x[0] == "arg" and b.local_ty(x[1]) == "u128"))), None)
            ok = startp and st_c == ("arg", startp[0]) and t_c == slice_e
            ctx.ob("find_and_play_best_move:search-deadline", ok, cb.where(cb.term_loc(cbb)),
                   "search thread runs get_best_move(.., %s, %s); must be the same (start, slice) pair the polling loop uses" % (
                       show_expr(st_c, b) if st_c else "?", show_expr(t_c, b)[:50] if t_c else "?"))
    ctx.floor("spawned searches", nsp, 1)


def r3_4(ctx):
    """Clock fields are signed (negative clocks parse) and parsed with that signed type."""
    f = ctx.facts
    signed = {"i8", "i16", "i32", "i64", "i128", "isize"}
    for fld in ("wtime", "btime", "winc", "binc"):
        ty = f.struct_field_ty(GT, fld)
        ctx.ob("GameTime.%s:signed" % fld, ty in signed and ty not in ("i8", "i16"), "src/time_control.rs",
               "field type `%s`; GUIs send negative and large clock values, a type that rejects them makes `go` panic" % ty)


def r9_6(ctx):
    """go token table: the value after `wtime|btime|winc|binc|movestogo` is stored in the field of
    the same name (and nowhere else); every field starts at 0 / None for each go."""
    from wa.cond import dominating_facts
    f = ctx.facts
    b = f.body(PGC)
    ctx.note_fn(PGC)
    from wa import ucishape
    sc, ex = ucishape.token_scan(b)
    tests = ucishape.keyword_tests(sc)
    fields = f.struct_fields(GT)
    gts = [l for l in range(len(b.locals)) if b.local_ty(l) == GT]
    # Decided per hypothesis "the current token is <name>" / "is no known name" (the body is specialised
    # under the name tests, so a field pointer or a value selected by the match collapses to the one
    # feasible definition): which GameTime fields does one iteration write, and from which token?
    # Writes are followed through `&mut` pointers to a field (`*field = ..` with `field` chosen by name).
    from wa.cond import specialise
    from .session import resolve_place

    def writes_under(which):
        hyp = {d: ("eq", nm == which) for nm, (s_, tt, ft, offs, d) in tests.items()}
        b2, ex2, dead = specialise(b, hyp, keep=sc.counters)
        lp2 = b2.natural_loop(sc.h) if sc.h in b2.reachable else set()
        sc2 = ucishape.Scan(b2, ex2, sc.src, sc.h, lp2, sc.counters)
        name_offs = set(tests[which][3]) if which is not None else set()
        out = []
        for loc, st in b2.iter_stmts():
            if st["k"] != "assign" or loc[0] not in lp2 or loc[0] not in b2.reachable:
                continue
            rp = resolve_place(b2, st["place"])
            if rp is None or rp[0] not in gts or not rp[1]:
                continue
            e = ex2.rvalue(st["rv"], loc)
            toks = [sc2.token_offsets(a) for a in ucishape.parsed_tokens(f, e)]
            parsed = len(toks) == 1 and toks[0] is not None and None not in toks[0] and None not in name_offs and bool(name_offs) and toks[0] == {o + 1 for o in name_offs}
            out.append((rp[1][0], parsed, loc))
        return out
    per = {w: writes_under(w) for w in list(tests) + [None]}
    for fld in ("wtime", "btime", "winc", "binc", "movestogo"):
        own = per.get(fld, [])
        elsewhere = sorted({str(w) for w, ws in per.items() if w != fld and any(x[0] == fld for x in ws)})
        ok = fld in tests and [x[0] for x in own] == [fld] and own[0][1] and not elsewhere
        ctx.ob("parse_go_command:%s" % fld, ok, b.where(own[0][2]) if own else b.file,
               "under the token `%s` one iteration writes %s (must be GameTime.%s alone), from the parsed next token: %s; the field is also written under: %s" % (
                   fld, [x[0] for x in own], fld, [x[1] for x in own], elsewhere))
    stray = sorted({x[0] for x in per.get(None, [])})
    ctx.ob("parse_go_command:unknown-token-writes-nothing", not stray, b.file, "an unknown token changes no clock field (%s)" % stray, nontrivial=False)
    # initial values: the struct literal is all zero / None
    init_ok = False
    for loc, st in b.iter_stmts():
        if st["k"] == "assign" and st["rv"]["k"] == "aggregate" and st["rv"].get("adt") == GT:
            e = ex.rvalue(st["rv"], loc)
            vals = dict(zip(fields, e[3]))
            # a value is what it evaluates to: `0` / `None` written out, or the std `Default` of an
            # integer / of `Option` (what `#[derive(Default)]` builds field by field)
            def zero(v):
                return v == ("const", 0) or (v[0] == "call" and not v[2] and any(v[1] == "<%s as std::default::Default>::default" % t for t in (
                    "i8", "i16", "i32", "i64", "i128", "isize", "u8", "u16", "u32", "u64", "u128", "usize")))

            def none(v):
                return (v[0] == "agg" and v[2] == "None") or (v[0] == "call" and not v[2] and v[1].startswith("<std::option::Option<") and v[1].endswith("as std::default::Default>::default"))
            init_ok = all(zero(vals[k]) for k in ("wtime", "btime", "winc", "binc")) and none(vals["movestogo"])
    ctx.ob("parse_go_command:fresh-clock-per-go", init_ok, b.file, "every go starts from wtime = btime = winc = binc = 0 and movestogo = None")


def r9_8(ctx):
    """The instant the deadline is measured from is taken after the `go` line has been read: in the
    command loop the `Instant::now()` whose value reaches find_and_play_best_move cannot be executed
    before the read of the same iteration (otherwise the time the engine sat idle waiting for input is
    charged to the move)."""
    f = ctx.facts
    if not f.has_body(LOOP_FN):
        raise AnchorMissing(LOOP_FN)
    b = f.body(LOOP_FN)
    ctx.note_fn(LOOP_FN)
    ex = Exprs(b)
    finds = b.calls_to(FIND)
    if not finds:
        raise AnchorMissing("play_game_uci does not call find_and_play_best_move")
    reads = {bb for bb, t in b.iter_calls() if (callee_of(t) or "").endswith("uci::read_from_gui")}
    loops = b.loops()
    n = 0
    for fbb, ft in finds:
        inl = [h for h, body_ in loops.items() if fbb in body_]
        if not inl:
            continue
        h = max(inl, key=lambda hh: len(loops[hh]))
        loop = loops[h]
        lreads = {r for r in reads if r in loop}
        for i, a in enumerate(ft["args"]):
            if ft["arg_tys"][i] != "std::time::Instant" if i < len(ft.get("arg_tys", [])) else True:
                continue
            n += 1
            e = strip_refs(ex.operand(a, b.term_loc(fbb)))
            nows = [x for x in subexprs(e) if x[0] == "call" and x[1].endswith("Instant::now")]
            src = None
            if e[0] == "call" and e[1].endswith("Instant::now") and e[3] is not None:
                src = e[3][0]
            elif e[0] == "var":
                # merged definitions: every one must be a now() taken after the read
                src = [d[0][0] for d in e[2]]
            if src is None:
                ctx.ob("go:start-instant#%d" % n, False, b.where(b.term_loc(fbb)), "the start instant handed to find_and_play_best_move is not `Instant::now()` of this iteration: `%s`" % show_expr(e, b)[:60])
                continue
            srcs = src if isinstance(src, list) else [src]
            bad = [s_ for s_ in srcs if s_ not in loop or not lreads or (h not in lreads and (s_ == h or b.reaches(h, s_, removed_nodes=lreads)))]
            ctx.ob("go:start-instant#%d" % n, not bad, b.where(b.term_loc(srcs[0])),
                   "the clock of a `go` starts after its line has been read (Instant::now() at %s, read at %s)%s" % (
                       b.where(b.term_loc(srcs[0])), [b.where(b.term_loc(r)) for r in sorted(lreads)][:1],
                       "" if not bad else ": NOT so - the instant is taken before the blocking read, so the time spent waiting for the line is deducted from the thinking time"))
    ctx.floor("start instants handed to the search", n, 1)
