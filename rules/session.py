"""Command-loop rules: C16 (replies depend only on the current position command) and C17
(unknown input is ignored, lifecycle)."""
from wa.mir import AnchorMissing, ShapeNotRecognised, callee_of, operand_alias
from wa.expr import Exprs, show_expr, strip_refs, subexprs, root_local, data_slice
from wa.cond import dominating_facts
from .uci_rules import exits_process

LOOP_FN = "uci::play_game_uci"
READ = "uci::read_from_gui"
SEND = "uci::send_to_gui"
FIND = "uci::find_and_play_best_move"
POP = "uci::play_out_position"
GBM = "engine::get_best_move"
STATE_TYPES = {"board::BoardState": "the current position", "draw_table::DrawTable": "its repetition record"}
LOGGING = ("log::", "std::fmt::", "core::fmt::", "std::hint::must_use", "<log::", "<std::string::String as std::ops::Deref", "alloc::",
           "std::cmp::PartialOrd::le", "std::cmp::PartialOrd::lt")


def command_loop(b, ex):
    loops = b.loops()
    for bb, t in b.iter_calls(callee=READ):
        inl = [h for h, body_ in loops.items() if bb in body_]
        if inl:
            h = max(inl, key=lambda hh: len(loops[hh]))
            return h, loops[h]
    raise ShapeNotRecognised("no command loop around read_from_gui in play_game_uci")


def _first_token(x):
    """x reads element 0 of the token list: `tokens[0]` on a Vec (Index::index call) or on a slice
    (built-in indexing, which is what the same expression becomes once the tokens are passed on as
    `&[&str]`)."""
    for y in subexprs(x):
        if y[0] == "call" and y[1].endswith("::index") and len(y[2]) == 2 and y[2][1] == ("const", 0):
            return True
        if y[0] == "index" and y[2] == ("const", 0):
            return True
        if y[0] == "cidx" and y[2] == 0:
            return True
    return False


def arms(b, ex, loop):
    """{command string: (switch bb, true target)} and the default target."""
    out = {}
    chain = []
    for s in sorted(loop):
        if b.term(s)["k"] != "switch":
            continue
        d = ex.switch_discr(s)
        if d[0] == "bin" and d[1] == "Eq":
            for x, k in ((strip_refs(d[2]), strip_refs(d[3])), (strip_refs(d[3]), strip_refs(d[2]))):
                if k[0] == "str" and _first_token(x):
                    t = b.term(s)
                    ft = [tg for v, tg in t["cases"] if v == 0]
                    out[k[1]] = (s, t["otherwise"], ft[0] if ft else None)
    return out


class Dispatch:
    """The command dispatch of the loop, decided by hypothesis instead of by the shape of one
    `match`: for every command word W that the first token is compared with (directly in the loop or
    inside an inlined classifier such as `Command::from_token`), the body is specialised under
    "first token == W, and != every other word" (cond.specialise: the word tests are the hypothesis;
    a classifier's enum result and the `match` on it fold to the one feasible arm).
      spec(W)    (body, Exprs) specialised for W (None: no word matches)
      region(W)  loop blocks that one iteration can reach under W and under no other hypothesis:
                 the arm of W, however the dispatch is spelled
    `words` maps W to the block of its string test."""

    def __init__(self, f, b, ex, h, loop):
        self.f, self.b, self.ex, self.h, self.loop = f, b, ex, h, loop
        self.tests = {}
        for s in sorted(loop):
            if s not in b.reachable or b.term(s)["k"] != "switch":
                continue
            d = ex.switch_discr(s)
            if d[0] == "bin" and d[1] == "Eq":
                for x, k in ((strip_refs(d[2]), strip_refs(d[3])), (strip_refs(d[3]), strip_refs(d[2]))):
                    if k[0] == "str" and _first_token(x):
                        self.tests[k[1]] = (s, strip_refs(d))
        self.words = {w: s for w, (s, d) in self.tests.items()}
        self._spec = {}
        self._reach = {}

    def spec(self, word):
        if word not in self._spec:
            from wa.cond import specialise
            hyp = {d: ("eq", w == word) for w, (s, d) in self.tests.items()}
            b2, ex2, dead = specialise(self.b, hyp)
            self._spec[word] = (b2, ex2)
        return self._spec[word]

    def reach(self, word):
        """Blocks reachable from the header within one iteration under the hypothesis (including the
        diverging tails: process exit, panics)."""
        if word not in self._reach:
            b2, _ = self.spec(word)
            seen, st = set(), [self.h]
            while st:
                x = st.pop()
                if x in seen:
                    continue
                seen.add(x)
                for y in b2.succ.get(x, []):
                    if y != self.h:
                        st.append(y)
            self._reach[word] = seen
        return self._reach[word]

    def region(self, word):
        others = set()
        for w in list(self.tests) + [None]:
            if w != word:
                others |= self.reach(w)
        return self.reach(word) - others

    def always_passes(self, word, blocks):
        """Under W no iteration gets back to the header without passing one of `blocks`."""
        b2, _ = self.spec(word)
        blocks = set(blocks)
        return bool(blocks) and self.h not in blocks and not b2.reaches(self.h, self.h, removed_nodes=blocks)

    def extra_conditions(self, word, bb):
        """Branch facts on the way to block bb under W that the word does not decide (switches that
        still have two live edges in the specialised body)."""
        from wa.cond import dominating_facts as df
        b2, ex2 = self.spec(word)
        out = []
        for d, vals, excl, s2, tg in df(b2, ex2, bb):
            if s2 in self.loop and len(b2.succ.get(s2, [])) > 1:
                # a test made before any command word is looked at whose other outcome ends the
                # process (end of input) is not a condition on the command: there is no command then
                pre = all(s2 == ts or b2.node_dominates(s2, ts) for ts in self.words.values() if ts in b2.reachable)
                if pre and all(y == tg or exits_process(b2, y) for y in b2.succ.get(s2, [])):
                    continue
                out.append(d)
        return out

    def after_dispatch(self, word):
        """Blocks an iteration can reach once the word is known: the arm region and everything
        downstream of it up to the loop header (not the part that reads and splits the line)."""
        b2, _ = self.spec(word)
        seen, st = set(), list(self.region(word))
        while st:
            x = st.pop()
            if x in seen:
                continue
            seen.add(x)
            for y in b2.succ.get(x, []):
                if y != self.h:
                    st.append(y)
        return seen


def dispatch(f, b, ex, h, loop):
    cache = f.__dict__.setdefault("_dispatch_cache", {})
    key = (b.name, h)
    if key not in cache:
        cache[key] = Dispatch(f, b, ex, h, loop)
    return cache[key]


def is_state_ty(f, ty):
    """The position, its repetition record, or a crate struct that has one of them as a field."""
    if ty in STATE_TYPES:
        return True
    try:
        return any(f.struct_field_ty(ty, fld) in STATE_TYPES for fld in f.struct_fields(ty))
    except Exception:
        return False


def state_roots(f, b, h=None, loop=None):
    """Named locals that hold the session state.  With the loop given: only those that are carried
    from one command to the next (modified in the loop and live at its header), plus locals whose
    value is moved, unchanged, into such a local (the by-value `board = handle(board)` shape)."""
    named = {l: n for l, n in b.names.items() if is_state_ty(f, b.local_ty(l))}
    if loop is None:
        return named
    carried = {l for l in carried_state(b, None, h, loop) if l in named}
    moves = {}
    for loc, st in b.iter_stmts():
        if st["k"] == "assign" and not st["place"]["proj"] and st["rv"]["k"] == "use" and st["rv"]["op"]["k"] in ("copy", "move") and not st["rv"]["op"]["place"]["proj"]:
            moves.setdefault(st["rv"]["op"]["place"]["local"], set()).add(st["place"]["local"])
    out = {}
    for l, n in named.items():
        seen, stack = set(), [l]
        while stack:
            x = stack.pop()
            if x in seen:
                continue
            seen.add(x)
            stack.extend(moves.get(x, ()))
        if seen & carried:
            out[l] = n
    return out


def resolve_place(b, place):
    """(root local, [field names]) of a MIR place, through `&mut` / `&` pointers that are
    single-definition borrows of a local (`self` of an inlined method); None if not resolvable."""
    from wa.mir import alias_of
    proj = place["proj"]
    if proj and proj[0]["k"] == "deref":
        r, mode, pr = alias_of(b, place["local"])
        if mode != "ref":
            return None
        proj = list(pr) + list(proj[1:])
    else:
        r = place["local"]
    if any(e["k"] not in ("field", "downcast") for e in proj):
        return r, [e.get("name", "?") for e in proj if e["k"] == "field"] + ["?"]
    return r, [e["name"] for e in proj if e["k"] == "field"]


def resolve_operand(b, o):
    """A call argument that is a reference to (part of) a local: (root local, [field names])."""
    al = operand_alias(b, o)
    if not al:
        return None
    r, mode, pr = al
    if mode == "val":
        return r, []
    if mode == "ref":
        return r, [e["name"] for e in pr if e["k"] == "field"]
    return None


def path_ty(f, b, root, path):
    ty = b.local_ty(root)
    for fld in path:
        try:
            ty = f.struct_field_ty(ty, fld)
        except Exception:
            return None
    return ty


def field_mods(f, b, l, blocks):
    """Fields of struct local l that can be modified in `blocks` ('*' = the whole value): writes to
    `l.f` / `(*p).f`, mutable borrows of a field, `&mut l` handed to a call."""
    out = set()
    for bb in blocks:
        for i, st in enumerate(b.stmts(bb)):
            if st["k"] != "assign":
                continue
            rp = resolve_place(b, st["place"])
            if rp and rp[0] == l and not (st["place"]["local"] != l and not st["place"]["proj"]):
                if st["place"]["local"] == l or st["place"]["proj"]:
                    out.add(rp[1][0] if rp[1] else "*")
            rv = st["rv"]
            if rv["k"] == "ref" and rv.get("mut"):
                rp = resolve_place(b, rv["place"])
                if rp and rp[0] == l and rp[1]:
                    out.add(rp[1][0])
        t = b.term(bb)
        if t["k"] == "call":
            for a in t["args"]:
                ro = resolve_operand(b, a)
                if ro and ro[0] == l and a.get("place") and b.local_ty(a["place"]["local"]).startswith("&mut"):
                    out.add(ro[1][0] if ro[1] else "*")
            d = t["dest"]
            rp = resolve_place(b, d)
            if rp and rp[0] == l and (d["local"] == l or d["proj"]):
                out.add(rp[1][0] if rp[1] else "*")
    return out


def r16_1(ctx):
    """No hidden global state: the crate's only static is the allocator; none mutable, none with
    interior mutability, none thread-local."""
    f = ctx.facts
    statics = f.d["statics"]
    for s in statics:
        ok = (not s["mutable"]) and s["freeze"] and (not s["thread_local"])
        # an immutable static of a Freeze type is as good as a const.  Freeze does not look through
        # references / raw pointers, so a type that reaches shared-mutable storage that way is refused
        ty = s["ty"]
        indirect = "*mut" in ty or "*const" in ty or ("&" in ty and any(w in ty for w in ("Cell", "Atomic", "Mutex", "RwLock", "Once", "Lazy", "Condvar", "mpsc", "Rc<", "Arc<")))
        ctx.ob("static:%s" % s["name"], ok and not indirect, "%s:%d" % (s["span"]["file"], s["span"]["line"]),
               "static `%s: %s` (mutable=%s, interior mutability=%s, thread_local=%s, reaches shared-mutable storage through a pointer=%s); only immutable statics of plain data are allowed" % (
                   s["name"], s["ty"], s["mutable"], not s["freeze"], s["thread_local"], indirect))
    ctx.floor("statics seen (the allocator is the positive control)", len(statics), 1)
    # no body refers to a static other than those
    names = {s["name"] for s in statics if (not s["mutable"]) and s["freeze"] and (not s["thread_local"])}
    n = 0
    for b in f.all_bodies():
        for loc, st in b.iter_stmts():
            if st["k"] != "assign":
                continue
            txt = str(st["rv"])
            if "'static':" in txt:
                import re
                for m in re.findall(r"'static': '([^']+)'", txt):
                    n += 1
                    ctx.ob("static-use:%s:%s" % (b.name.split("::")[-1], m), m in names, b.where(loc), "body refers to static `%s`" % m, nontrivial=False)
    ctx.info["static_uses"] = n


def _uses_local(b, l, bb, i_from=0):
    """Does block bb (from statement index) read local l before wholly redefining it?
    Returns 'use', 'kill' or None."""
    import json
    pat1, pat2 = '"local": %d,' % l, '"local": %d}' % l
    st = b.stmts(bb)
    for i in range(i_from, len(st)):
        s = st[i]
        if s["k"] != "assign":
            continue
        if pat1 in json.dumps(s["rv"]) or pat2 in json.dumps(s["rv"]):
            return "use"
        p = s["place"]
        if p["local"] == l:
            if p["proj"]:
                return "use"   # partial write keeps the rest alive
            return "kill"
        if any(e["k"] == "index" and e["local"] == l for e in p["proj"]):
            return "use"
    t = b.term(bb)
    if t["k"] in ("call", "switch"):
        parts = json.dumps([t.get("args"), t.get("discr")])
        if pat1 in parts or pat2 in parts:
            return "use"
        if t["k"] == "call" and t["dest"]["local"] == l and not t["dest"]["proj"]:
            return "kill"
    return None


def live_at(b, l, header, loop):
    seen, st = set(), [header]
    while st:
        x = st.pop()
        if x in seen:
            continue
        seen.add(x)
        r = _uses_local(b, l, x)
        if r == "use":
            return True
        if r == "kill":
            continue
        for y in b.succ.get(x, []):
            if y in loop:
                st.append(y)
    return False


def carried_state(b, ex, header, loop):
    """Named locals that are modified inside the loop and live at its header."""
    rd = b.reaching()
    out = {}
    for l, name in sorted(b.names.items()):
        sites = [(loc, k) for loc, k in rd.all_sites(l) if loc[0] in loop]
        if not sites:
            continue
        if live_at(b, l, header, loop):
            out[l] = name
    return out


def r16_2(ctx):
    f = ctx.facts
    b = f.body(LOOP_FN)
    ctx.note_fn(LOOP_FN)
    ex = Exprs(b)
    h, loop = command_loop(b, ex)
    cs = carried_state(b, ex, h, loop)
    seen_types = set()
    shown = []
    for l, name in cs.items():
        ty = b.local_ty(l)
        try:
            flds = f.struct_fields(ty) if ty not in STATE_TYPES else []
        except Exception:
            flds = []
        if flds and is_state_ty(f, ty):
            # a session struct: its carried state is the set of fields the loop can modify
            mods = field_mods(f, b, l, loop)
            if "*" in mods:
                mods = set(flds)
            for fld in sorted(mods):
                fty = f.struct_field_ty(ty, fld)
                ok = fty in STATE_TYPES
                seen_types.add(fty)
                shown.append("%s.%s" % (name, fld))
                ctx.ob("play_game_uci:carried:%s.%s" % (name, fld), ok, b.file,
                       "`%s.%s: %s` is modified in the command loop and still live at the next command: %s" % (
                           name, fld, fty, STATE_TYPES[fty] if ok else "state that survives from one command to the next besides the position and its repetition record — a later reply can depend on earlier traffic"))
            continue
        ok = ty in STATE_TYPES
        seen_types.add(ty)
        shown.append(name)
        ctx.ob("play_game_uci:carried:%s" % name, ok, b.file,
               "`%s: %s` is modified in the command loop and still live at the next command: %s" % (
                   name, ty, STATE_TYPES[ty] if ok else "state that survives from one command to the next besides the position and its repetition record — a later reply can depend on earlier traffic"))
    ctx.ob("play_game_uci:carried-state-found", "board::BoardState" in seen_types, b.file,
           "loop-carried named locals: %s" % sorted(shown), reason="below-floor", nontrivial=False)


def _board_place(f, b, roots, rp):
    """rp = (root, fields) names the current position: a state local (or a field of the session
    struct) of type BoardState."""
    return rp is not None and rp[0] in roots and "?" not in rp[1] and path_ty(f, b, rp[0], rp[1]) == "board::BoardState"


def _becomes_board(f, b, ex, roots, bb, t, callee):
    """The result of the call in bb is stored into the current position."""
    if _board_place(f, b, roots, resolve_place(b, t["dest"])):
        return True
    for loc, st in b.iter_stmts():
        if st["k"] == "assign" and st["place"].get("ty") == "board::BoardState" and _board_place(f, b, roots, resolve_place(b, st["place"])):
            e = ex.rvalue(st["rv"], loc)
            if e[0] == "call" and e[1] == callee and e[3] == b.term_loc(bb):
                return True
    return False


def _contains_board(f, b, roots, ro):
    """The referenced place is, or contains, the current position."""
    if ro is None or ro[0] not in roots:
        return False
    ty = path_ty(f, b, ro[0], ro[1])
    return ty == "board::BoardState" or (ty is not None and ty not in STATE_TYPES and is_state_ty(f, ty) and
                                         any(f.struct_field_ty(ty, x) == "board::BoardState" for x in f.struct_fields(ty)))


def r16_3(ctx):
    """`position` replaces both pieces of state without reading the old board."""
    f = ctx.facts
    b = f.body(LOOP_FN)
    ex = Exprs(b)
    h, loop = command_loop(b, ex)
    dp = dispatch(f, b, ex, h, loop)
    if "position" not in dp.words:
        raise AnchorMissing("no `position` arm in the command dispatch")
    s = dp.words["position"]
    reg = dp.region("position")
    pc = [(bb, t) for bb, t in b.iter_calls(callee=POP) if bb in reg]
    ctx.ob("position-arm:calls-play_out_position", len(pc) == 1, b.where(b.term_loc(s)), "%d calls of play_out_position under the `position` arm" % len(pc))
    # unconditionally: no path through the arm returns to the loop without rebuilding the position,
    # and the arm is entered on the command word alone
    if pc:
        skip = not dp.always_passes("position", {bb for bb, _ in pc})
        ctx.ob("position-arm:always-rebuilds", not skip, b.where(b.term_loc(s)),
               "every `position` command rebuilds the board from its own text%s" % ("" if not skip else ": NOT so — some `position` commands are skipped and the engine keeps whatever board it held (e.g. the one its last `go` left behind)"))
    extra = [show_expr(d, b)[:60] for bb, _ in pc[:1] for d in dp.extra_conditions("position", bb)]
    ctx.ob("position-arm:unconditional", not extra, b.where(b.term_loc(s)), "conditions besides the command word: %s" % extra)
    roots = state_roots(f, b, h, loop)
    for bb, t in pc:
        assigned = _becomes_board(f, b, ex, roots, bb, t, POP)
        ctx.ob("position-arm:board-replaced", assigned, b.where(b.term_loc(bb)), "the result of play_out_position becomes the current board")
        reads_old = any(_contains_board(f, b, roots, resolve_operand(b, a)) for a in t["args"])
        ctx.ob("position-arm:independent-of-old-board", not reads_old, b.where(b.term_loc(bb)), "play_out_position does not receive the previous board")


def r16_4(ctx):
    """Search state is per request: get_best_move builds its own Search and hasher, and receives
    clones of board and table."""
    f = ctx.facts
    g = f.body(GBM)
    ctx.note_fn(GBM, FIND)
    made = {callee_of(t) for _, t in g.iter_calls()}
    ctx.ob("get_best_move:fresh-search-info", "search::Search::new_search" in made, g.file, "Search::new_search() is called inside get_best_move")
    # Search values never come from parameters
    ps = [i for i in range(1, g.arg_count + 1) if "search::Search" in g.local_ty(i)]
    ctx.ob("get_best_move:no-search-state-parameter", not ps, g.file, "get_best_move takes no Search from its caller")
    b = f.body(FIND)
    ex = Exprs(b)
    for loc, st in b.iter_stmts():
        if st["k"] == "assign" and st["rv"]["k"] == "aggregate" and st["rv"].get("agg") == "closure":
            ce = ex.rvalue(st["rv"], loc)
            tys = [fo.get("ty") or fo.get("place", {}).get("ty") for fo in st["rv"]["fields"]]
            for i, (cap, ty) in enumerate(zip(ce[3], tys)):
                if ty in STATE_TYPES:
                    okc = cap[0] == "call" and cap[1].endswith("Clone>::clone")
                    ctx.ob("find_and_play_best_move:thread-gets-clone:%s" % ty.split("::")[-1], okc, b.where(loc),
                           "the search thread captures `%s`; must be a clone so that nothing it mutates is seen by later commands" % show_expr(cap, b)[:60])
                elif ty and ("&mut" in ty or "Arc<" in ty or "Mutex" in ty or "Rc<" in ty):
                    ctx.ob("find_and_play_best_move:thread-shares:%d" % i, False, b.where(loc), "the search thread shares `%s` with the command loop" % ty)


def _state_touches(f, b, roots, region):
    """Definition / borrow sites of the state locals inside a region."""
    rd = b.reaching()
    out = []
    for l in roots:
        for loc, k in rd.all_sites(l):
            if loc[0] in region:
                out.append((l, loc, k))
    return out


def r16_5(ctx):
    """Arms other than position/go leave the carried state alone."""
    f = ctx.facts
    b = f.body(LOOP_FN)
    ex = Exprs(b)
    h, loop = command_loop(b, ex)
    dp = dispatch(f, b, ex, h, loop)
    roots = state_roots(f, b, h, loop)
    for cmd, s in sorted(dp.words.items()):
        if cmd in ("position", "go"):
            continue
        region = dp.region(cmd)
        touched = []
        for l, loc, k in _state_touches(f, b, roots, region):
            # an idempotent reset (`draw_table.clear()`) in another arm is harmless: `position`
            # clears and rebuilds anyway; it is the one modification tolerated here
            def on_l(x, a):
                ro = resolve_operand(b, a)
                return ro is not None and ro[0] == l
            uses_clear = any(b.term(x)["k"] == "call" and (callee_of(b.term(x)) or "").endswith("DrawTable::clear") and on_l(x, b.term(x)["args"][0]) for x in region)
            only_clear = k == "borrow" and uses_clear and not any(
                b.term(x)["k"] == "call" and on_l(x, a) and not (callee_of(b.term(x)) or "").endswith("DrawTable::clear")
                for x in region for a in b.term(x).get("args", []))
            if only_clear:
                continue
            touched.append((b.names[l], loc))
        ctx.ob("arm(%s):leaves-state-alone" % cmd, not touched, b.where(b.term_loc(s)),
               "`%s` modifies: %s" % (cmd, [(n, b.where(loc)) for n, loc in touched]))
    ctx.floor("command arms", len(dp.words), 6)


def r17_1(ctx):
    """The default arm (all command tests failed) is effect-free: no state write, only logging, no exit."""
    f = ctx.facts
    b = f.body(LOOP_FN)
    ctx.note_fn(LOOP_FN)
    ex = Exprs(b)
    h, loop = command_loop(b, ex)
    dp = dispatch(f, b, ex, h, loop)
    reg = dp.region(None) if dp.words else set()
    ctx.ob("default-arm:found", bool(reg), b.file, "%d blocks are reached only when no command matches" % len(reg), reason="anchor-missing", nontrivial=False)
    roots = state_roots(f, b, h, loop)
    bad = []
    for l, loc, k in _state_touches(f, b, roots, reg):
        bad.append("writes %s at %s" % (b.names[l], b.where(loc)))
    for x in sorted(reg):
        t = b.term(x)
        if t["k"] == "call":
            c = callee_of(t) or ""
            if t.get("target") is None:
                bad.append("diverging call %s at %s" % (c, b.where(b.term_loc(x))))
            elif not (t["span"].get("exp") and any(c.startswith(p) for p in LOGGING)) and "fmt" not in c and not c.startswith("log::"):
                bad.append("calls %s at %s" % (c, b.where(b.term_loc(x))))
    ctx.ob("default-arm:effect-free", not bad, b.file, "unknown command lines only get logged" if not bad else "; ".join(bad[:4]))


def r17_2(ctx):
    """isready is always answered with readyok; quit ends the process."""
    f = ctx.facts
    b = f.body(LOOP_FN)
    ex = Exprs(b)
    h, loop = command_loop(b, ex)
    dp = dispatch(f, b, ex, h, loop)
    if "isready" not in dp.words:
        ctx.ob("arm(isready):present", False, b.file, "no `isready` arm", reason="anchor-missing")
    else:
        s = dp.words["isready"]
        sends = {bb for bb, t in b.iter_calls(callee=SEND) if strip_refs(ex.call_args(bb)[0]) == ("str", "readyok")}
        # under `isready` the loop header cannot be reached again without passing the send
        ok = dp.always_passes("isready", sends)
        ctx.ob("arm(isready):answers-readyok", ok, b.where(b.term_loc(s)), "every path through the isready arm prints `readyok`")
        # and the arm is not guarded by anything but the command word
        arm_sends = [x for x in sends if x in dp.reach("isready")]
        extra = [d for x in arm_sends[:1] for d in dp.extra_conditions("isready", x)]
        ctx.ob("arm(isready):unconditional", not extra and bool(arm_sends), b.where(b.term_loc(s)), "conditions besides the command word: %s" % [show_expr(d, b)[:50] for d in extra])
    if "quit" not in dp.words:
        ctx.ob("arm(quit):present", False, b.file, "no `quit` arm", reason="anchor-missing")
    else:
        s = dp.words["quit"]
        b2, _ = dp.spec("quit")
        reg = dp.region("quit")
        # under `quit`: every path from the word test on ends the process
        ok = bool(reg) and all(exits_process(b2, x) for x in reg if not any(p in reg for p in b2.pred.get(x, [])))
        ctx.ob("arm(quit):exits", ok, b.where(b.term_loc(s)), "every path through the quit arm ends the process")


def _from_split(ex, v):
    """v (a Vec or a slice of it) is a collected `str::split`: it has at least one element."""
    return any(y[0] == "call" and y[1] == "std::iter::Iterator::collect" and any(
        z[0] == "call" and z[1] in ("core::str::<impl str>::split", "core::str::<impl str>::split_whitespace_never") for z in subexprs(y))
        for y in data_slice(ex, strip_refs(v)))


def _slice_index_idiom(b, ex, bb):
    """The bounds assert of a built-in slice index `s[k]` (what `v[k]` on a Vec becomes when the
    tokens are handed on as `&[&str]`): I5 for k == 0 on a collected split, I1 for a dominating
    length fact."""
    t = b.term(bb)
    c = ex.operand(t["cond"], b.term_loc(bb))
    if not (c[0] == "bin" and c[1] == "Lt" and c[2][0] == "const" and isinstance(c[2][1], int) and c[3][0] == "len"):
        return None
    k, v = c[2][1], strip_refs(c[3][1])
    if k == 0 and _from_split(ex, v):
        return "I5: element 0 of a collected `str::split`, which always yields at least one item"
    flip = {"Lt": "Gt", "Gt": "Lt", "Le": "Ge", "Ge": "Le", "Eq": "Eq", "Ne": "Ne"}
    neg = {"Lt": "Ge", "Ge": "Lt", "Gt": "Le", "Le": "Gt", "Eq": "Ne", "Ne": "Eq"}
    for d, vals, excl, s, tg in dominating_facts(b, ex, bb):
        truth = False if vals == [0] else (True if (vals is None and excl == [0]) else None)
        if truth is None or d[0] != "bin" or d[1] not in flip:
            continue
        for a, c2, op in ((d[2], d[3], d[1]), (d[3], d[2], flip[d[1]])):
            is_len = (a[0] == "len" and strip_refs(a[1]) == v) or (a[0] == "call" and a[1].endswith("::len") and a[2] and strip_refs(a[2][0]) == v)
            if c2[0] == "const" and is_len:
                if not truth:
                    op = neg[op]
                lo = {"Eq": c2[1], "Gt": c2[1] + 1, "Ge": c2[1]}.get(op)
                if lo is not None and 0 <= k < lo:
                    return "I1: length %s %d established at %s, index %d" % ({"Eq": "==", "Gt": ">", "Ge": ">="}[op], c2[1], b.where(b.term_loc(s)), k)
    return None


def r17_6(ctx):
    """No panic edge in the command loop outside the position/go arms: whatever the line is, reading
    it, splitting it and dispatching on its first word cannot terminate the engine.  (What position and
    go do with their own arguments belongs to C04/C09/C15.)"""
    from .fen import VEC_INDEX, UNWRAPS, _i1_vec_index
    from wa.absint import Intervals
    f = ctx.facts
    b = f.body(LOOP_FN)
    ctx.note_fn(LOOP_FN)
    ex = Exprs(b)
    h, loop = command_loop(b, ex)
    dp = dispatch(f, b, ex, h, loop)
    own = set()
    for cmd in ("position", "go"):
        if cmd in dp.words:
            own |= dp.region(cmd)
    region = {x for x in loop if x not in own and x in b.reachable}
    iv = None
    n = 0
    cnt = {}
    for bb in sorted(region):
        t = b.term(bb)
        if t["k"] == "assert":
            n += 1
            kind = t["assert_kind"]
            cnt[kind] = cnt.get(kind, 0) + 1
            iv = iv or Intervals(b)
            ok, d = iv.assert_holds(bb)
            if not ok and kind == "bounds":
                how = _slice_index_idiom(b, ex, bb)
                if how:
                    ok, d = True, how
            ctx.ob("loop:assert:%s#%d" % (kind, cnt[kind]), ok, b.where(b.term_loc(bb)), d if ok else "a %s panic is possible while dispatching a line: %s" % (kind, b.text_at(b.term_loc(bb))[:80]))
        elif t["k"] == "call":
            c = callee_of(t) or ""
            if c == VEC_INDEX or c.endswith("as std::ops::Index<I>>::index"):
                n += 1
                cnt["index"] = cnt.get("index", 0) + 1
                args = ex.call_args(bb)
                how = None
                # I5: `line.split(..).collect::<Vec<_>>()[0]` — split yields at least one item
                if len(args) == 2 and args[1] == ("const", 0):
                    if _from_split(ex, args[0]):
                        how = "I5: element 0 of a collected `str::split`, which always yields at least one item"
                how = how or _i1_vec_index(b, ex, bb, t)
                what = show_expr(args[1], b) if len(args) == 2 else "?"
                ctx.ob("loop:index[%s]" % what, how is not None, b.where(b.term_loc(bb)),
                       how or "`%s` is not covered by a length guard: a line with fewer words panics the engine instead of being ignored" % b.text_at(b.term_loc(bb))[:80])
            elif c in UNWRAPS:
                n += 1
                ctx.ob("loop:%s" % c.split("::")[-1], False, b.where(b.term_loc(bb)),
                       "`%s` while dispatching a line: a line for which the value is None/Err terminates the engine" % b.text_at(b.term_loc(bb))[:80])
    ctx.floor("panic sites examined in the command loop", n, 1)


def r17_7(ctx):
    """read_from_gui hands out whole lines: the read_line receiver is the process's stdin (lock) itself,
    not a length-limiting or otherwise re-framing adaptor, so the rest of a long line is never taken for a
    new command."""
    f = ctx.facts
    b = f.body(READ)
    ctx.note_fn(READ)
    n = 0
    for bb, t in b.iter_calls():
        c = callee_of(t) or ""
        if not (c.endswith("::read_line") or c.endswith("::read_until")):
            continue
        n += 1
        a = t["args"][0]
        ty = b.local_ty(a["place"]["local"]) if a.get("place") else "?"
        base = ty.replace("&mut ", "").replace("&", "")
        ok = base.startswith("std::io::StdinLock") or base == "std::io::Stdin"
        if not ok:
            # the reader's static type may be a generic parameter of an (inlined) helper: decide
            # from the value that is passed -- the stdin handle or its lock, with nothing in between
            ex = Exprs(b)
            e = strip_refs(ex.call_args(bb)[0])
            if e[0] == "call" and e[1] in ("std::io::Stdin::lock", "std::io::Stdin::lock::<'_>") and len(e[2]) == 1:
                e = strip_refs(e[2][0])
            ok = e[0] == "call" and e[1] == "std::io::stdin" and not e[2]
            base = show_expr(strip_refs(ex.call_args(bb)[0]), b)[:80]
        ctx.ob("read_from_gui:line-framing", ok, b.where(b.term_loc(bb)),
               "read_line on `%s`%s" % (base, "" if ok else ": an adaptor between stdin and read_line can end a read in the middle of a line, and the remainder is then dispatched as a command of its own"))
    if n == 0:
        raise AnchorMissing("no line read (read_line / read_until) in %s" % READ)


# (an `Rc`/`Arc` of plain data is immutable sharing; it matters only through one of these inside it, and the
# type string of the local shows the whole nesting)
SHARED_MUT = ("std::sync::mpsc::", "std::cell::", "std::sync::Mutex", "std::sync::RwLock", "std::sync::atomic::",
              "std::sync::OnceLock", "std::sync::LazyLock", "std::sync::Condvar")


def r16_6(ctx):
    """Nothing with shared-mutable content survives from one command to the next: (a) no value created
    before the command loop and used inside it has a type that can carry state behind a shared reference
    (a channel endpoint, a cell, a lock, an atomic - also inside an Rc/Arc) - R16.2 sees only locals
    that are *assigned* in the loop; (b) the channel the go handler reads the search's moves from is created
    inside that handler, so what an earlier search queued can never be read as the answer to this `go`."""
    from wa.expr import data_slice
    f = ctx.facts
    b = f.body(LOOP_FN)
    ctx.note_fn(LOOP_FN)
    ex = Exprs(b)
    h, loop = command_loop(b, ex)
    n = 0
    for l in sorted(b.names):
        ty = b.local_ty(l)
        if not any(s_ in ty for s_ in SHARED_MUT):
            continue
        sites = [loc for loc, k in b.reaching().all_sites(l) if k == "whole"]
        outside = [loc for loc in sites if loc[0] not in loop]
        if not outside:
            continue
        used = False
        import json as _j
        pat = '"local": %d' % l
        for bb in loop:
            if bb not in b.reachable:
                continue
            if pat + "," in _j.dumps(b.blocks[bb]["stmts"]) + _j.dumps(b.blocks[bb]["term"]) or pat + "}" in _j.dumps(b.blocks[bb]["stmts"]) + _j.dumps(b.blocks[bb]["term"]):
                used = True
                break
        n += 1
        ctx.ob("play_game_uci:session-object:%s" % b.names[l], not used, b.where(outside[0]),
               "`%s: %s` is created before the command loop %s" % (b.names[l], ty[:60], "and used inside it: its content survives from one command to the next (a move queued for an earlier `go` answers a later one)" if used else "but not used inside it"))
    # (b) receiver origin in the go handler
    g = f.body("uci::find_and_play_best_move")
    ctx.note_fn("uci::find_and_play_best_move")
    gx = Exprs(g)
    nr = 0
    for bb, t in g.iter_calls():
        c = callee_of(t) or ""
        if "std::sync::mpsc::Receiver" not in c:
            continue
        args = gx.call_args(bb)
        if not args:
            continue
        nr += 1
        sl = list(data_slice(gx, args[0]))
        fresh = any(x[0] == "call" and x[1].startswith("std::sync::mpsc::") and x[1].split("<")[0].endswith("channel") for x in sl)
        from_param = any(x[0] == "arg" for x in sl)
        ctx.ob("find_and_play_best_move:%s:channel-per-go" % c.split("::")[-1], fresh and not from_param, g.where(g.term_loc(bb)),
               "the receiver read by `%s` %s" % (g.text_at(g.term_loc(bb))[:60], "comes from a channel created in this handler" if fresh and not from_param else
                                                   "is not created in this handler: it outlives the `go`, and whatever an earlier search sent late is still queued in it"))
    ctx.floor("receiver reads in the go handler", nr, 1)
