"""Reply and spelling rules (C03): R3.1 exactly one bestmove per go / who may print it, R3.3/R3.5
the go arm re-seats the board with what was played, R3.6 square and promotion spelling tables."""
from wa.mir import AnchorMissing, ShapeNotRecognised, callee_of, operand_alias
from wa.expr import Exprs, show_expr, strip_refs, subexprs, root_local, data_slice
from wa.cond import dominating_facts
from wa.flow import forward_states
from wa.paths import enum_paths
from wa.pathsym import eval_path, cond_truth
from wa import fmtlit
from . import chess
from .session import command_loop, arms

FIND = "uci::find_and_play_best_move"
SBM = "uci::send_best_move_to_gui"
SEND = "uci::send_to_gui"
LOOP_FN = "uci::play_game_uci"
PFMT = "<board::Point as std::fmt::Display>::fmt"
PFROM = "<board::Point as std::str::FromStr>::from_str"


def _bestmove_printers(f):
    out = {}
    for b in f.all_bodies():
        for loc, t in fmtlit.templates(b):
            if "bestmove" in t:
                out.setdefault(b.name, []).append((loc, t))
        for loc, s in fmtlit.string_literals(b):
            if "bestmove" in s:
                out.setdefault(b.name, []).append((loc, s))
    return out


def r3_1(ctx):
    f = ctx.facts
    pr = _bestmove_printers(f)
    allowed = {SBM, FIND}
    for fn, lst in sorted(pr.items()):
        ctx.ob("bestmove-printer:%s" % fn.split("::")[-1], fn in allowed, f.body(fn).where(lst[0][0]),
               "`bestmove` text %s in %s; only the two reply functions may print it (never the search)" % (sorted({t for _, t in lst}), fn))
    ctx.floor("functions printing bestmove", len(pr), 1)
    # templates: bestmove {}{} and bestmove {}{}{}
    if SBM in pr:
        ts = sorted({t for _, t in pr[SBM]})
        ctx.ob("send_best_move_to_gui:templates", ts == ["bestmove {}{}", "bestmove {}{}{}"], f.body(SBM).file, "templates %s" % ts)
    # exactly one reply on every path of find_and_play_best_move
    b = f.body(FIND)
    ctx.note_fn(FIND, SBM)
    ex = Exprs(b)
    prints = {}
    for bb, t in b.iter_calls():
        c = callee_of(t)
        if c == SBM:
            prints[b.term_loc(bb)] = "send_best_move_to_gui"
        elif c == SEND:
            a = strip_refs(ex.call_args(bb)[0])
            if a[0] == "str" and a[1].startswith("bestmove"):
                prints[b.term_loc(bb)] = a[1]

    def step(loc, s):
        if loc in prints:
            return [min(s + 1, 3)]
        return [s]
    before, at_ret = forward_states(b, (0, -1), {0}, step, restart_kills=False)
    for rb, sts in sorted(at_ret.items()):
        ctx.ob("find_and_play_best_move:one-reply", sts == {1}, b.where(b.term_loc(rb)),
               "number of bestmove lines printed on the paths reaching this return: %s (must be exactly 1)" % sorted(sts))
    ctx.floor("returns of find_and_play_best_move", len(at_ret), 1)
    # send_best_move_to_gui prints once per path, letter iff pawn_promotion is Some
    sb = f.body(SBM)
    sex = Exprs(sb)
    for blocks, dec in enum_paths(sb, sex):
        if sb.term(blocks[-1])["k"] != "return":
            continue
        nsend = sum(1 for x in blocks if sb.term(x)["k"] == "call" and callee_of(sb.term(x)) == SEND)
        promo = None
        for d, (vals, oth) in dec.items():
            if d[0] == "discr" and strip_refs(d[1])[0] == "field" and strip_refs(d[1])[2] == "pawn_promotion":
                promo = (vals == (1,) and not oth)
        tpl = [t for loc, t in fmtlit.templates(sb) if loc[0] in blocks and "bestmove" in t]
        ok = nsend == 1 and promo is not None and tpl == (["bestmove {}{}{}"] if promo else ["bestmove {}{}"])
        ctx.ob("send_best_move_to_gui:path(promotion=%s)" % promo, ok, sb.where((blocks[-1], 0)),
               "prints once (%d) with template %s; the letter must be present exactly when pawn_promotion is Some" % (nsend, tpl))
        if promo:
            # the third argument is alg(kind of the promotion piece)
            algs = [x for x in blocks if sb.term(x)["k"] == "call" and callee_of(sb.term(x)) == "board::PieceKind::alg"]
            okk = False
            if len(algs) == 1:
                a = strip_refs(sex.call_args(algs[0])[0])
                okk = a[0] == "field" and a[2] == "kind" and any(x[0] == "field" and x[2] == "pawn_promotion" for x in subexprs(a))
            ctx.ob("send_best_move_to_gui:letter-is-promotion-kind", okk, sb.where((blocks[-1], 0)), "the letter printed is alg(pawn_promotion.kind)")
    # the squares printed are last_move.0 / last_move.1 in that order
    order = []
    for bb, t in sorted(sb.iter_calls()):
        if "new_display::<board::Point>" in (t.get("callee_full") or ""):
            a = strip_refs(sex.call_args(bb)[0])
            order.append(a[2] if a[0] == "field" else "?")
    ctx.ob("send_best_move_to_gui:from-then-to", order in (["0", "1"], ["0", "1", "0", "1"]), sb.file, "Point arguments printed in the order %s of last_move" % order)


def r3_35(ctx):
    """The go arm assigns the result of find_and_play_best_move to the board; that result is the
    received successor (or the unchanged board when there is no move)."""
    f = ctx.facts
    b = f.body(LOOP_FN)
    ex = Exprs(b)
    h, loop = command_loop(b, ex)
    am = arms(b, ex, loop)
    if "go" not in am:
        raise AnchorMissing("no `go` arm")
    s, tt, ft = am["go"]
    calls = [(bb, t) for bb, t in b.iter_calls(callee=FIND) if b.edge_dominates((s, tt), bb) or bb == tt]
    ctx.ob("go-arm:one-search", len(calls) == 1, b.where(b.term_loc(s)), "%d calls of find_and_play_best_move in the go arm" % len(calls))
    boards = [l for l, n in b.names.items() if b.local_ty(l) == "board::BoardState"]
    for bb, t in calls:
        assigned = t["dest"]["local"] in boards
        for loc, st in b.iter_stmts():
            if st["k"] == "assign" and st["place"]["local"] in boards and not st["place"]["proj"]:
                e = ex.rvalue(st["rv"], loc)
                if e[0] == "call" and e[1] == FIND and e[3] == b.term_loc(bb):
                    assigned = True
        ctx.ob("go-arm:board-becomes-played-position", assigned, b.where(b.term_loc(bb)), "the board returned by find_and_play_best_move replaces the current board")
        args = [operand_alias(b, a) for a in t["args"]]
        ctx.ob("go-arm:searches-current-board", any(a and a[0] in boards for a in args), b.where(b.term_loc(bb)), "the current board is what is searched")
        ok_nodiv = not exits_anywhere(b, tt, h)
        ctx.ob("go-arm:returns-to-loop", ok_nodiv, b.where(b.term_loc(s)), "the go arm contains no process exit and falls through to the next command")
    fb = f.body(FIND)
    fex = Exprs(fb)
    bp = [i for i in range(1, fb.arg_count + 1) if fb.local_ty(i) in ("&mut board::BoardState", "&board::BoardState")]
    n = 0
    for loc, st in fb.iter_stmts():
        if st["k"] == "assign" and st["place"]["local"] == 0 and not st["place"]["proj"]:
            n += 1
            e = strip_refs(fex.rvalue(st["rv"], loc))
            sl = data_slice(fex, e)
            from_recv = any(x[0] == "call" and x[1].endswith("::try_recv") for x in sl)
            from_input = e[0] == "call" and e[1].endswith("Clone>::clone") and bp and root_local(e[2][0]) == bp[0]
            ctx.ob("find_and_play_best_move:returns#%d" % n, from_recv or from_input, fb.where(loc),
                   "returns `%s`: must be the board received from the search, or a clone of the searched board when nothing was received" % show_expr(e, fb)[:70])
    for bb, t in fb.iter_calls():
        if t["dest"]["local"] == 0 and not t["dest"]["proj"]:
            n += 1
            e = fex.call_expr(t, fb.term_loc(bb))
            from_input = e[0] == "call" and e[1].endswith("Clone>::clone") and bp and root_local(e[2][0]) == bp[0]
            ctx.ob("find_and_play_best_move:returns#%d" % n, from_input, fb.where(fb.term_loc(bb)), "returns `%s`" % show_expr(e, fb)[:70])
    ctx.floor("return values of find_and_play_best_move", n, 1)
    # the board printed is the board returned
    for bb, t in fb.iter_calls(callee=SBM):
        a = strip_refs(fex.call_args(bb)[0])
        rets = [strip_refs(fex.rvalue(st["rv"], loc)) for loc, st in fb.iter_stmts() if st["k"] == "assign" and st["place"]["local"] == 0 and not st["place"]["proj"]]
        ctx.ob("find_and_play_best_move:prints-what-it-returns", a in rets, fb.where(fb.term_loc(bb)), "the move printed belongs to the board that becomes the current position")


def exits_anywhere(b, start, header):
    from .uci_rules import _is_exit_call
    seen = b.reach_from(start, removed_nodes={header})
    return any(_is_exit_call(b.term(x)) for x in seen)


def r3_6(ctx):
    """Square notation: fmt maps column 2..9 to a..h and row 2..9 to 8..1; from_str is its inverse on
    the 64 squares; promotion letters agree between printer and applier and equal {q,r,b,n}."""
    f = ctx.facts
    b = f.body(PFMT)
    ctx.note_fn(PFMT, PFROM, "board::PieceKind::alg", "uci::make_move")
    ex = Exprs(b)
    maps = {}
    for bb in b.normal:
        t = b.term(bb)
        if t["k"] != "switch":
            continue
        d = strip_refs(ex.switch_discr(bb))
        if d[0] == "field" and d[2] in ("0", "1"):
            m = {}
            for v, tg in t["cases"]:
                for i, st in enumerate(b.stmts(tg)):
                    if st["k"] == "assign":
                        e = strip_refs(ex.rvalue(st["rv"], (tg, i)))
                        if e[0] == "str":
                            m[v] = e[1]
            maps[d[2]] = m
    colm = maps.get("1", {})
    rowm = maps.get("0", {})
    okc = all(colm.get(k) == chess.FILES[k - 2] for k in range(2, 10))
    okr = all(rowm.get(k) == str(10 - k) for k in range(2, 10))
    ctx.ob("Point::fmt:files", okc, b.file, "column -> file letter: %s" % sorted(colm.items()))
    ctx.ob("Point::fmt:ranks", okr, b.file, "row -> rank digit: %s" % sorted(rowm.items()))
    # the template prints file then rank
    tpl = [t for _, t in fmtlit.templates(b)]
    order = []
    for bb, t in sorted(b.iter_calls()):
        if "new_display::<&str>" in (t.get("callee_full") or ""):
            a = ex.call_args(bb)[0]
            # which switch produced it: the local assigned from the column or the row switch
            sl = data_slice(ex, a)
            txt = {x[1] for x in sl if x[0] == "str"}
            order.append("file" if txt & set(chess.FILES) else ("rank" if txt & set("12345678") else "?"))
    ctx.ob("Point::fmt:file-then-rank", tpl == ["{}{}"] and order == ["file", "rank"], b.file, "template %s, argument order %s" % (tpl, order))
    # from_str: letter -> column index, digit -> row
    fb = f.body(PFROM)
    fex = Exprs(fb)
    lm = {}
    for bb in fb.normal:
        t = fb.term(bb)
        if t["k"] == "switch" and t["discr_ty"] == "char":
            for v, tg in t["cases"]:
                for i, st in enumerate(fb.stmts(tg)):
                    if st["k"] == "assign":
                        e = fex.rvalue(st["rv"], (tg, i))
                        if e[0] == "const" and isinstance(e[1], int):
                            lm[chr(v)] = e[1]
    ctx.ob("Point::from_str:files", lm == {c: i for i, c in enumerate(chess.FILES)}, fb.file, "file letter -> column index: %s" % sorted(lm.items()))
    oks = []
    for blocks, dec in enum_paths(fb, fex):
        if fb.term(blocks[-1])["k"] != "return":
            continue
        env, conds = eval_path(fb, blocks)
        r = env.get(0)
        if r and r[0] == "agg" and r[2] == "Ok":
            pt = strip_refs(r[3][0])
            oks.append(pt)
    from wa.linear import linear
    good = bool(oks)
    for pt in oks:
        if not (pt[0] == "agg" and pt[1] == "board::Point"):
            good = False
            continue
        lr, lc = linear(pt[3][0]), linear(pt[3][1])
        # row = 10 - digit ; col = index + 2
        okr = lr is not None and lr[1] == 10 and list(lr[0].values()) == [-1] and any(x[0] == "call" and x[1].endswith("to_digit") for t_ in lr[0] for x in subexprs(t_))
        okc = lc is not None and lc[1] == 2 and list(lc[0].values()) == [1] or (lc is not None and not lc[0] and 2 <= lc[1] <= 9)
        good = good and okr and okc
    ctx.ob("Point::from_str:inverse-of-fmt", good, fb.file, "parses to Point(10 - digit, file index + 2) on %d success paths" % len(oks))
    # promotion letters
    ab = f.body("board::PieceKind::alg")
    aex = Exprs(ab)
    kinds = f.enum_variant_by_discr("board::PieceKind")
    alg = {}
    for blocks, dec in enum_paths(ab, aex):
        kind = None
        for d, (vals, oth) in dec.items():
            if d[0] == "discr" and not oth and len(vals) == 1:
                kind = kinds.get(vals[0])
        env, conds = eval_path(ab, blocks)
        r = strip_refs(env.get(0, ("opaque", "")))
        if kind and r[0] == "str":
            alg[kind] = r[1]
    want = {v: k for k, v in chess.PROMOTION_LETTERS.items()}
    ctx.ob("PieceKind::alg:promotion-letters", all(alg.get(k) == v for k, v in want.items()), ab.file, "kind -> letter: %s" % sorted(alg.items()))
    mb = f.body("uci::make_move")
    mex = Exprs(mb)
    mm = {}
    for bb in mb.normal:
        t = mb.term(bb)
        if t["k"] == "switch" and t["discr_ty"] == "char":
            for v, tg in t["cases"]:
                for i, st in enumerate(mb.stmts(tg)):
                    if st["k"] == "assign":
                        e = mex.rvalue(st["rv"], (tg, i))
                        if e[0] == "agg" and e[1] == "board::PieceKind":
                            mm[chr(v)] = e[2]
    ctx.ob("make_move:promotion-letters", mm == chess.PROMOTION_LETTERS, mb.file, "letter -> kind in the applier: %s" % sorted(mm.items()))
    pb = f.body("move_generation::promote_pawn")
    pex = Exprs(pb)
    ks = set()
    for loc, st in pb.iter_stmts():
        if st["k"] == "assign" and st["rv"]["k"] == "aggregate" and st["rv"].get("agg") == "array":
            e = pex.rvalue(st["rv"], loc)
            ks = {x[2] for x in e[3] if x[0] == "agg"}
    ctx.ob("promote_pawn:kinds", ks == chess.PROMOTION_KINDS, pb.file, "promotion fan-out over %s" % sorted(ks))
