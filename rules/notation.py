"""Reply and spelling rules (C03): R3.1 exactly one bestmove per go / who may print it, R3.3/R3.5
the go arm re-seats the board with what was played, R3.6 square and promotion spelling tables."""
from wa.mir import AnchorMissing, ShapeNotRecognised, callee_of, operand_alias
from wa.expr import Exprs, show_expr, strip_refs, subexprs, root_local, data_slice
from wa.cond import dominating_facts
from wa.flow import forward_states
from wa.paths import enum_paths
from wa.pathsym import eval_path, cond_truth
from wa import fmtlit
from . import chess
from .session import command_loop, arms, dispatch, state_roots, resolve_operand, _becomes_board, _board_place

FIND = "uci::find_and_play_best_move"
SBM = "uci::send_best_move_to_gui"
SEND = "uci::send_to_gui"
LOOP_FN = "uci::play_game_uci"
PFMT = "<board::Point as std::fmt::Display>::fmt"
PFROM = "<board::Point as std::str::FromStr>::from_str"


def _bestmove_printers(f):
    out = {}
    for b in f.all_bodies():
        for loc, t in fmtlit.templates(b):
            if "bestmove" in t:
                out.setdefault(b.name, []).append((loc, t))
        for loc, s in fmtlit.string_literals(b):
            if "bestmove" in s:
                out.setdefault(b.name, []).append((loc, s))
    return out


def r3_1(ctx):
    f = ctx.facts
    pr = _bestmove_printers(f)
    allowed = {SBM, FIND}
    for fn, lst in sorted(pr.items()):
        ctx.ob("bestmove-printer:%s" % fn.split("::")[-1], fn in allowed, f.body(fn).where(lst[0][0]),
               "`bestmove` text %s in %s; only the two reply functions may print it (never the search)" % (sorted({t for _, t in lst}), fn))
    ctx.floor("functions printing bestmove", len(pr), 1)
    # templates: bestmove {}{} and bestmove {}{}{}
    # the function that formats the move line: the reply helper, or find_and_play_best_move itself
    # when the (single-use) helper's body lives there
    from wa import strsym
    sbn = SBM if f.has_body(SBM) else FIND
    if sbn in pr:
        ts = sorted({tmpl for _, tmpl, _, _, _ in _bestmove_lines(f, f.body(sbn))})
        ctx.ob("send_best_move_to_gui:templates", ts == ["bestmove {}{}", "bestmove {}{}{}"], f.body(sbn).file, "rendered templates %s" % ts)
    # exactly one reply on every path of find_and_play_best_move
    b = f.body(FIND)
    ctx.note_fn(FIND, sbn)
    ex = Exprs(b)
    prints = {}
    for bb, t in b.iter_calls():
        c = callee_of(t)
        if c == SBM:
            prints[b.term_loc(bb)] = "send_best_move_to_gui"
        elif c == SEND:
            # what is sent, rendered: a literal or a formatted text that begins with `bestmove`
            pcs = strsym.flatten(ex, ex.call_args(bb)[0])
            if pcs and pcs[0][0] == "lit" and pcs[0][1].startswith("bestmove"):
                prints[b.term_loc(bb)] = pcs[0][1]

    def step(loc, s):
        if loc in prints:
            return [min(s + 1, 3)]
        return [s]
    before, at_ret = forward_states(b, (0, -1), {0}, step, restart_kills=False)
    for rb, sts in sorted(at_ret.items()):
        ctx.ob("find_and_play_best_move:one-reply", sts == {1}, b.where(b.term_loc(rb)),
               "number of bestmove lines printed on the paths reaching this return: %s (must be exactly 1)" % sorted(sts))
    ctx.floor("returns of find_and_play_best_move", len(at_ret), 1)
    # send_best_move_to_gui prints once per call; the line is `bestmove <from><to>` plus the letter
    # alg(pawn_promotion.kind) exactly when pawn_promotion is Some.  The lines are *rendered*
    # (wa/strsym.py): a letter chosen by if/else, by `map_or("", ..)` or by two separate format!
    # calls gives the same two cases.
    sb = f.body(sbn)
    if sbn == SBM:
        before_s, at_ret_s = forward_states(sb, (0, -1), {0}, lambda loc, st: [min(st + 1, 3)] if (
            loc[1] == len(sb.stmts(loc[0])) and sb.term(loc[0])["k"] == "call" and callee_of(sb.term(loc[0])) == SEND) else [st], restart_kills=False)
        once = bool(at_ret_s) and all(sts == {1} for sts in at_ret_s.values())
    else:
        once = bool(at_ret) and all(sts == {1} for sts in at_ret.values())     # the one-reply count above
    lines = _bestmove_lines(f, sb)
    seen = set()
    for promo, tmpl, holes, where, pe in lines:
        seen.add(promo)
        ok = once and promo is not None and tmpl == ("bestmove {}{}{}" if promo else "bestmove {}{}")
        ctx.ob("send_best_move_to_gui:path(promotion=%s)" % promo, ok, where,
               "prints once (%s) with rendered template `%s`; the letter must be present exactly when pawn_promotion is Some" % (once, tmpl))
        if promo and len(holes) == 3:
            a = strip_refs(holes[2][1])
            okk = a[0] == "call" and a[1] == "board::PieceKind::alg" and len(a[2]) == 1
            if okk:
                k = strip_refs(a[2][0])
                okk = k[0] == "field" and k[2] == "kind" and strip_refs(k[1]) == ("field", ("downcast", pe, "Some"), "0")
            ctx.ob("send_best_move_to_gui:letter-is-promotion-kind", okk, where, "the letter printed is alg(pawn_promotion.kind): `%s`" % show_expr(a, sb)[:70])
    ctx.ob("send_best_move_to_gui:both-cases", seen == {True, False}, sb.file, "lines for pawn_promotion Some / None: %s" % sorted(map(str, seen)), reason="shape-not-recognised", nontrivial=False)
    # the squares printed are last_move.0 / last_move.1 in that order
    order = []
    for promo, tmpl, holes, where, pe in lines:
        for ty, h in holes[:2]:
            a = strip_refs(h)
            order.append(a[2] if a[0] == "field" and any(x[0] == "field" and x[2] == "last_move" for x in subexprs(a[1])) else "?")
    ctx.ob("send_best_move_to_gui:from-then-to", bool(order) and order == ["0", "1"] * (len(order) // 2), sb.file, "Point arguments printed in the order %s of last_move" % order)


def _bestmove_lines(f, sb):
    """[(promotion Some? True/False/None, rendered template, holes, where, pawn_promotion expr)] for every
    `bestmove` line send_best_move_to_gui can print."""
    from wa import strsym
    out = []
    for bb, t in strsym.fmt_sites(sb):
        if "bestmove" not in t:
            continue
        for r in strsym.renderings(sb, bb):
            # what the guards say about pawn_promotion on this alternative
            promo, pe = None, None
            for d, vals, excl, s, tg in dominating_facts(r.body, r.ex, bb):
                if d[0] == "discr" and strip_refs(d[1])[0] == "field" and strip_refs(d[1])[2] == "pawn_promotion":
                    pe = strip_refs(d[1])
                    if vals is not None:
                        promo = vals == [1]
                    elif excl:
                        promo = (excl == [0]) if set(excl) <= {0, 1} and len(excl) == 1 else None
            cases = [(promo, r.pieces)]
            if promo is None:
                # an Option combinator on pawn_promotion among the holes decides the two cases
                for i, p in enumerate(r.pieces):
                    oc = strsym.option_cases(f, p[2]) if p[0] == "hole" else None
                    if oc and strip_refs(oc[0])[0] == "field" and strip_refs(oc[0])[2] == "pawn_promotion":
                        pe = strip_refs(oc[0])
                        none_p = strsym.flatten(r.ex, oc[1])
                        some_p = [q if q[0] == "lit" or q[1] is not None else ("hole", p[1], q[2]) for q in strsym.flatten(r.ex, oc[2])]
                        cases = [(False, r.pieces[:i] + none_p + r.pieces[i + 1:]), (True, r.pieces[:i] + some_p + r.pieces[i + 1:])]
                        break
            for pr, pcs in cases:
                pcs = strsym._merge(pcs)
                tmpl = "".join(q[1] if q[0] == "lit" else "{}" for q in pcs)
                out.append((pr, tmpl, [(q[1], q[2]) for q in pcs if q[0] == "hole"], r.body.where(r.loc), pe))
    return out


def r3_35(ctx):
    """The go arm assigns the result of find_and_play_best_move to the board; that result is the
    received successor (or the unchanged board when there is no move)."""
    f = ctx.facts
    b = f.body(LOOP_FN)
    ex = Exprs(b)
    h, loop = command_loop(b, ex)
    dp = dispatch(f, b, ex, h, loop)
    if "go" not in dp.words:
        raise AnchorMissing("no `go` arm")
    s = dp.words["go"]
    reg = dp.region("go")
    calls = [(bb, t) for bb, t in b.iter_calls(callee=FIND) if bb in reg]
    ctx.ob("go-arm:one-search", len(calls) == 1, b.where(b.term_loc(s)), "%d calls of find_and_play_best_move in the go arm" % len(calls))
    roots = state_roots(f, b, h, loop)
    for bb, t in calls:
        assigned = _becomes_board(f, b, ex, roots, bb, t, FIND)
        ctx.ob("go-arm:board-becomes-played-position", assigned, b.where(b.term_loc(bb)), "the board returned by find_and_play_best_move replaces the current board")
        searched = any(_board_place(f, b, roots, resolve_operand(b, a)) for a in t["args"])
        ctx.ob("go-arm:searches-current-board", searched, b.where(b.term_loc(bb)), "the current board is what is searched")
        from .uci_rules import _is_exit_call
        ok_nodiv = not any(_is_exit_call(b.term(x)) for x in dp.after_dispatch("go"))
        ctx.ob("go-arm:returns-to-loop", ok_nodiv, b.where(b.term_loc(s)), "the go arm contains no process exit and falls through to the next command")
    fb = f.body(FIND)
    fex = Exprs(fb)
    bp = [i for i in range(1, fb.arg_count + 1) if fb.local_ty(i) in ("&mut board::BoardState", "&board::BoardState")]
    n = 0
    for loc, st in fb.iter_stmts():
        if st["k"] == "assign" and st["place"]["local"] == 0 and not st["place"]["proj"]:
            n += 1
            e = strip_refs(fex.rvalue(st["rv"], loc))
            sl = data_slice(fex, e)
            from_recv = any(x[0] == "call" and x[1].endswith("::try_recv") for x in sl)
            from_input = e[0] == "call" and e[1].endswith("Clone>::clone") and bp and root_local(e[2][0]) == bp[0]
            ctx.ob("find_and_play_best_move:returns#%d" % n, from_recv or from_input, fb.where(loc),
                   "returns `%s`: must be the board received from the search, or a clone of the searched board when nothing was received" % show_expr(e, fb)[:70])
    for bb, t in fb.iter_calls():
        if t["dest"]["local"] == 0 and not t["dest"]["proj"]:
            n += 1
            e = fex.call_expr(t, fb.term_loc(bb))
            from_input = e[0] == "call" and e[1].endswith("Clone>::clone") and bp and root_local(e[2][0]) == bp[0]
            ctx.ob("find_and_play_best_move:returns#%d" % n, from_input, fb.where(fb.term_loc(bb)), "returns `%s`" % show_expr(e, fb)[:70])
    ctx.floor("return values of find_and_play_best_move", n, 1)
    # the board printed is the board returned
    rets = [strip_refs(fex.rvalue(st["rv"], loc)) for loc, st in fb.iter_stmts() if st["k"] == "assign" and st["place"]["local"] == 0 and not st["place"]["proj"]]
    for bb, t in fb.iter_calls(callee=SBM):
        a = strip_refs(fex.call_args(bb)[0])
        ctx.ob("find_and_play_best_move:prints-what-it-returns", a in rets, fb.where(fb.term_loc(bb)), "the move printed belongs to the board that becomes the current position")
    if not f.has_body(SBM):
        # the move line is formatted here: the board whose last_move is printed must be the one returned
        for promo, tmpl, holes, where, pe in _bestmove_lines(f, fb):
            boards_ = {strip_refs(x[1]) for ty, h in holes[:2] for x in subexprs(h) if x[0] == "field" and x[2] == "last_move"}
            ctx.ob("find_and_play_best_move:prints-what-it-returns", bool(boards_) and boards_ <= set(rets), where, "the move printed belongs to the board that becomes the current position")


def exits_anywhere(b, start, header):
    from .uci_rules import _is_exit_call
    seen = b.reach_from(start, removed_nodes={header})
    return any(_is_exit_call(b.term(x)) for x in seen)


def r3_6(ctx):
    """Square notation: fmt maps column 2..9 to a..h and row 2..9 to 8..1; from_str is its inverse on
    the 64 squares; promotion letters agree between printer and applier and equal {q,r,b,n}."""
    f = ctx.facts
    b = f.body(PFMT)
    ctx.note_fn(PFMT, PFROM, "board::PieceKind::alg", "uci::make_move")
    ex = Exprs(b)
    # fmt: executed concretely for the 64 on-board points (finite instantiation): the text written is
    # the rendered format site on the path taken, with every hole evaluated on that path -- a `match`
    # per coordinate, a lookup table indexed by the offset, ... print the same text
    from wa.concwalk import Conc
    from wa.interp import Unknown
    from wa import strsym
    sp = [i for i in range(1, b.arg_count + 1) if b.local_ty(i) == "&board::Point"]
    if len(sp) != 1 or b.loops():
        raise ShapeNotRecognised("Point::fmt(&self, ..) without loops expected")
    sites = dict(strsym.fmt_sites(b))

    def printed(row, col):
        cw = Conc(f, b, {("arg", sp[0]): ("adt", "board::Point", None, (row, col))}, ex)
        try:
            cw.run(want_result=False)
            hit = [bb for bb in cw.path if bb in sites]
            if len(hit) != 1:
                return None
            out = ""
            for pc in strsym.flatten(ex, ex.call_expr(b.term(hit[0]), b.term_loc(hit[0]))):
                if pc[0] == "lit":
                    out += pc[1]
                else:
                    v = cw.ev(pc[2])
                    out += v if isinstance(v, str) else str(v)
            return out
        except Unknown as e:
            raise ShapeNotRecognised("Point::fmt cannot be evaluated for Point(%d, %d): %r" % (row, col, e))
    text = {(r_, c_): printed(r_, c_) for r_ in range(2, 10) for c_ in range(2, 10)}
    colm = {c_: sorted({(text[(r_, c_)] or "?")[:1] for r_ in range(2, 10)}) for c_ in range(2, 10)}
    rowm = {r_: sorted({(text[(r_, c_)] or "??")[1:2] for c_ in range(2, 10)}) for r_ in range(2, 10)}
    okc = all(colm[k] == [chess.FILES[k - 2]] for k in range(2, 10))
    okr = all(rowm[k] == [str(10 - k)] for k in range(2, 10))
    ctx.ob("Point::fmt:files", okc, b.file, "column -> file letter: %s" % sorted((k, "".join(v)) for k, v in colm.items()))
    ctx.ob("Point::fmt:ranks", okr, b.file, "row -> rank digit: %s" % sorted((k, "".join(v)) for k, v in rowm.items()))
    bad = [(k, v) for k, v in sorted(text.items()) if v != chess.FILES[k[1] - 2] + str(10 - k[0])]
    ctx.ob("Point::fmt:file-then-rank", not bad, b.file, "the 64 on-board points print as file letter then rank digit, nothing else" if not bad else "wrong texts (point, printed): %s" % bad[:6])
    # from_str: evaluated concretely on every two-character text (finite instantiation): the 64 square
    # names must parse to the Point that fmt prints as that name, i.e. Point(10 - digit, file index + 2),
    # and neighbouring non-squares must be rejected.  The k-th `chars.next()` is the k-th character.
    from wa.concwalk import Conc, NONE, some
    from wa.interp import Unknown
    fb = f.body(PFROM)
    fex = Exprs(fb)
    if fb.loops():
        raise ShapeNotRecognised("Point::from_str contains a loop")
    nexts = [fex.call_expr(t, fb.term_loc(bb)) for bb, t in sorted(fb.iter_calls()) if (callee_of(t) or "").endswith("Chars<'a> as std::iter::Iterator>::next")
             or ((callee_of(t) or "").endswith("::next") and "Chars" in (t.get("callee_full") or ""))]
    nexts.sort(key=lambda c: sum(1 for d in nexts if fb.node_dominates(d[3][0], c[3][0])))
    if len(nexts) < 2:
        raise ShapeNotRecognised("Point::from_str does not read its text character by character (%d `chars.next()` calls)" % len(nexts))

    def parse(text):
        env = {c: (some(ord(text[i])) if i < len(text) else NONE) for i, c in enumerate(nexts)}
        try:
            v = Conc(f, fb, env, fex).run()
        except Unknown as e:
            raise ShapeNotRecognised("Point::from_str(\"%s\") cannot be evaluated: %r" % (text, e))
        if isinstance(v, tuple) and v[:3] == ("adt", "std::result::Result", "Ok"):
            pt = v[3][0]
            return tuple(pt[3]) if isinstance(pt, tuple) and pt and pt[0] == "adt" else pt
        return None
    lm = {}
    for i, c in enumerate(chess.FILES):
        pt = parse(c + "1")
        if pt is not None:
            lm[c] = pt[1] - 2
    ctx.ob("Point::from_str:files", lm == {c: i for i, c in enumerate(chess.FILES)}, fb.file, "file letter -> column index: %s" % sorted(lm.items()))
    bad = []
    for i, c in enumerate(chess.FILES):
        for d in "12345678":
            pt = parse(c + d)
            if pt != (10 - int(d), i + 2):
                bad.append((c + d, pt))
    for txt in ("`1", "i1", "A1", "a0", "a9", "a", "a1x", "", "11", "aa"):
        pt = parse(txt)
        if pt is not None:
            bad.append((txt, pt))
    ctx.ob("Point::from_str:inverse-of-fmt", not bad, fb.file,
           "the 64 square names parse to Point(10 - digit, file index + 2) and 10 neighbouring non-squares are rejected" if not bad else "wrong results (text, parsed): %s" % bad[:6])
    # promotion letters
    ab = f.body("board::PieceKind::alg")
    aex = Exprs(ab)
    kinds = f.enum_variant_by_discr("board::PieceKind")
    alg = {}
    for blocks, dec in enum_paths(ab, aex):
        kind = None
        for d, (vals, oth) in dec.items():
            if d[0] == "discr" and not oth and len(vals) == 1:
                kind = kinds.get(vals[0])
        env, conds = eval_path(ab, blocks)
        r = strip_refs(env.get(0, ("opaque", "")))
        if kind and r[0] == "str":
            alg[kind] = r[1]
    want = {v: k for k, v in chess.PROMOTION_LETTERS.items()}
    ctx.ob("PieceKind::alg:promotion-letters", all(alg.get(k) == v for k, v in want.items()), ab.file, "kind -> letter: %s" % sorted(alg.items()))
    mb = f.body("uci::make_move")
    mex = Exprs(mb)
    mm = {}
    for bb in mb.normal:
        t = mb.term(bb)
        if t["k"] == "switch" and t["discr_ty"] == "char":
            for v, tg in t["cases"]:
                for i, st in enumerate(mb.stmts(tg)):
                    if st["k"] == "assign":
                        e = mex.rvalue(st["rv"], (tg, i))
                        if e[0] == "agg" and e[1] == "board::PieceKind":
                            mm[chr(v)] = e[2]
    ctx.ob("make_move:promotion-letters", mm == chess.PROMOTION_LETTERS, mb.file, "letter -> kind in the applier: %s" % sorted(mm.items()))
    pb = f.body("move_generation::promote_pawn")
    pex = Exprs(pb)
    ks = set()
    for loc, st in pb.iter_stmts():
        if st["k"] == "assign" and st["rv"]["k"] == "aggregate" and st["rv"].get("agg") == "array":
            e = pex.rvalue(st["rv"], loc)
            ks = {x[2] for x in e[3] if x[0] == "agg"}
    # the table may be a named constant: read whatever array of kinds a call (into_iter / iter) is given
    for bb, t in pb.iter_calls():
        for a in pex.call_args(bb):
            for x in subexprs(a):
                if x[0] == "agg" and x[1] == "array" and x[3] and all(y[0] == "agg" and y[1] == "board::PieceKind" for y in x[3]):
                    ks |= {y[2] for y in x[3]}
    ctx.ob("promote_pawn:kinds", ks == chess.PROMOTION_KINDS, pb.file, "promotion fan-out over %s" % sorted(ks))
