"""Repetition table rules (C10)."""
from wa.mir import AnchorMissing, ShapeNotRecognised, callee_of
from wa.expr import Exprs, show_expr, subexprs, strip_refs
from wa.interp import eval_expr, walk, Unknown
from .uci_rules import leaf_terms

IS3 = "draw_table::DrawTable::is_threefold_repetition"


def _lookup_term(b, ex):
    """The expression standing for `table[board.zobrist_key]` (count, default 0)."""
    terms = set()
    for s in b.normal:
        if s in b.reachable and b.term(s)["k"] == "switch":
            for x in leaf_terms(ex.switch_discr(s)):
                terms.add(x)
    for loc, st in b.iter_stmts():
        if st["k"] == "assign" and st["place"]["local"] == 0 and not st["place"]["proj"]:
            for x in leaf_terms(ex.rvalue(st["rv"], loc)):
                terms.add(x)
    return terms


def r10_3(ctx):
    """is_threefold_repetition is true exactly when the looked-up count is >= 2 (upward closed)."""
    f = ctx.facts
    b = f.body(IS3)
    ctx.note_fn(IS3)
    ex = Exprs(b)
    terms = _lookup_term(b, ex)
    if len(terms) != 1:
        lookups = [t for t in terms if any(s[0] == "call" and s[1].endswith("::get") for s in subexprs(t))]
        others = [t for t in terms if t not in lookups]
        if len(lookups) == 1 and others:
            ctx.ob("is_threefold_repetition:depends-only-on-count", False, b.where((0, 0)),
                   "the repetition predicate also depends on `%s`: whether a position counts as repeated must depend on its count alone" % show_expr(others[0], b)[:80])
            return
        raise ShapeNotRecognised("is_threefold_repetition decides on %d distinct terms: %s" % (
            len(terms), [show_expr(t, b)[:60] for t in terms]))
    x = next(iter(terms))
    calls = [s for s in subexprs(x) if s[0] == "call"]
    get = [c for c in calls if c[1].endswith("HashMap::<K, V, S, A>::get") or c[1].endswith("::get")]
    uo = [c for c in calls if c[1].endswith("::unwrap_or")]
    ok_shape = bool(get) and bool(uo)
    if ok_shape:
        g = get[0]
        keyarg = strip_refs(g[2][1]) if len(g[2]) > 1 else None
        ok_shape = keyarg is not None and keyarg[0] == "field" and keyarg[2] == "zobrist_key"
        dflt = strip_refs(uo[0][2][1])
        ok_shape = ok_shape and dflt == ("const", 0)
    if not ok_shape:
        raise ShapeNotRecognised("count is not `*table.get(&board.zobrist_key).unwrap_or(&0)`: %s" % show_expr(x, b)[:120])
    true_set = []
    for v in range(256):
        try:
            rb, path = walk(b, ex, {x: v})
        except Unknown as e:
            raise ShapeNotRecognised("cannot evaluate %r" % (e,))
        if rb is None:
            raise ShapeNotRecognised("path does not return for count=%d" % v)
        # value of _0: last assignment to _0 on the path
        val = None
        for pb in path:
            for i, st in enumerate(b.stmts(pb)):
                if st["k"] == "assign" and st["place"]["local"] == 0 and not st["place"]["proj"]:
                    val = eval_expr(ex.rvalue(st["rv"], (pb, i)), {x: v})
        if val is None:
            raise ShapeNotRecognised("no return value on path for count=%d" % v)
        if val:
            true_set.append(v)
    want = list(range(2, 256))
    def fmt(s):
        if not s:
            return "{}"
        runs, st_, prev = [], s[0], s[0]
        for v in s[1:] + [None]:
            if v is None or v != prev + 1:
                runs.append("%d" % st_ if st_ == prev else "%d..=%d" % (st_, prev))
                st_ = v
            prev = v
        return "{" + ", ".join(runs) + "}"
    ctx.ob("is_threefold_repetition:true-set", true_set == want, b.where((0, 0)),
           "evaluated for every count 0..=255: reports a repetition for counts %s; the property needs exactly %s (a position seen at least twice before)" % (fmt(true_set), fmt(want)))


# ---- R10.1 / R10.2 / R10.4 / R10.6 ---------------------------------------------------------------
from wa.mir import operand_alias
from wa.expr import root_local, data_slice
from wa.cond import dominating_facts
from wa.linear import linear

LOOP_FN = "uci::play_game_uci"
POP = "uci::play_out_position"
CLEAR = "draw_table::DrawTable::clear"
ADD = "draw_table::DrawTable::add_board_to_draw_table"
REMOVE = "draw_table::DrawTable::remove_board_from_draw_table"
ABS = "engine::alpha_beta_search"
OOT = "utils::out_of_time"


def _table_calls(b, table_local, mode):
    """Blocks calling a DrawTable method / HashMap::insert on the table rooted at table_local."""
    out = {}
    for bb, t in b.iter_calls():
        c = callee_of(t) or ""
        if not t["args"]:
            continue
        al = operand_alias(b, t["args"][0])
        if al is None or al[0] != table_local:
            continue
        if c.startswith("draw_table::DrawTable::"):
            out[bb] = c.split("::")[-1]
        elif c.endswith("HashMap::<K, V, S, A>::insert"):
            out[bb] = "insert"
        elif c.endswith("HashMap::<K, V, S, A>::clear"):
            out[bb] = "clear"
    return out


def r10_12(ctx):
    """`position`: the table is cleared before it is repopulated, the start position is recorded
    once on every path, and each applied move is followed by one add."""
    f = ctx.facts
    lb = f.body(LOOP_FN)
    pb = f.body(POP)
    ctx.note_fn(LOOP_FN, POP)
    lex, pex = Exprs(lb), Exprs(pb)
    # the table local of the command loop and the position arm
    tables = [l for l in range(len(lb.locals)) if lb.local_ty(l) == "draw_table::DrawTable"]
    if len(tables) != 1:
        raise ShapeNotRecognised("play_game_uci: expected one DrawTable local, found %d" % len(tables))
    T = tables[0]
    pcalls = lb.calls_to(POP)
    if len(pcalls) != 1:
        raise ShapeNotRecognised("play_game_uci: %d calls of play_out_position" % len(pcalls))
    pbb, pt = pcalls[0]
    passes_table = any((operand_alias(lb, a) or (None,))[0] == T for a in pt["args"])
    ctx.ob("position-arm:rebuilds-the-session-table", passes_table, lb.where(lb.term_loc(pbb)), "play_out_position receives the session's repetition table")
    tc = _table_calls(lb, T, "loop")
    clears = [bb for bb, k in tc.items() if k == "clear"]
    cleared_in_arm = any(lb.node_dominates(c, pbb) and c != pbb and
                         any(d[0] == "bin" and d[1] == "Eq" and ("str", "position") in (strip_refs(d[2]), strip_refs(d[3])) and (vals is None and excl == [0] or vals == [1])
                             for d, vals, excl, s, tg in dominating_facts(lb, lex, c)) for c in clears)
    # inside play_out_position
    tp = [i for i in range(1, pb.arg_count + 1) if pb.local_ty(i) == "&mut draw_table::DrawTable"]
    if len(tp) != 1:
        raise ShapeNotRecognised("play_out_position(.., draw_table: &mut DrawTable)")
    ptc = {}
    for bb, t in pb.iter_calls():
        c = callee_of(t) or ""
        if not t["args"]:
            continue
        al = operand_alias(pb, t["args"][0])
        if al is None or al[0] != tp[0]:
            continue
        if c.startswith("draw_table::DrawTable::"):
            ptc[bb] = c.split("::")[-1]
        elif c.endswith("HashMap::<K, V, S, A>::insert"):
            ptc[bb] = "insert"
        elif c.endswith("::clear"):
            ptc[bb] = "clear"
    rets = pb.return_blocks()
    inner_clears = {bb for bb, k in ptc.items() if k == "clear"}
    populate = {bb for bb, k in ptc.items() if k in ("insert", "add_board_to_draw_table")}
    cleared_inside = bool(inner_clears) and all(not pb.reaches(0, r, removed_nodes=inner_clears) for r in rets) and \
        all(not pb.reaches(0, p, removed_nodes=inner_clears) for p in populate)
    ctx.ob("position:table-cleared-before-rebuild", cleared_in_arm or cleared_inside, lb.where(lb.term_loc(pbb)),
           "cleared in the `position` arm before play_out_position: %s; cleared inside play_out_position on every path before anything is recorded: %s" % (cleared_in_arm, cleared_inside))
    # start position recorded once on every path to return
    ins = []
    for bb, k in ptc.items():
        if k == "insert":
            args = pex.call_args(bb)
            keye = strip_refs(args[1])
            ok_key = keye[0] == "field" and keye[2] == "zobrist_key" and pb.local_ty(root_local(keye) or 0) == "board::BoardState"
            ok_val = args[2] == ("const", 1)
            if ok_key and ok_val:
                ins.append(bb)
    ok = bool(ins) and all(not pb.reaches(0, r, removed_nodes=set(ins)) for r in rets) and rets
    ctx.ob("play_out_position:start-position-recorded", bool(ok), pb.where(pb.term_loc(ins[0])) if ins else pb.file,
           "every path to return records the start position with count 1 (insert(board.zobrist_key, 1)); %s" % (
               "holds" if ok else "NOT on all paths: some `position` commands leave the record without their own start position"))
    # not inside the move loop
    loops = pb.loops()
    in_loop = [bb for bb in ins for h, body_ in loops.items() if bb in body_]
    ctx.ob("play_out_position:start-recorded-once", not in_loop, pb.file, "the start insert is outside the move loop")
    # each make_move followed by exactly one add on the same board before the next iteration
    mm = [bb for bb, t in pb.iter_calls(callee="uci::make_move")]
    adds = {bb for bb, k in ptc.items() if k == "add_board_to_draw_table"}
    for i, m in enumerate(mm):
        inl = [h for h, body_ in loops.items() if m in body_]
        if not inl:
            ctx.ob("play_out_position:make_move#%d:in-loop" % i, False, pb.where(pb.term_loc(m)), "make_move outside the move loop")
            continue
        h = min(inl, key=lambda hh: len(loops[hh]))
        # from make_move, the loop header is not reachable without passing an add
        ok = not pb.reaches(m, h, removed_nodes=adds) and not pb.reaches(m, m, removed_nodes=adds)
        # and the add comes after (not before) within the iteration: header -> make_move does not pass an add
        early = any(pb.node_dominates(a, m) and a in loops[h] and pb.node_dominates(h, a) for a in adds)
        ctx.ob("play_out_position:make_move#%d:followed-by-add" % i, ok and not early, pb.where(pb.term_loc(m)),
               "after each applied move the resulting position is counted once before the next move (add after make_move: %s, add before make_move in the same iteration: %s)" % (ok, early))
    ctx.floor("make_move calls in play_out_position", len(mm), 1)


def r10_4(ctx):
    """add stores old+1, remove stores old-1 at board.zobrist_key (old defaults to 0 in add)."""
    f = ctx.facts
    for fn, delta in ((ADD, 1), (REMOVE, -1)):
        b = f.body(fn)
        ctx.note_fn(fn)
        ex = Exprs(b)
        ins = [(bb, t) for bb, t in b.iter_calls() if (callee_of(t) or "").endswith("HashMap::<K, V, S, A>::insert")]
        short = fn.split("::")[-1]
        if len(ins) != 1:
            ctx.ob("%s:one-store" % short, False, b.file, "%d stores into the table" % len(ins))
            continue
        bb, t = ins[0]
        args = ex.call_args(bb)
        keye = strip_refs(args[1])
        ok_key = keye[0] == "field" and keye[2] == "zobrist_key"
        le = linear(args[2])
        ok_val = False
        desc = show_expr(args[2], b)[:80]
        if le is not None and le[1] == delta and len(le[0]) == 1:
            (term, cf), = le[0].items()
            gets = [x for x in subexprs(term) if x[0] == "call" and x[1].endswith("::get")]
            samekey = any(strip_refs(g[2][1]) == keye for g in gets)
            ok_val = cf == 1 and samekey
        ctx.ob("%s:stores-count%+d" % (short, delta), ok_key and ok_val, b.where(b.term_loc(bb)),
               "stores `%s` at board.zobrist_key; must be the count read for the same key %+d" % (desc, delta))


def r10_7(ctx):
    """DrawTable primitives: clear() empties the map; new() starts empty; Clone is the derived copy."""
    f = ctx.facts
    b = f.body(CLEAR)
    ctx.note_fn(CLEAR, "draw_table::DrawTable::new")
    ex = Exprs(b)
    ok = False
    for bb, t in b.iter_calls():
        c = callee_of(t) or ""
        if c.endswith("HashMap::<K, V, S, A>::clear"):
            a = strip_refs(ex.call_args(bb)[0])
            ok = a[0] == "field" and a[2] == "table"
    rets = b.return_blocks()
    clr = {bb for bb, t in b.iter_calls() if (callee_of(t) or "").endswith("HashMap::<K, V, S, A>::clear")}
    ok = ok and bool(rets) and all(not b.reaches(0, r, removed_nodes=clr) or 0 in clr for r in rets)
    ctx.ob("DrawTable::clear", ok, b.file, "clear() empties self.table on every path")
    nb = f.body("draw_table::DrawTable::new")
    ok = any((callee_of(t) or "").endswith("HashMap::<K, V>::new") or (callee_of(t) or "").endswith("::new") for _, t in nb.iter_calls())
    ctx.ob("DrawTable::new", ok, nb.file, "new() starts from an empty map")


def r10_6(ctx):
    """Every search node consults the repetition record before it is evaluated in any way: no path
    from entry to a return avoids the test, except the clock abort."""
    f = ctx.facts
    b = f.body(ABS)
    ctx.note_fn(ABS)
    ex = Exprs(b)
    tests = {bb for bb, t in b.iter_calls(callee=IS3)}
    abort_edges = set()
    for s in b.normal:
        if s in b.reachable and b.term(s)["k"] == "switch":
            d = ex.switch_discr(s)
            if d[0] == "call" and d[1] == OOT:
                abort_edges.add((s, b.term(s)["otherwise"]))
    rets = b.return_blocks()
    bad = [r for r in rets if b.reaches(0, r, removed_nodes=tests, removed_edges=abort_edges)]
    where = b.file
    detail = "every non-aborted path through a node passes is_threefold_repetition(board)"
    if bad:
        # name an exit that avoids the test: an assignment to the return place reachable without it
        reach = b.reach_from(0, tests, abort_edges)
        for loc, st in b.iter_stmts():
            if st["k"] == "assign" and st["place"]["local"] == 0 and loc[0] in reach:
                where = b.where(loc)
                break
        for bb2, t2 in b.iter_calls():
            if t2["dest"]["local"] == 0 and bb2 in reach:
                where = b.where(b.term_loc(bb2))
        detail = "a node can be scored without consulting the repetition record (e.g. at the search horizon): a move into a third occurrence is then not valued as a draw"
    ctx.ob("alpha_beta_search:repetition-test-on-every-node", not bad and bool(tests), where, detail)


def r10_8(ctx):
    """`go` leaves the session's repetition record untouched: find_and_play_best_move only clones it."""
    f = ctx.facts
    b = f.body("uci::find_and_play_best_move")
    ctx.note_fn("uci::find_and_play_best_move")
    tp = [i for i in range(1, b.arg_count + 1) if b.local_ty(i) == "&mut draw_table::DrawTable"]
    if len(tp) != 1:
        raise ShapeNotRecognised("find_and_play_best_move(.., draw_table: &mut DrawTable)")
    uses = []
    for bb, t in b.iter_calls():
        for a in t["args"]:
            al = operand_alias(b, a)
            if al and al[0] == tp[0]:
                uses.append((bb, callee_of(t) or "?"))
    for loc, st in b.iter_stmts():
        if st["k"] == "assign" and st["place"]["local"] == tp[0] and st["place"]["proj"]:
            uses.append((loc[0], "direct write"))
    bad = [(bb, c) for bb, c in uses if not c.endswith("DrawTable as std::clone::Clone>::clone")]
    ctx.ob("find_and_play_best_move:record-only-cloned", not bad and bool(uses), b.where(b.term_loc(bad[0][0])) if bad else b.file,
           "the repetition record is used by: %s; only a clone may leave this function, otherwise a second `go` without a new `position` searches with a changed record" % sorted({c.split("::")[-1] for _, c in uses}))
