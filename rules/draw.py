"""Repetition table rules (C10)."""
from wa.mir import AnchorMissing, ShapeNotRecognised, callee_of
from wa.expr import Exprs, show_expr, subexprs, strip_refs
from wa.interp import eval_expr, walk, Unknown
from .uci_rules import leaf_terms

IS3 = "draw_table::DrawTable::is_threefold_repetition"


def _lookup_term(b, ex):
    """The expression standing for `table[board.zobrist_key]` (count, default 0)."""
    terms = set()
    for s in b.normal:
        if s in b.reachable and b.term(s)["k"] == "switch":
            for x in leaf_terms(ex.switch_discr(s)):
                terms.add(x)
    for loc, st in b.iter_stmts():
        if st["k"] == "assign" and st["place"]["local"] == 0 and not st["place"]["proj"]:
            for x in leaf_terms(ex.rvalue(st["rv"], loc)):
                terms.add(x)
    return terms


def r10_3(ctx):
    """is_threefold_repetition is true exactly when the looked-up count is >= 2 (upward closed)."""
    f = ctx.facts
    b = f.body(IS3)
    ctx.note_fn(IS3)
    ex = Exprs(b)
    terms = _lookup_term(b, ex)
    if len(terms) != 1:
        raise ShapeNotRecognised("is_threefold_repetition decides on %d distinct terms: %s" % (
            len(terms), [show_expr(t, b)[:60] for t in terms]))
    x = next(iter(terms))
    calls = [s for s in subexprs(x) if s[0] == "call"]
    get = [c for c in calls if c[1].endswith("HashMap::<K, V, S, A>::get") or c[1].endswith("::get")]
    uo = [c for c in calls if c[1].endswith("::unwrap_or")]
    ok_shape = bool(get) and bool(uo)
    if ok_shape:
        g = get[0]
        keyarg = strip_refs(g[2][1]) if len(g[2]) > 1 else None
        ok_shape = keyarg is not None and keyarg[0] == "field" and keyarg[2] == "zobrist_key"
        dflt = strip_refs(uo[0][2][1])
        ok_shape = ok_shape and dflt == ("const", 0)
    if not ok_shape:
        raise ShapeNotRecognised("count is not `*table.get(&board.zobrist_key).unwrap_or(&0)`: %s" % show_expr(x, b)[:120])
    true_set = []
    for v in range(256):
        try:
            rb, path = walk(b, ex, {x: v})
        except Unknown as e:
            raise ShapeNotRecognised("cannot evaluate %r" % (e,))
        if rb is None:
            raise ShapeNotRecognised("path does not return for count=%d" % v)
        # value of _0: last assignment to _0 on the path
        val = None
        for pb in path:
            for i, st in enumerate(b.stmts(pb)):
                if st["k"] == "assign" and st["place"]["local"] == 0 and not st["place"]["proj"]:
                    val = eval_expr(ex.rvalue(st["rv"], (pb, i)), {x: v})
        if val is None:
            raise ShapeNotRecognised("no return value on path for count=%d" % v)
        if val:
            true_set.append(v)
    want = list(range(2, 256))
    def fmt(s):
        if not s:
            return "{}"
        runs, st_, prev = [], s[0], s[0]
        for v in s[1:] + [None]:
            if v is None or v != prev + 1:
                runs.append("%d" % st_ if st_ == prev else "%d..=%d" % (st_, prev))
                st_ = v
            prev = v
        return "{" + ", ".join(runs) + "}"
    ctx.ob("is_threefold_repetition:true-set", true_set == want, b.where((0, 0)),
           "evaluated for every count 0..=255: reports a repetition for counts %s; the property needs exactly %s (a position seen at least twice before)" % (fmt(true_set), fmt(want)))
