"""Repetition table rules (C10)."""
from wa.mir import AnchorMissing, ShapeNotRecognised, callee_of
from wa.expr import Exprs, show_expr, subexprs, strip_refs
from wa.interp import Unknown
from .uci_rules import leaf_terms

IS3 = "draw_table::DrawTable::is_threefold_repetition"


def _decision_exprs(b, ex):
    """Expressions the predicate's verdict depends on: switch discriminants and result values."""
    from .search import return_sites
    out = []
    for s in b.normal:
        if s in b.reachable and b.term(s)["k"] == "switch":
            out.append(ex.switch_discr(s))
    for loc, st in return_sites(b):
        out.append(ex.rvalue(st["rv"], loc) if st is not None else ex.call_expr(b.term(loc[0]), loc))
    return out


def _is_table_lookup(e):
    """`self.table.get(&board.zobrist_key)` (the Option the count is read from)."""
    if not (e[0] == "call" and (e[1].endswith("HashMap::<K, V, S, A>::get") or e[1].endswith("HashMap::<K, V, S, A>::get_mut")) and len(e[2]) == 2):
        return False
    tab, key = strip_refs(e[2][0]), strip_refs(e[2][1])
    return tab[0] == "field" and tab[2] == "table" and key[0] == "field" and key[2] == "zobrist_key"


def r10_3(ctx):
    """is_threefold_repetition is true exactly when the looked-up count is >= 2 (upward closed); an
    absent entry counts as 0.  Evaluated for every state of the entry, through whatever Option
    combinators / helper the source uses."""
    from wa import optinterp as oi
    from .search import return_carriers
    f = ctx.facts
    b = f.body(IS3)
    ctx.note_fn(IS3)
    ex = Exprs(b)
    decisions = _decision_exprs(b, ex)
    lookups = set()
    for d in decisions:
        for x in subexprs(d):
            if x[0] == "call" and x[1].endswith("::get") and "HashMap" in x[1]:
                lookups.add(x)
    # what else the verdict reads: maximal non-arithmetic terms that do not contain the lookup
    others = []
    for d in decisions:
        for t in leaf_terms(d):
            if not any(x in lookups for x in subexprs(t)):
                others.append(t)
    if len(lookups) == 1 and others:
        ctx.ob("is_threefold_repetition:depends-only-on-count", False, b.where((0, 0)),
               "the repetition predicate also depends on `%s`: whether a position counts as repeated must depend on its count alone" % show_expr(others[0], b)[:80])
        return
    if len(lookups) != 1:
        raise ShapeNotRecognised("is_threefold_repetition decides on %d table lookups: %s" % (
            len(lookups), [show_expr(t, b)[:60] for t in lookups]))
    g = next(iter(lookups))
    if not _is_table_lookup(g):
        raise ShapeNotRecognised("count is not read by `self.table.get(&board.zobrist_key)`: %s" % show_expr(g, b)[:120])
    carriers = return_carriers(b)

    def verdict(state):
        env = {g: state}
        try:
            rb, path = oi.walk(b, ex, env, f)
            if rb is None:
                raise ShapeNotRecognised("path does not return for entry state %r" % (state,))
            return bool(oi.path_value(b, ex, path, env, f, carriers))
        except Unknown as e:
            raise ShapeNotRecognised("cannot evaluate %r" % (e,))
    true_set = [v for v in range(256) if verdict(oi.some(v))]
    absent = verdict(oi.NONE)
    want = list(range(2, 256))
    def fmt(s):
        if not s:
            return "{}"
        runs, st_, prev = [], s[0], s[0]
        for v in s[1:] + [None]:
            if v is None or v != prev + 1:
                runs.append("%d" % st_ if st_ == prev else "%d..=%d" % (st_, prev))
                st_ = v
            prev = v
        return "{" + ", ".join(runs) + "}"
    ctx.ob("is_threefold_repetition:true-set", true_set == want and not absent, b.where((0, 0)),
           "evaluated for every count 0..=255: reports a repetition for counts %s%s; the property needs exactly %s (a position seen at least twice before)" % (
               fmt(true_set), " and for a position that was never recorded" if absent else "", fmt(want)))


# ---- R10.1 / R10.2 / R10.4 / R10.6 ---------------------------------------------------------------
from wa.mir import operand_alias
from wa.expr import root_local, data_slice
from wa.cond import dominating_facts
from wa.linear import linear

LOOP_FN = "uci::play_game_uci"
POP = "uci::play_out_position"
CLEAR = "draw_table::DrawTable::clear"
ADD = "draw_table::DrawTable::add_board_to_draw_table"
REMOVE = "draw_table::DrawTable::remove_board_from_draw_table"
ABS = "engine::alpha_beta_search"
OOT = "utils::out_of_time"


TABLE_TY = "draw_table::DrawTable"


def _session_table_places(b):
    """Where the command loop keeps its repetition table: named locals of type DrawTable, or a
    DrawTable field of a named struct local (`session.draw_table`).  [(local, (field names..))]"""
    out = []
    for l in sorted(b.names):
        ty = b.local_ty(l)
        if ty == TABLE_TY:
            out.append((l, ()))
            continue
        try:
            vs = b.facts.adt(ty)["variants"]
        except Exception:
            continue
        if len(vs) == 1:
            for fd in vs[0]["fields"]:
                if fd["ty"] == TABLE_TY:
                    out.append((l, (fd["name"],)))
    return out


def _is_place_arg(b, o, place):
    """The call operand is (a reference to) the given place."""
    al = operand_alias(b, o)
    if al is None or al[0] != place[0]:
        return False
    proj = tuple(e.get("name") for e in al[2] if e["k"] != "deref") if al[1] != "val" else ()
    if any(e["k"] not in ("field", "deref") for e in (al[2] if al[1] != "val" else [])):
        return False
    return proj == place[1]


NEW_TABLE = "draw_table::DrawTable::new"


def _fresh_table_writes(b, ex, local, proj_names, deref=False):
    """Blocks in which the table place is overwritten with a fresh `DrawTable::new()`: the same reset
    as clear() (R10.7 states that new() starts empty)."""
    out = set()
    for loc, st in b.iter_stmts():
        if st["k"] != "assign" or st["place"]["local"] != local:
            continue
        pr = st["place"]["proj"]
        if any(e["k"] not in ("field", "deref") for e in pr):
            continue
        if bool([e for e in pr if e["k"] == "deref"]) != deref:
            continue
        if tuple(e.get("name") for e in pr if e["k"] == "field") != tuple(proj_names):
            continue
        e = strip_refs(ex.rvalue(st["rv"], loc))
        if e[0] == "call" and e[1] == NEW_TABLE:
            out.add(loc[0])
    for bb, t in b.iter_calls(callee=NEW_TABLE):
        d = t["dest"]
        if d["local"] == local and not deref and tuple(e.get("name") for e in d["proj"] if e["k"] == "field") == tuple(proj_names) and \
                all(e["k"] == "field" for e in d["proj"]):
            out.add(bb)
    return out


def _table_calls(b, place, mode=None):
    """Blocks calling a DrawTable method / HashMap::insert on the table at `place` (local, fields)."""
    out = {}
    for bb, t in b.iter_calls():
        c = callee_of(t) or ""
        if not t["args"]:
            continue
        if not _is_place_arg(b, t["args"][0], place):
            continue
        if c.startswith("draw_table::DrawTable::"):
            out[bb] = c.split("::")[-1]
        elif c.endswith("HashMap::<K, V, S, A>::insert"):
            out[bb] = "insert"
        elif c.endswith("HashMap::<K, V, S, A>::clear"):
            out[bb] = "clear"
    return out


def r10_12(ctx):
    """`position`: the table is cleared before it is repopulated, the start position is recorded
    once on every path, and each applied move is followed by one add."""
    f = ctx.facts
    lb = f.body(LOOP_FN)
    pb = f.body(POP)
    ctx.note_fn(LOOP_FN, POP)
    lex, pex = Exprs(lb), Exprs(pb)
    # the table of the command loop: a local, or a field of the session struct
    tables = _session_table_places(lb)
    if len(tables) != 1:
        raise ShapeNotRecognised("play_game_uci: expected one DrawTable place, found %d" % len(tables))
    T = tables[0]
    pcalls = lb.calls_to(POP)
    if len(pcalls) != 1:
        raise ShapeNotRecognised("play_game_uci: %d calls of play_out_position" % len(pcalls))
    pbb, pt = pcalls[0]
    passes_table = any(_is_place_arg(lb, a, T) for a in pt["args"])
    ctx.ob("position-arm:rebuilds-the-session-table", passes_table, lb.where(lb.term_loc(pbb)), "play_out_position receives the session's repetition table")
    tc = _table_calls(lb, T)
    clears = {bb for bb, k in tc.items() if k == "clear"} | _fresh_table_writes(lb, lex, T[0], T[1])
    # cleared for *this* command: every path from the head of the command loop to the rebuild passes a
    # clear of the session table (whatever the dispatch looks like: string match, classifier enum,
    # session method), and nothing else touches the table between that clear and the rebuild
    loops = lb.loops()
    inl = [h for h, body_ in loops.items() if pbb in body_]
    cleared_in_arm = False
    if inl and clears:
        h = max(inl, key=lambda hh: len(loops[hh]))
        touches = set()
        for bb, t in lb.iter_calls():
            if bb != pbb and bb not in clears and any(_is_place_arg(lb, a, T) for a in t["args"]):
                c = callee_of(t) or ""
                if not c.endswith("Clone>::clone") and not c.endswith("::is_threefold_repetition"):
                    touches.add(bb)
        cleared_in_arm = (h in clears or not lb.reaches(h, pbb, removed_nodes=clears)) and \
            all(not lb.reaches(m, pbb, removed_nodes=clears) for m in touches)
    # inside play_out_position
    tp = [i for i in range(1, pb.arg_count + 1) if pb.local_ty(i) == "&mut draw_table::DrawTable"]
    if len(tp) != 1:
        raise ShapeNotRecognised("play_out_position(.., draw_table: &mut DrawTable)")
    ptc = {}
    for bb, t in pb.iter_calls():
        c = callee_of(t) or ""
        if not t["args"]:
            continue
        al = operand_alias(pb, t["args"][0])
        if al is None or al[0] != tp[0]:
            continue
        if c.startswith("draw_table::DrawTable::"):
            ptc[bb] = c.split("::")[-1]
        elif c.endswith("HashMap::<K, V, S, A>::insert"):
            ptc[bb] = "insert"
        elif c.endswith("::clear"):
            ptc[bb] = "clear"
    rets = pb.return_blocks()
    inner_clears = {bb for bb, k in ptc.items() if k == "clear"} | _fresh_table_writes(pb, pex, tp[0], (), deref=True)
    populate = {bb for bb, k in ptc.items() if k in ("insert", "add_board_to_draw_table")}
    # (the entry block itself may be the clearing call)
    cleared_inside = bool(inner_clears) and (0 in inner_clears or (all(not pb.reaches(0, r, removed_nodes=inner_clears) for r in rets) and
                                                                  all(not pb.reaches(0, p, removed_nodes=inner_clears) for p in populate)))
    ctx.ob("position:table-cleared-before-rebuild", cleared_in_arm or cleared_inside, lb.where(lb.term_loc(pbb)),
           "cleared in the `position` arm before play_out_position: %s; cleared inside play_out_position on every path before anything is recorded: %s" % (cleared_in_arm, cleared_inside))
    # nothing that was recorded for this command is dropped again: no clear can follow a populate
    late = sorted(c for c in inner_clears if any(p2 != c and (pb.reaches(p2, c)) for p2 in populate))
    ctx.ob("play_out_position:no-clear-after-recording", not late, pb.where(pb.term_loc(late[0])) if late else pb.file,
           "the table is only cleared before the first position of the command is recorded" if not late else
           "`clear()` can run after positions of this command were recorded: the record then no longer holds every position of the described game with its count")
    # start position recorded once on every path to return
    ins = []
    for bb, k in ptc.items():
        if k == "insert":
            args = pex.call_args(bb)
            keye = strip_refs(args[1])
            ok_key = keye[0] == "field" and keye[2] == "zobrist_key" and \
                pb.local_ty(root_local(keye) or 0) in ("board::BoardState", "&board::BoardState", "&mut board::BoardState")
            ok_val = args[2] == ("const", 1)
            if ok_key and ok_val:
                ins.append(bb)
        elif k == "add_board_to_draw_table":
            # on a table that is empty at this point (cleared, nothing recorded since) `add(board)` stores
            # 0 + 1 = 1 (R10.4): the same record as insert(board.zobrist_key, 1)
            args = pex.call_args(bb)
            ok_board = pb.local_ty(root_local(strip_refs(args[1])) or 0) in ("board::BoardState", "&board::BoardState", "&mut board::BoardState")
            others = [p for p in populate if p != bb]
            if inner_clears:
                empty = (0 in inner_clears or not pb.reaches(0, bb, removed_nodes=inner_clears)) and \
                    all(not pb.reaches(p, bb, removed_nodes=inner_clears) for p in others)
            else:
                empty = cleared_in_arm and all(not pb.reaches(p, bb) for p in others)
            if ok_board and empty and not pb.reaches(bb, bb, removed_nodes=inner_clears):
                ins.append(bb)
    ok = bool(ins) and (0 in ins or all(not pb.reaches(0, r, removed_nodes=set(ins)) for r in rets)) and rets
    ctx.ob("play_out_position:start-position-recorded", bool(ok), pb.where(pb.term_loc(ins[0])) if ins else pb.file,
           "every path to return records the start position with count 1 (insert(board.zobrist_key, 1), or add(board) on the just-cleared table); %s" % (
               "holds" if ok else "NOT on all paths: some `position` commands leave the record without their own start position"))
    # the position recorded as the start is the one the command describes: the board whose key is stored
    # is not replaced afterwards (recording the default board first and applying the `fen` later records
    # a position that never occurred)
    late_defs = []
    def _board_locals_of(bb):
        """BoardState locals whose key / value the recording call at bb is given (syntactically: value
        numbering would replace a freshly built board by the expression that built it)."""
        out = set()
        t_ = pb.term(bb)
        for o in t_["args"][1:]:
            if o.get("k") not in ("copy", "move"):
                continue
            al = operand_alias(pb, o)
            if al and pb.local_ty(al[0]) == "board::BoardState":
                out.add(al[0])
            l0 = o["place"]["local"]
            for (dbb, di), kind in pb.reaching().all_sites(l0):
                st_ = pb.stmts(dbb)
                if kind == "whole" and di < len(st_) and st_[di]["rv"]["k"] == "use" and st_[di]["rv"]["op"].get("k") in ("copy", "move"):
                    src = st_[di]["rv"]["op"]["place"]
                    if pb.local_ty(src["local"]) == "board::BoardState":
                        out.add(src["local"])
        return out
    for bb in ins:
        roots = _board_locals_of(bb)
        for L in roots:
            if pb.local_ty(L) != "board::BoardState":
                continue
            for (dbb, di), kind in pb.reaching().all_sites(L):
                if kind == "whole" and (pb.reaches(bb, dbb) or (dbb == bb and di >= len(pb.stmts(bb)))):
                    late_defs.append((bb, (dbb, di)))
    ctx.ob("play_out_position:start-position-is-the-described-one", not late_defs, pb.where(late_defs[0][1]) if late_defs else pb.file,
           "the board recorded as the start position is not reassigned after it was recorded" if not late_defs else
           "the board is (re)built at %s after its key was recorded at %s: the record holds a start position the command does not describe" % (
               pb.where(late_defs[0][1]), pb.where(pb.term_loc(late_defs[0][0]))))
    # not inside the move loop
    loops = pb.loops()
    in_loop = [bb for bb in ins for h, body_ in loops.items() if bb in body_]
    ctx.ob("play_out_position:start-recorded-once", not in_loop, pb.file, "the start insert is outside the move loop")
    # each make_move followed by exactly one add on the same board before the next iteration
    mm = [bb for bb, t in pb.iter_calls(callee="uci::make_move")]
    adds = {bb for bb, k in ptc.items() if k == "add_board_to_draw_table"}
    for i, m in enumerate(mm):
        inl = [h for h, body_ in loops.items() if m in body_]
        if not inl:
            ctx.ob("play_out_position:make_move#%d:in-loop" % i, False, pb.where(pb.term_loc(m)), "make_move outside the move loop")
            continue
        h = min(inl, key=lambda hh: len(loops[hh]))
        # from make_move, the loop header is not reachable without passing an add
        ok = not pb.reaches(m, h, removed_nodes=adds) and not pb.reaches(m, m, removed_nodes=adds)
        # and the add comes after (not before) within the iteration: header -> make_move does not pass an add
        early = any(pb.node_dominates(a, m) and a in loops[h] and pb.node_dominates(h, a) for a in adds)
        ctx.ob("play_out_position:make_move#%d:followed-by-add" % i, ok and not early, pb.where(pb.term_loc(m)),
               "after each applied move the resulting position is counted once before the next move (add after make_move: %s, add before make_move in the same iteration: %s)" % (ok, early))
    ctx.floor("make_move calls in play_out_position", len(mm), 1)


def _is_key(e):
    e = strip_refs(e)
    return e[0] == "field" and e[2] == "zobrist_key"


def _table_stores(b, ex):
    """Every way the method changes a count in the map, normalised to
    (loc, key expr, delta or None, reads-same-key, default-ok, description):
      * `table.insert(key, <count read for key> + d)`
      * `*p = *p + d` through a pointer p to the entry of `key`
        (`entry(key).or_insert(0)` / `.or_default()`, `get_mut(&key)` payload)."""
    out = []
    for bb, t in b.iter_calls():
        if not (callee_of(t) or "").endswith("HashMap::<K, V, S, A>::insert"):
            continue
        args = ex.call_args(bb)
        keye = strip_refs(args[1])
        le = linear(args[2])
        delta, same, dflt = None, False, True
        if le is not None and len(le[0]) == 1:
            (term, cf), = le[0].items()
            if cf == 1:
                delta = le[1]
                gets = [x for x in subexprs(term) if x[0] == "call" and x[1].endswith("::get")]
                same = any(strip_refs(g[2][1]) == keye for g in gets)
                for x in subexprs(term):
                    if x[0] == "call" and x[1].endswith("::unwrap_or") and strip_refs(x[2][1]) != ("const", 0):
                        dflt = False
        out.append((b.term_loc(bb), keye, delta, same, dflt, "insert(%s)" % show_expr(args[2], b)[:70]))
    for loc, st in b.iter_stmts():
        if st["k"] != "assign":
            continue
        pl = st["place"]
        if not (len(pl["proj"]) == 1 and pl["proj"][0]["k"] == "deref" and b.local_ty(pl["local"]).startswith("&mut ")):
            continue
        p = pl["local"]
        if p <= b.arg_count:
            continue
        e = ex.rvalue(st["rv"], loc)
        le = linear(e)
        delta = None
        if le is not None and len(le[0]) == 1:
            (term, cf), = le[0].items()
            if cf == 1 and term[0] == "mem" and term[1] == p:
                delta = le[1]
        pe = strip_refs(ex.local(p, loc))
        keye, same, dflt = ("opaque", "?"), False, True
        src = None
        for x in subexprs(pe):
            if x[0] == "call" and (x[1].endswith("HashMap::<K, V, S, A>::entry") or x[1].endswith("HashMap::<K, V, S, A>::get_mut")) and len(x[2]) == 2:
                src = x
        if src is not None:
            keye = strip_refs(src[2][1])
            same = True
            if src[1].endswith("::entry"):
                ins = [x for x in subexprs(pe) if x[0] == "call" and "hash_map::Entry" in x[1]]
                dflt = bool(ins) and all((x[1].endswith("::or_insert") and strip_refs(x[2][1]) == ("const", 0)) or x[1].endswith("::or_default") for x in ins)
        out.append((loc, keye, delta, same, dflt, "*entry = %s" % show_expr(e, b)[:70]))
    return out


def r10_4(ctx):
    """add stores old+1, remove stores old-1 at board.zobrist_key (old defaults to 0 in add)."""
    f = ctx.facts
    for fn, delta in ((ADD, 1), (REMOVE, -1)):
        b = f.body(fn)
        ctx.note_fn(fn)
        ex = Exprs(b)
        short = fn.split("::")[-1]
        stores = _table_stores(b, ex)
        if len(stores) != 1:
            ctx.ob("%s:one-store" % short, False, b.file, "%d stores into the table" % len(stores))
            continue
        loc, keye, d, same, dflt, desc = stores[0]
        ok = _is_key(keye) and same and d == delta and (dflt or delta < 0)
        ctx.ob("%s:stores-count%+d" % (short, delta), ok, b.where(loc),
               "stores `%s` at board.zobrist_key; must be the count read for the same key %+d%s" % (desc, delta, "" if dflt else " (a new entry must start from 0)"))


def r10_7(ctx):
    """DrawTable primitives: clear() empties the map; new() starts empty; Clone is the derived copy."""
    f = ctx.facts
    ctx.note_fn(CLEAR, "draw_table::DrawTable::new")
    if f.has_body(CLEAR):
        b = f.body(CLEAR)
        ex = Exprs(b)
        ok = False
        for bb, t in b.iter_calls():
            c = callee_of(t) or ""
            if c.endswith("HashMap::<K, V, S, A>::clear"):
                a = strip_refs(ex.call_args(bb)[0])
                ok = a[0] == "field" and a[2] == "table"
        rets = b.return_blocks()
        clr = {bb for bb, t in b.iter_calls() if (callee_of(t) or "").endswith("HashMap::<K, V, S, A>::clear")}
        ok = ok and bool(rets) and all(not b.reaches(0, r, removed_nodes=clr) or 0 in clr for r in rets)
        ctx.ob("DrawTable::clear", ok, b.file, "clear() empties self.table on every path")
    else:
        # no clear() method at all: nothing can rely on it; resets are then fresh tables (new(), below),
        # and R10.1 still demands a reset per `position` command
        ctx.ob("DrawTable::clear", True, "src/draw_table.rs", "there is no clear() method; the table is reset by replacing it with DrawTable::new()", nontrivial=False)
    nb = f.body("draw_table::DrawTable::new")
    ok = any((callee_of(t) or "").endswith("HashMap::<K, V>::new") or (callee_of(t) or "").endswith("::new") for _, t in nb.iter_calls())
    ctx.ob("DrawTable::new", ok, nb.file, "new() starts from an empty map")


def r10_6(ctx):
    """Every search node consults the repetition record before it is evaluated in any way: no path
    from entry to a return avoids the test, except the clock abort."""
    f = ctx.facts
    b = f.body(ABS)
    ctx.note_fn(ABS)
    ex = Exprs(b)
    tests = {bb for bb, t in b.iter_calls(callee=IS3)}
    from .search import ot_edges
    # the expired edge of the clock test, also when the test goes through a named / composed boolean
    abort_edges = {(s, tg) for s, tg, truth, cb, fresh, lastdefs, own in ot_edges(b, ex, own_only=False) if truth is True}
    rets = b.return_blocks()
    bad = [r for r in rets if b.reaches(0, r, removed_nodes=tests, removed_edges=abort_edges)]
    where = b.file
    detail = "every non-aborted path through a node passes is_threefold_repetition(board)"
    if bad:
        # name an exit that avoids the test: an assignment to the return place reachable without it
        reach = b.reach_from(0, tests, abort_edges)
        for loc, st in b.iter_stmts():
            if st["k"] == "assign" and st["place"]["local"] == 0 and loc[0] in reach:
                where = b.where(loc)
                break
        for bb2, t2 in b.iter_calls():
            if t2["dest"]["local"] == 0 and bb2 in reach:
                where = b.where(b.term_loc(bb2))
        detail = "a node can be scored without consulting the repetition record (e.g. at the search horizon): a move into a third occurrence is then not valued as a draw"
    ctx.ob("alpha_beta_search:repetition-test-on-every-node", not bad and bool(tests), where, detail)
    # ... and the answer "this is a repetition" is scored as a draw: every value stored to the return place
    # in the region that edge dominates is the constant 0 (the property: "valued as a draw", and the final
    # score of the side that has such a move is never below zero - a small positive or negative "contempt"
    # for the side to move is a negative score for the other)
    nz = 0
    for tb in sorted(tests):
        tt = b.term(tb)
        res = tt["dest"]["local"] if not tt["dest"]["proj"] else None
        for s_ in b.normal:
            if s_ not in b.reachable or b.term(s_)["k"] != "switch":
                continue
            d = ex.switch_discr(s_)
            neg = False
            while d[0] == "un" and d[1] == "Not":
                d, neg = d[2], not neg
            if not (d[0] == "call" and d[1] == IS3 and d[3] == b.term_loc(tb)):
                continue
            st = b.term(s_)
            true_t = [tg for v, tg in st["cases"] if v != 0] + ([st["otherwise"]] if all(v == 0 for v, _ in st["cases"]) else [])
            false_t = [tg for v, tg in st["cases"] if v == 0]
            rep_t = false_t if neg else true_t
            for tg in rep_t:
                vals = []
                for loc, stt in b.iter_stmts():
                    if stt["k"] == "assign" and stt["place"]["local"] == 0 and not stt["place"]["proj"] and (loc[0] == tg and len(b.pred.get(tg, [])) == 1 or b.edge_dominates((s_, tg), loc[0])):
                        vals.append((loc, ex.rvalue(stt["rv"], loc)))
                for bb2, t2 in b.iter_calls():
                    if t2["dest"]["local"] == 0 and not t2["dest"]["proj"] and b.edge_dominates((s_, tg), bb2):
                        vals.append((b.term_loc(bb2), ("call", callee_of(t2) or "?", (), None)))
                nz += 1
                badv = [(loc, v) for loc, v in vals if v != ("const", 0)]
                ctx.ob("alpha_beta_search:repetition-scored-as-draw", bool(vals) and not badv, b.where(badv[0][0]) if badv else b.where(b.term_loc(s_)),
                       "on the repetition edge the node returns %s" % ("the constant 0" if vals and not badv else
                                                                       "`%s`: a third occurrence is not valued as a draw" % (show_expr(badv[0][1], b)[:60] if badv else "nothing recognisable")))
    ctx.floor("repetition edges in the search", nz, 1)


def r10_8(ctx):
    """`go` leaves the session's repetition record untouched: find_and_play_best_move only clones it."""
    f = ctx.facts
    b = f.body("uci::find_and_play_best_move")
    ctx.note_fn("uci::find_and_play_best_move")
    # the record is borrowed from the session: `&mut DrawTable`, or `&DrawTable` (which cannot be written through at all)
    tp = [i for i in range(1, b.arg_count + 1) if b.local_ty(i) in ("&mut draw_table::DrawTable", "&draw_table::DrawTable")]
    if len(tp) != 1:
        raise ShapeNotRecognised("find_and_play_best_move(.., draw_table: &[mut] DrawTable)")
    uses = []
    for bb, t in b.iter_calls():
        for a in t["args"]:
            al = operand_alias(b, a)
            if al and al[0] == tp[0]:
                uses.append((bb, callee_of(t) or "?"))
    for loc, st in b.iter_stmts():
        if st["k"] == "assign" and st["place"]["local"] == tp[0] and st["place"]["proj"]:
            uses.append((loc[0], "direct write"))
    # ... and in the command loop nothing but `clear` and the rebuild by play_out_position writes the
    # session's record (a `go` arm that also records the position it played changes what the next `go`
    # without a `position` sees, and the counters of a finished game grow with every `go`)
    if f.has_body(LOOP_FN):
        lb = f.body(LOOP_FN)
        ctx.note_fn(LOOP_FN)
        for T in _session_table_places(lb):
            writers = []
            for bb, t in lb.iter_calls():
                c = callee_of(t) or ""
                for i, a in enumerate(t["args"]):
                    if not _is_place_arg(lb, a, T):
                        continue
                    arg_ty = t["arg_tys"][i] if i < len(t.get("arg_tys", [])) else ""
                    if not arg_ty.startswith("&mut "):
                        continue
                    if c in (POP, "uci::find_and_play_best_move") or c.endswith("::clear"):
                        continue
                    writers.append((bb, c))
            ctx.ob("command-loop:record-written-only-by-position", not writers, lb.where(lb.term_loc(writers[0][0])) if writers else lb.file,
                   "the session's repetition record is written only by clear/play_out_position%s" % (
                       "" if not writers else ": also by `%s`" % writers[0][1]))
    bad = [(bb, c) for bb, c in uses if not c.endswith("DrawTable as std::clone::Clone>::clone")]
    ctx.ob("find_and_play_best_move:record-only-cloned", not bad and bool(uses), b.where(b.term_loc(bad[0][0])) if bad else b.file,
           "the repetition record is used by: %s; only a clone may leave this function, otherwise a second `go` without a new `position` searches with a changed record" % sorted({c.split("::")[-1] for _, c in uses}))
