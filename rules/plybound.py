"""R7.7 (C07 "nothing panics", C08 "stays responsive"): the per-ply search tables are indexed inside
their bounds.

`search::Search` keeps three arrays of MAX_DEPTH entries indexed by `ply_from_root`.  The ply grows by
one per move and by ten per null move, while the remaining depth only bounds the *number* of calls,
so nothing but an explicit test keeps the ply below the array length.  The argument decided here is
inductive over the call tree of the search:

  (base)  get_best_move passes a constant ply >= 0;
  (step)  in alpha_beta_search, assuming the ply parameter is >= 0, interval analysis shows
          (a) every compiler-inserted bounds check of an array index in alpha_beta_search and in the
              `Search` methods it calls (analysed in the calling context) holds, and
          (b) every recursive call passes a ply >= 0 that does not overflow i32.

(a) needs a test `ply < MAX_DEPTH` on the way to each index; without one the index interval is
unbounded above and the obligation fails, naming the indexing site."""
from wa.mir import AnchorMissing, ShapeNotRecognised, callee_of
from wa.absint import Intervals

ABS = "engine::alpha_beta_search"
GBM = "engine::get_best_move"
QUIESCE = "engine::quiesce"
I32_MAX = 2 ** 31 - 1


def _ply_param(b):
    ps = [i for i in range(1, b.arg_count + 1) if b.local_ty(i) == "i32" and b.names.get(i, "").startswith("ply")]
    if len(ps) != 1:
        ps = [i for i in range(1, b.arg_count + 1) if b.local_ty(i) == "i32"]
        # (start, time, board, depth, ply, alpha, beta, ..): the ply is the first i32 parameter
        ps = ps[:1]
    if len(ps) != 1:
        raise ShapeNotRecognised("alpha_beta_search: no i32 ply parameter")
    return ps[0]


def _callee_param_index(f, callee, caller_ply_hint="ply"):
    cb = f.body(callee)
    return _ply_param(cb)


def r7_7(ctx):
    f = ctx.facts
    if not f.has_body(ABS) or not f.has_body(GBM):
        raise AnchorMissing(ABS)
    b = f.body(ABS)
    ctx.note_fn(ABS, GBM)
    ply = _ply_param(b)
    iv = Intervals(b, arg_intervals={ply: (0, I32_MAX)})
    # (a) bounds checks in alpha_beta_search itself
    n = 0
    k = 0
    for bb in sorted(b.normal):
        if bb not in b.reachable:
            continue
        t = b.term(bb)
        if t["k"] == "assert" and t["assert_kind"] == "bounds":
            n += 1
            k += 1
            ok, d = iv.assert_holds(bb)
            ctx.ob("alpha_beta_search:index#%d" % k, ok, b.where(b.term_loc(bb)),
                   ("A: %s" % d) if ok else "`%s`: %s — with ply_from_root only known to be >= 0 this index can exceed the table; the search thread panics once a line gets that long (null-move ply offset, check extensions)" % (
                       b.text_at(b.term_loc(bb))[:70], d))
    # (a') bounds checks in the callees analysed in their calling contexts (Search::insert_*)
    by_callee = {}
    for (callee, _c), sub in iv.sub_analyses.items():
        by_callee.setdefault(callee, []).append(sub)
    for callee in sorted(by_callee):
        cb = f.body(callee)
        if not callee.startswith("search::"):
            continue
        ctx.note_fn(callee)
        kk = 0
        for bb in sorted(cb.normal):
            if bb not in cb.reachable:
                continue
            t = cb.term(bb)
            if t["k"] == "assert" and t["assert_kind"] == "bounds":
                n += 1
                kk += 1
                res = [s.assert_holds(bb) for s in by_callee[callee]]
                ok = all(r[0] for r in res)
                bad = [r[1] for r in res if not r[0]]
                ctx.ob("%s:index#%d" % (callee.split("::")[-1], kk), ok, cb.where(cb.term_loc(bb)),
                       ("A: %s (in %d calling contexts)" % (res[0][1], len(res))) if ok else "`%s`: %s in a calling context of alpha_beta_search" % (cb.text_at(cb.term_loc(bb))[:70], bad[0]))
    ctx.floor("array index checks in the search", n, 4)
    # (b) recursive calls keep the ply >= 0 and inside i32
    nc = 0
    for bb, t in b.iter_calls(callee=ABS):
        nc += 1
        st = iv.state_at(b.term_loc(bb))
        if st is None:
            continue
        a = t["args"][ply - 1]
        r = iv.operand_iv(st, a)
        ok = r[0] >= 0 and r[1] <= I32_MAX
        ctx.ob("alpha_beta_search:recursive-call#%d:ply" % nc, ok, b.where(b.term_loc(bb)), "ply passed down is in [%s, %s]" % (r[0], r[1]))
    ctx.floor("recursive search calls", nc, 2)
    # the arithmetic that computes the ply handed down does not overflow: every overflow check on the
    # definition chain of a recursive call's ply argument is discharged
    chain = {ply}
    for bb, t in b.iter_calls(callee=ABS):
        a = t["args"][ply - 1]
        if a.get("k") in ("copy", "move"):
            chain.add(a["place"]["local"])
    changed = True
    while changed:
        changed = False
        for loc, st in b.iter_stmts():
            if st["k"] == "assign" and st["place"]["local"] in chain and st["place"]["local"] != ply:
                import json as _j
                for m in __import__("re").finditer(r'"local": (\d+)', _j.dumps(st["rv"])):
                    l = int(m.group(1))
                    if l not in chain and b.local_ty(l) in ("i32", "(i32, bool)"):
                        chain.add(l)
                        changed = True
    ko = 0
    for bb in sorted(b.normal):
        t = b.term(bb)
        if bb in b.reachable and t["k"] == "assert" and t["assert_kind"].startswith("overflow"):
            ops = t["ops"]
            on_chain = any(o.get("k") in ("copy", "move") and not o["place"]["proj"] and o["place"]["local"] in chain for o in ops)
            # the assert guards `_t = CheckedOp(a, b)`; it is on the chain when its result is
            dst = None
            c = t.get("cond", {})
            if c.get("k") in ("copy", "move") and c["place"]["proj"]:
                dst = c["place"]["local"]
            if on_chain and (dst is None or dst in chain):
                ko += 1
                ok, d = iv.assert_holds(bb)
                ctx.ob("alpha_beta_search:ply-arithmetic#%d" % ko, ok, b.where(b.term_loc(bb)), d)
    # (base) the root
    g = f.body(GBM)
    giv = Intervals(g)
    ng = 0
    for bb, t in g.iter_calls(callee=ABS):
        ng += 1
        st = giv.state_at(g.term_loc(bb))
        if st is None:
            continue
        r = giv.operand_iv(st, t["args"][ply - 1])
        ctx.ob("get_best_move:root-call#%d:ply" % ng, r[0] >= 0 and r[1] <= I32_MAX, g.where(g.term_loc(bb)), "root ply in [%s, %s]" % (r[0], r[1]))
    ctx.floor("root search calls", ng, 1)
    # bounds checks at the root (cur_line[0] etc.)
    kg = 0
    for bb in sorted(g.normal):
        t = g.term(bb)
        if bb in g.reachable and t["k"] == "assert" and t["assert_kind"] == "bounds":
            kg += 1
            ok, d = giv.assert_holds(bb)
            if not ok:
                how = _first_element_inside_own_iteration(g, bb)
                if how:
                    ok, d = True, how
            ctx.ob("get_best_move:index#%d" % kg, ok, g.where(g.term_loc(bb)), d)
    by_callee = {}
    for (callee, _c), sub in giv.sub_analyses.items():
        if callee.startswith("search::"):
            by_callee.setdefault(callee, []).append(sub)
    for callee in sorted(by_callee):
        cb = f.body(callee)
        kk = 0
        for bb in sorted(cb.normal):
            t = cb.term(bb)
            if bb in cb.reachable and t["k"] == "assert" and t["assert_kind"] == "bounds":
                kk += 1
                res = [s.assert_holds(bb) for s in by_callee[callee]]
                bad = [r[1] for r in res if not r[0]]
                ctx.ob("get_best_move>%s:index#%d" % (callee.split("::")[-1], kk), not bad, cb.where(cb.term_loc(bb)),
                       bad[0] if bad else "%s (in %d calling contexts)" % (res[0][1], len(res)))


def _first_element_inside_own_iteration(g, bb):
    """`xs[0]` evaluated inside `for x in xs` (the fallback `moves[0]` in the loop over `moves`): the loop
    body runs only when the iterator yielded an element, so the collection is not empty.  Holds when the
    index is the constant 0 and the check is dominated by the `Some` edge of `next()` on an iterator over
    the collection whose length is tested (a shared borrow: it cannot shrink meanwhile)."""
    from wa.expr import Exprs
    from wa import loopform
    ex = Exprs(g)
    t = g.term(bb)
    loc = g.term_loc(bb)
    ops = [ex.operand(o, loc) for o in t.get("ops", [])]
    if len(ops) != 2 or ops[1] != ("const", 0) or ops[0][0] != "len":
        return None
    ty = None
    roots = set()
    for cand in ("std::vec::Vec<board::BoardState>",):
        r = loopform.receiver_roots(g, ex, ops[0][1], cand)
        if r:
            roots, ty = r, cand
    if not roots:
        return None
    for x, call, some, none in loopform.next_switches(g, ex):
        if some is None or not (some == bb or g.edge_dominates((x, some), bb)):
            continue
        if loopform.receiver_roots(g, ex, call, ty) & roots:
            return "I6: element 0 of `%s` inside the loop that iterates it (non-empty there)" % g.lname(sorted(roots)[0])
    return None


def r7_8(ctx):
    """Every value the search returns is negated by its caller (`-alpha_beta_search(..)`): a constant it
    returns - the abort sentinel, the draw score, a mate bound - must have a representable negation, and
    the sentinel must stay outside the score range in both signs."""
    from wa.expr import Exprs
    f = ctx.facts
    n = 0
    for fn in (ABS, QUIESCE):
        if not f.has_body(fn):
            raise AnchorMissing(fn)
        b = f.body(fn)
        ctx.note_fn(fn)
        ex = Exprs(b)
        k = 0
        for loc, st in b.iter_stmts():
            if st["k"] != "assign" or st["place"]["proj"] or loc[0] not in b.reachable:
                continue
            # return place, or a local that only carries the result to it
            l = st["place"]["local"]
            if l != 0 and not (b.local_ty(l) == "i32" and l not in b.names):
                continue
            e = ex.rvalue(st["rv"], loc)
            if e[0] != "const" or isinstance(e[1], bool) or not isinstance(e[1], int) or b.local_ty(l) != "i32":
                continue
            if l != 0:
                continue
            n += 1
            k += 1
            ok = -(2 ** 31) < e[1] <= 2 ** 31 - 1
            ctx.ob("%s:returned-constant#%d:negatable" % (fn.split("::")[-1], k), ok, b.where(loc),
                   "returns the constant %d; every caller negates the result%s" % (e[1], "" if ok else ": -(i32::MIN) overflows - the first abort inside the tree panics in a build with overflow checks and wraps to the same value otherwise"))
    ctx.floor("constants returned by the search", n, 1)


FAPBM = "uci::find_and_play_best_move"


def r8_5(ctx):
    """The `go` handler cannot die on its own arithmetic: every compiler-inserted panic check (overflow,
    bounds, division) in find_and_play_best_move and the closures it spawns is discharged by interval
    analysis.  Its waiting loop runs past the deadline whenever no move has arrived yet, so e.g.
    `allowance - elapsed` on unsigned values is exactly the subtraction that underflows there."""
    f = ctx.facts
    if not f.has_body(FAPBM):
        raise AnchorMissing(FAPBM)
    names = [FAPBM] + sorted(n for n in f.body_names() if n.startswith(FAPBM + "::{closure"))
    n = 0
    for fn in names:
        b = f.body(fn)
        ctx.note_fn(fn)
        iv = None
        k = 0
        for bb in sorted(b.normal):
            t = b.term(bb)
            if bb not in b.reachable or t["k"] != "assert":
                continue
            n += 1
            k += 1
            iv = iv or Intervals(b)
            ok, d = iv.assert_holds(bb)
            ctx.ob("%s:%s#%d" % (fn.split("::", 1)[-1], t["assert_kind"], k), ok, b.where(b.term_loc(bb)),
                   d if ok else "`%s`: %s - a debug build panics here and the engine dies without a bestmove; a release build wraps" % (b.text_at(b.term_loc(bb))[:70], d))
    # positive control: the matcher sees such checks where they exist (the go-argument parser has index arithmetic)
    pc = 0
    for fn in ("uci::parse_go_command", "uci::make_move"):
        if f.has_body(fn):
            b = f.body(fn)
            pc += sum(1 for bb in b.normal if bb in b.reachable and b.term(bb)["k"] == "assert")
    ctx.ob("matcher-sees-arithmetic-checks", pc >= 1, "", "positive control: %d panic checks visible in the argument parser / text applier; %d in the go handler" % (pc, n), reason="below-floor", nontrivial=False)


def r12_7(ctx):
    """The root searches every iteration with the full window: each bound handed to the root's
    alpha_beta_search calls is either a constant beyond the mate range or a variable whose value on entry to
    the move loop (its definitions outside that loop) is such a constant - inside the loop it is only raised
    by accepted scores (R7.1/R12.3).  A root window that starts narrower (an "aspiration" window around the
    last score) without a re-search on fail-low lets a refuted first-iteration favourite survive for ever."""
    from wa.expr import Exprs, subexprs, strip_refs, show_expr
    f = ctx.facts
    if not f.has_body(GBM) or not f.has_body(ABS):
        raise AnchorMissing(GBM)
    b = f.body(GBM)
    ctx.note_fn(GBM)
    ex = Exprs(b)
    ab = f.body(ABS)
    i32s = [i for i in range(1, ab.arg_count + 1) if ab.local_ty(i) == "i32"]
    # (ply, alpha, beta): the window is the 2nd and 3rd i32 parameter
    if len(i32s) < 3:
        raise ShapeNotRecognised("alpha_beta_search: (ply, alpha, beta) i32 parameters")
    wpos = i32s[1:3]
    try:
        mate = f.const_value("engine::MATE_SCORE")
        mate = mate if isinstance(mate, int) else 100000
    except Exception:
        mate = 100000
    loops = b.loops()
    n = 0
    for bb, t in sorted(b.iter_calls(callee=ABS)):
        inl = [h for h, body_ in loops.items() if bb in body_]
        if not inl:
            continue
        inner = loops[min(inl, key=lambda h: len(loops[h]))]
        args = ex.call_args(bb)
        for k, p in enumerate(wpos):
            e = args[p - 1]
            n += 1
            bad = None
            consts_ok = True
            for x in subexprs(e):
                if x[0] == "const" and isinstance(x[1], int) and not isinstance(x[1], bool) and abs(x[1]) > 1 and abs(x[1]) < mate:
                    consts_ok = False
                    bad = "a constant inside the mate range (%d)" % x[1]
                if x[0] != "var":
                    continue
                for dloc, kind in x[2]:
                    if kind == "entry" or not isinstance(dloc, tuple) or dloc[0] in inner:
                        continue
                    st = b.stmts(dloc[0])
                    de = ex.rvalue(st[dloc[1]]["rv"], dloc) if dloc[1] < len(st) else ex.call_expr(b.term(dloc[0]), dloc)
                    de = strip_refs(de)
                    if not (de[0] == "const" and isinstance(de[1], int) and abs(de[1]) >= mate):
                        bad = "`%s` starts the move loop as `%s` (%s)" % (b.lname(x[1]), show_expr(de, b)[:50], b.where(dloc))
            ctx.ob("get_best_move:root-call#%d:%s:full-window" % (n // 2 + n % 2, "alpha" if k == 0 else "beta"), bad is None and consts_ok, b.where(b.term_loc(bb)),
                   "root window bound `%s`: %s" % (show_expr(e, b)[:50], "a constant beyond the mate range / a variable reset to one before every pass over the root moves" if bad is None else
                                                  bad + ": the root window is narrower than (-inf, +inf) at the start of an iteration and nothing re-searches when every move fails low"))
    ctx.floor("root window bounds examined", n, 2)
