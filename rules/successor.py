"""Successor typestate (DESIGN §C02): R1.1 legality gate, R2.1 move descriptor written, R2.2 one
side swap, R2.3 ep target resolved, and the EpClear part of R5.2.

Every `BoardState` local created by `clone()` inside the generator cone is tracked from its
creation to every *publish* (`Vec<BoardState>::push(move L)` or hand-over `f(&L, ..)` to a
producer that clones its parameter).  State = (swaps, last_move_set, promo_set, ep_resolved,
ep_cleared, gate)."""
from collections import namedtuple

from wa.mir import AnchorMissing, ShapeNotRecognised, operand_alias, callee_of
from wa.expr import Exprs, show_expr, root_local, strip_refs
from wa.flow import forward_states
from wa.cond import canon


def _ck(terms):
    """Affine-form terms keyed without reference/dereference nodes (for comparison only)."""
    return {canon(k): v for k, v in terms.items()}


CLONE = "<board::BoardState as std::clone::Clone>::clone"
PUSH_SUFFIX = "Vec::<T, A>::push"
SWAP = "board::BoardState::swap_color"
UNSET_EP = "board::BoardState::unset_pawn_double_move"
MOVE_PIECE = "board::BoardState::move_piece"
TAKE_AWAY = "board::BoardState::take_away_castling_rights"
IS_CHECK = "move_generation::is_check"
IS_CHECK_CORDS = "move_generation::is_check_cords"
CAN_CASTLE = "move_generation::can_castle"
GEN_ROOT = "move_generation::generate_moves"

St = namedtuple("St", "swaps last_move promo ep_resolved ep_cleared gate sqw pub wv")
FRESH = St(0, False, False, False, False, False, 0, 0, frozenset())


def cone(facts, root):
    """Crate-local functions reachable from `root` through resolved calls and closure arguments."""
    seen, st = set(), [root]
    while st:
        f = st.pop()
        if f in seen or not facts.has_body(f):
            continue
        seen.add(f)
        b = facts.body(f)
        for bb, t in b.iter_calls():
            for n in (t.get("resolved"), t.get("callee")):
                if n and facts.has_body(n):
                    st.append(n)
            for c in t.get("closure_args", []):
                st.append(c)
    return seen


def _move_chain(b, L):
    """[L, X1, X2, ..]: locals the value created in L is moved through wholesale (`X = move Y`, X having
    no other definition)."""
    chain = [L]
    ty = b.local_ty(L)
    changed = True
    while changed:
        changed = False
        for loc, st in b.iter_stmts():
            if st["k"] != "assign" or st["place"]["proj"] or st["rv"]["k"] != "use":
                continue
            op = st["rv"]["op"]
            x = st["place"]["local"]
            if op["k"] != "move" or op["place"]["proj"] or op["place"]["local"] != chain[-1] or x in chain or b.local_ty(x) != ty:
                continue
            whole = [1 for l2, k in b.reaching().all_sites(x) if k == "whole"]
            if len(whole) == 1:
                chain.append(x)
                changed = True
                break
    return chain


class Site:
    """One clone site: the tracked local and what happens to it."""

    def __init__(self, an, body, ex, bb, L):
        self.an, self.b, self.ex, self.bb = an, body, ex, bb
        # the object may be handed from local to local by plain moves (`let nb = helper(board)` with the
        # helper inlined: its own local, its return place, the caller's local): one object, several names
        self.Ls = _move_chain(body, L)
        named = [x for x in self.Ls if x in body.names]
        L = named[-1] if named else self.Ls[-1]
        self.L = L
        self.loc = body.term_loc(bb)
        t = body.term(bb)
        src = operand_alias(body, t["args"][0])
        self.src_local = src[0] if src else None          # the parent the clone is taken from
        self.name = "%s:%s@%d" % (body.name.split("::")[-1], body.lname(L), self.ordinal())
        self.events = {}      # loc -> list of events
        self.gate_edges = {}  # (bb, succ) -> color expr
        self.publishes = []   # (loc, kind, callee)
        self.wrappers, self.wdefs = {}, {}
        self._collect()
        self._collect_wrappers()

    def ordinal(self):
        # n-th clone site in the function, in block order (stable under line shifts)
        sites = sorted(bb for bb, t in self.b.iter_calls(callee=CLONE))
        return sites.index(self.bb)

    def _collect(self):
        b, ex, L = self.b, self.ex, self.L
        Ls = set(self.Ls)
        for loc, st in b.iter_stmts():
            if st["k"] == "assign" and st["place"]["local"] in Ls and st["place"]["proj"]:
                path = tuple(e.get("name", e["k"]) for e in st["place"]["proj"])
                self.events.setdefault(loc, []).append(("write", path, ex.rvalue(st["rv"], loc)))
            elif st["k"] == "assign" and st["place"]["proj"] and st["place"]["proj"][0]["k"] == "deref" and st["place"]["local"] not in Ls:
                # a write through a pointer to the object (`(*p).field = v` with `p = &mut L`: the body of
                # an inlined `&mut self` helper)
                from wa.mir import alias_of as _ao
                r, mode, pr0 = _ao(b, st["place"]["local"])
                if r in Ls and mode == "ref":
                    pj = list(pr0) + list(st["place"]["proj"][1:])
                    if pj:
                        path = tuple(e.get("name", e["k"]) for e in pj)
                        self.events.setdefault(loc, []).append(("write", path, ex.rvalue(st["rv"], loc)))
        for bb, t in b.iter_calls():
            loc = b.term_loc(bb)
            callee = callee_of(t)
            for i, a in enumerate(t["args"]):
                al = operand_alias(b, a)
                if al is not None and al[0] in Ls:
                    al = (L, al[1], al[2])
                if al is not None and al[0] != L and not al[2]:
                    # the object may have been moved into another local (out of the `Option` a helper
                    # handed it back in): a reference to / move of that local is one of the object
                    from wa.mir import alias_of as _ao
                    r2 = _ao(b, al[0])
                    if r2[1] == "val" and not r2[2] and r2[0] in Ls and al[0] != L:
                        al = (L, al[1], al[2])
                if al is None or al[0] != L:
                    continue
                root, mode, proj = al
                if mode == "ref" and not proj:
                    self.events.setdefault(loc, []).append(("call", callee, i))
                    arg_ty = t["arg_tys"][i] if i < len(t.get("arg_tys", [])) else ""
                    if arg_ty.startswith("&mut ") and callee not in (SWAP, UNSET_EP, MOVE_PIECE, TAKE_AWAY) and self.b.facts.has_body(callee or ""):
                        self.an.unmodelled.add((self, loc, callee))
                    if (i + 1) in self.an.clones_param.get(callee, ()):
                        self.publishes.append((loc, "delegate", (callee, i + 1)))
                elif mode == "val":
                    self.events.setdefault(loc, []).append(("moved", callee, i))
                    if callee and callee.endswith(PUSH_SUFFIX):
                        self.publishes.append((loc, "push", callee))
            # publishing a copy of the tracked object (`v.push(L.clone())`) publishes its state too
            if callee and callee.endswith(PUSH_SUFFIX) and len(t["args"]) == 2:
                e = strip_refs(ex.operand(t["args"][1], loc))
                if e[0] == "call" and e[1] == CLONE and root_local(e[2][0]) in Ls and strip_refs(e[2][0])[0] == "var":
                    self.events.setdefault(loc, []).append(("moved", callee, 1))
                    if (loc, "push", callee) not in self.publishes:
                        self.publishes.append((loc, "push", callee))
        # gate edges: switch on is_check(&L, c)
        for bb in b.normal:
            t = b.term(bb)
            if t["k"] != "switch":
                continue
            d = ex.switch_discr(bb)
            neg = False
            while d[0] == "un" and d[1] == "Not":
                d, neg = d[2], not neg
            if d[0] == "call" and d[1] == IS_CHECK_CORDS and len(d[2]) == 3 and self._probes_own_king(bb, d):
                # `is_check_cords(&L, c, sq)` with sq proved to be c's cached king square on L: the same gate
                d = ("call", IS_CHECK, (d[2][0], d[2][1]), d[3] if len(d) > 3 else None)
            if d[0] == "call" and d[1] == IS_CHECK and len(d[2]) == 2:
                r = d[2][0]
                if r[0] == "ref" and root_local(r) in Ls and strip_refs(r)[0] == "var":
                    false_targets = [tg for v, tg in t["cases"] if v == 0]
                    true_target = t["otherwise"]
                    if neg:
                        continue  # not an idiom of this code base; treated as no gate
                    for tg in false_targets:
                        if tg != true_target:
                            self.gate_edges[(bb, tg)] = d[2][1]

    def _probes_own_king(self, gbb, d):
        """The square probed by `is_check_cords(&L, c, sq)` at block gbb is L's cached king square of the
        mover's colour: on the body specialised per (colour, king move or not) it equals the value stored
        in that cache on L, or - when L's cache is not written - the parent's cache."""
        from wa.cond import specialise, canon
        b, f = self.b, self.b.facts
        r = d[2][0]
        if not (r[0] == "ref" and root_local(r) in set(self.Ls) and strip_refs(r)[0] == "var") or self.src_local is None:
            return False
        pp = [i for i in range(1, b.arg_count + 1) if b.local_ty(i) == "board::Piece"]
        if len(pp) != 1:
            return False
        kind_e = ("field", ("arg", pp[0]), "kind")
        col_e = ("field", ("arg", pp[0]), "color")
        if canon(d[2][1]) != canon(col_e):
            return False
        kinds = f.enum_variant_by_discr("board::PieceKind")
        colours = f.enum_variant_by_discr("board::PieceColor")
        Ls = set(self.Ls)
        for colour in sorted(colours.values()):
            fld = "%s_king_location" % colour.lower()
            for khyp in (("eq", "King"), ("ne", "King")):
                b2, ex2, _dead = specialise(b, {col_e: ("eq", colour), kind_e: khyp}, {col_e: colours, kind_e: kinds})
                if gbb not in b2.reachable:
                    continue
                sq = ex2.call_args(gbb) if b2.term(gbb)["k"] == "call" else None
                if sq is None:
                    # the probe call is the definition of the switch operand: find it
                    for cb, ct in b2.iter_calls(callee=IS_CHECK_CORDS):
                        if cb in b2.reachable and (cb == gbb or b2.reaches(cb, gbb)):
                            a = ex2.call_args(cb)
                            if root_local(a[0]) in Ls:
                                sq = a
                if sq is None or len(sq) != 3:
                    return False
                sq = sq[2]
                stored = []
                for loc, st in b2.iter_stmts():
                    if st["k"] == "assign" and st["place"]["local"] in Ls and st["place"]["proj"] and st["place"]["proj"][0].get("name") == fld \
                            and len(st["place"]["proj"]) == 1 and loc[0] in b2.reachable and (loc[0] == gbb or b2.reaches(loc[0], gbb)):
                        stored.append(ex2.rvalue(st["rv"], loc))
                if stored:
                    if any(canon(v) != canon(sq) for v in stored):
                        return False
                else:
                    parent = ("field", ("deref", ("arg", self.src_local)), fld)
                    if canon(sq) != canon(parent):
                        return False
        return True

    def _collect_wrappers(self):
        """Path correlation through wrapper values: a helper that hands the successor back as
        `Option<BoardState>` assigns `Some(L)` on one path and `None` on another, and the caller
        branches on the discriminant.  The variant last stored in the wrapper is part of the typestate
        and refutes the caller's edge for the other variant (otherwise the state of the `None` path would
        reach the publish behind `Some`)."""
        from wa.mir import alias_of
        b = self.b
        self.wrappers = {}   # switch bb -> (R, {succ: set(discriminant values) or None for otherwise})
        self.wdefs = {}      # loc -> (R, variant index or None)
        roots = set()
        for bb in b.normal:
            t = b.term(bb)
            if bb not in b.reachable or t["k"] != "switch" or t["discr"].get("k") not in ("copy", "move"):
                continue
            dl = t["discr"]["place"]["local"]
            # the switch operand is `_d = discriminant(X)`
            defs = [(loc, k) for loc, k in b.reaching().all_sites(dl) if k == "whole"]
            if len(defs) != 1:
                continue
            (dbb, di), _ = defs[0]
            st = b.stmts(dbb)
            if di >= len(st) or st[di]["rv"]["k"] != "discr" or st[di]["rv"]["place"]["proj"]:
                continue
            X = st[di]["rv"]["place"]["local"]
            R = alias_of(b, X)
            if R[1] != "val" or R[2]:
                continue
            R = R[0]
            listed = [v for v, _ in t["cases"]]
            edges = {}
            for v, tg in t["cases"]:
                edges.setdefault(tg, set()).add(v)
            edges.setdefault(t["otherwise"], set())
            self.wrappers[bb] = (R, edges, listed, t["otherwise"])
            roots.add(R)
        for loc, st in b.iter_stmts():
            if st["k"] == "assign" and not st["place"]["proj"] and st["place"]["local"] in roots:
                rv = st["rv"]
                vi = rv.get("vi") if rv["k"] == "aggregate" and rv.get("agg") == "adt" else None
                self.wdefs[loc] = (st["place"]["local"], vi)
        for bb, t in b.iter_calls():
            if not t["dest"]["proj"] and t["dest"]["local"] in roots:
                self.wdefs[b.term_loc(bb)] = (t["dest"]["local"], None)

    def step(self, loc, s):
        wd = self.wdefs.get(loc)
        if wd is not None:
            R, vi = wd
            s = s._replace(wv=frozenset([x for x in s.wv if x[0] != R] + ([(R, vi)] if vi is not None else [])))
        for ev in self.events.get(loc, ()):
            k = ev[0]
            if k == "call":
                c = ev[1]
                if c == SWAP:
                    s = s._replace(swaps=min(s.swaps + 1, 3))
                elif c == UNSET_EP:
                    s = s._replace(ep_resolved=True, ep_cleared=True)
                elif c == MOVE_PIECE:
                    if s.gate == "is_check":
                        s = s._replace(gate=False)
            elif k == "moved":
                if ev[1] and ev[1].endswith(PUSH_SUFFIX):
                    if s.pub >= 1:
                        self.an.double_publish.add((self, loc))
                    s = s._replace(pub=min(s.pub + 1, 2))
            elif k == "write":
                f = ev[1][0]
                if f == "last_move":
                    s = s._replace(last_move=True)
                elif f == "pawn_promotion":
                    s = s._replace(promo=True)
                elif f == "pawn_double_move":
                    rv = ev[2]
                    is_none = rv[0] == "agg" and rv[2] == "None"
                    if not is_none and not s.ep_cleared:
                        self.an.ep_set_unclear.add((self, loc))
                    self.an.ep_sets.add((self, loc))
                    s = s._replace(ep_resolved=True, ep_cleared=is_none)
                elif f == "board":
                    rv = ev[2]
                    empties = rv[0] == "agg" and rv[2] == "Empty"
                    if empties and s.gate == "is_check":
                        s = s._replace(gate=False)
                    if s.sqw >= 1:
                        self.an.second_square_write.add((self, loc))
                    s = s._replace(sqw=min(s.sqw + 1, 2))
        return [s]

    def edge_step(self, bb, succ, s):
        w = self.wrappers.get(bb)
        if w is not None:
            R, edges, listed, otherwise = w
            cur = dict(s.wv).get(R)
            if cur is not None:
                vals = edges.get(succ, set())
                feasible = (cur in vals) or (succ == otherwise and cur not in listed)
                if not feasible:
                    return []
        if (bb, succ) in self.gate_edges:
            s = s._replace(gate="is_check")
        return [s]


class SuccessorAnalysis:
    def __init__(self, facts):
        self.facts = facts
        self.cone = cone(facts, GEN_ROOT)
        if GEN_ROOT not in self.cone:
            raise AnchorMissing("generator root %s not found" % GEN_ROOT)
        # producers: functions in the generator cone that clone a BoardState
        self.producers = {}
        for f in sorted(self.cone):
            b = facts.body(f)
            sites = [(bb, t) for bb, t in b.iter_calls(callee=CLONE)]
            if sites:
                self.producers[f] = b
        # delegates: producers that clone one of their own `&BoardState` parameters and are called
        # with a reference to another producer's clone
        self.clones_param = {}
        for f, b in self.producers.items():
            for bb, t in b.iter_calls(callee=CLONE):
                al = operand_alias(b, t["args"][0])
                if al and al[1] == "val" and 1 <= al[0] <= b.arg_count:
                    self.clones_param.setdefault(f, set()).add(al[0])
        self.sites = []
        self.ep_sets = set()
        self.ep_set_unclear = set()
        self.second_square_write = set()
        self.double_publish = set()
        self.unmodelled = set()
        self.results = {}   # site -> (before, at_return)
        self.delegate_inits = {}  # callee -> set of states at hand-over
        self._run()

    def _sites_of(self, f):
        b = self.producers[f]
        ex = Exprs(b)
        out = []
        for bb, t in sorted(b.iter_calls(callee=CLONE)):
            d = t["dest"]
            if d["proj"]:
                raise ShapeNotRecognised("clone into a projection in %s" % f)
            site = Site(self, b, ex, bb, d["local"])
            if site.src_local is not None and b.local_ty(site.src_local) == "board::BoardState":
                # a copy of a successor under construction (`v.push(L.clone())`): the publish is
                # attributed to L itself, the temporary copy is not a successor of its own
                continue
            out.append(site)
        return out

    def _precondition_gate(self, site):
        """Castling idiom: the clone is dominated by the true edge of `can_castle(parent, T)`."""
        b, ex = site.b, site.ex
        for bb in b.normal:
            t = b.term(bb)
            if t["k"] != "switch":
                continue
            d = ex.switch_discr(bb)
            if d[0] == "call" and d[1] == CAN_CASTLE:
                tgt = t["otherwise"]
                if tgt in [x for _, x in t["cases"]]:
                    continue
                if b.edge_dominates((bb, tgt), site.bb):
                    # and no later can_castle switch in between that could re-route: dominance is enough
                    return d
        return None

    def _run(self):
        facts = self.facts
        all_sites = {f: self._sites_of(f) for f in self.producers}
        # callers first, delegates after (one level of hand-over is what the code base has; a
        # deeper chain is handled by iterating until no new hand-over states appear)
        delegated = {c for f in all_sites for s in all_sites[f] for _, k, c in s.publishes if k == "delegate"}
        dfuncs = {c[0] for c in delegated}
        order = [f for f in all_sites if f not in dfuncs] + [f for f in all_sites if f in dfuncs]
        for rnd in range(3):
            changed = False
            for f in order:
                for site in all_sites[f]:
                    inits = set()
                    if (f, site.src_local) in delegated:
                        inits = set(self.delegate_inits.get((f, site.src_local), set()))
                        if not inits:
                            continue
                        # the delegate's clone is a new object: hash-wise it inherits the state
                    else:
                        g = self._precondition_gate(site)
                        inits = {FRESH._replace(gate="can_castle") if g is not None else FRESH}
                        site.pre_gate = g
                    before, at_ret = forward_states(site.b, site.loc, inits, site.step, site.edge_step)
                    self.results[site] = (before, at_ret, inits)
                    for loc, kind, callee in site.publishes:
                        if kind == "delegate":
                            sts = before.get(loc, set())
                            old = self.delegate_inits.setdefault(callee, set())
                            if not sts <= old:
                                old |= sts
                                changed = True
            if not changed:
                break
        self.sites = [s for f in order for s in all_sites[f]]

    def publish_states(self):
        """Yield (site, loc, kind, states) for every publish."""
        for site in self.sites:
            if site not in self.results:
                continue
            before = self.results[site][0]
            for loc, kind, callee in site.publishes:
                yield site, loc, kind, before.get(loc, set())


def get(ctx):
    f = ctx.facts
    if not hasattr(f, "_succ_an"):
        f._succ_an = SuccessorAnalysis(f)
    an = f._succ_an
    ctx.note_fn(*an.producers.keys())
    for site, loc, callee in sorted(an.unmodelled, key=lambda x: (x[0].name, x[1])):
        ctx.ob("%s:unmodelled-mutator:%s" % (site.name, callee.split("::")[-1]), False, site.b.where(loc),
               "the successor is handed mutably to `%s`, which is not one of the modelled helpers (swap_color, move_piece, take_away_castling_rights, unset_pawn_double_move): its effects on the successor are not analysed, so the typestate obligations cannot be decided" % callee,
               reason="shape-not-recognised")
    return an


def _fn(site):
    return site.b.name.split("::")[-1]


def _publish_rule(ctx, pred, what, final_only=True):
    an = get(ctx)
    n = 0
    for site, loc, kind, states in an.publish_states():
        if final_only and kind == "delegate":
            continue
        n += 1
        bad = [s for s in states if not pred(s)]
        ok = bool(states) and not bad
        ctx.ob("%s:%s:%s" % (site.name, kind, what), ok, site.b.where(loc),
               "publish `%s` of %s created at %s; states reaching it: %s" % (
                   site.b.text_at(loc)[:80], site.b.lname(site.L), site.b.where(site.loc),
                   sorted(set(bad or states))[:3]))
    return n


# ---- rules ------------------------------------------------------------------------------------
def r1_1(ctx):
    """Every published successor passed a legality gate for the mover's colour with no board
    mutation afterwards."""
    an = get(ctx)
    n = _publish_rule(ctx, lambda s: s.gate in ("is_check", "can_castle"), "gate")
    ctx.floor("publishes", n, 4)
    # the colour handed to the gate must be the mover's: rooted in parameters only
    ngates = 0
    for site in an.sites:
        b = site.b
        for (bb, tg), c in site.gate_edges.items():
            ngates += 1
            ce = strip_refs(c)
            ok = False
            if ce[0] == "field" and ce[2] == "color" and ce[1][0] == "arg" and \
                    b.local_ty(ce[1][1]) == "board::Piece":
                ok = True
            if ce[0] == "field" and ce[2] == "to_move" and strip_refs(ce[1])[0] == "arg" and \
                    strip_refs(ce[1])[1] == site.src_local:
                ok = True
            if ce[0] == "arg" and b.local_ty(ce[1]) == "board::PieceColor":
                ok = True  # colour parameter of the producer itself
            ctx.ob("%s:gate-colour" % site.name, ok, b.where(b.term_loc(bb)),
                   "is_check(&%s, %s): colour must be the mover's (piece.color / parent.to_move)" % (
                       b.lname(site.L), show_expr(c, b)))
    ctx.floor("is_check gates", ngates, 2)


def r2_1(ctx):
    """At every publish the move descriptor has been written: last_move and pawn_promotion."""
    n = _publish_rule(ctx, lambda s: s.last_move, "last_move")
    _publish_rule(ctx, lambda s: s.promo, "pawn_promotion")
    ctx.floor("publishes", n, 4)


def r2_2(ctx):
    """At every publish the side to move has been swapped exactly once."""
    n = _publish_rule(ctx, lambda s: s.swaps == 1, "swapped-once")
    ctx.floor("publishes", n, 4)


def r2_3(ctx):
    """At every publish the en-passant target has been resolved (cleared or set for this move)."""
    n = _publish_rule(ctx, lambda s: s.ep_resolved, "ep_resolved")
    ctx.floor("publishes", n, 4)


def r1_7(ctx):
    """No successor object is published twice (no duplicated move in the generated list)."""
    an = get(ctx)
    for site, loc in sorted(an.double_publish, key=lambda x: (x[0].name, x[1])):
        ctx.ob("%s:published-twice" % site.name, False, site.b.where(loc),
               "`%s`: this successor (created at %s) can already have been pushed on this path: the move appears twice in the list" % (site.b.text_at(loc)[:70], site.b.where(site.loc)))
    n = sum(len(s.publishes) for s in an.sites)
    ctx.ob("each-successor-published-once", not an.double_publish, "", "%d publish sites; no object is pushed twice on any path" % n, nontrivial=False)
    ctx.floor("publish sites", n, 4)


def r5_2_once(ctx):
    """A successor object receives at most one raw square write (the en-passant removal or the
    promotion): the XOR that accompanies it assumes what stood there when the object was created;
    re-using one object for several successors (a scratch board updated in a loop) breaks that."""
    an = get(ctx)
    n = sum(1 for site in an.sites for evs in site.events.values() for ev in evs if ev[0] == "write" and ev[1][0] == "board")
    for site, loc in sorted(an.second_square_write, key=lambda x: (x[0].name, x[1])):
        ctx.ob("%s:second-raw-square-write" % site.name, False, site.b.where(loc),
               "`%s` can execute twice on the same successor object (created at %s, outside this loop): the second time the square no longer holds the piece whose key is XORed out, so the keys of the later successors are wrong" % (
                   site.b.text_at(loc)[:70], site.b.where(site.loc)))
    ctx.ob("raw-square-writes-once-per-object", not an.second_square_write, "", "%d raw square writes on successors; each object is written at most once" % n, nontrivial=False)
    ctx.floor("raw square writes on successors", n, 1)


def r5_2_epclear(ctx):
    """An en-passant target may be set on a successor only after the inherited one was cleared."""
    an = get(ctx)
    for site, loc in sorted(an.ep_sets, key=lambda x: (x[0].name, x[1])):
        ok = (site, loc) not in an.ep_set_unclear
        ctx.ob("%s:W_ep(%s):EpClear" % (_fn(site), site.b.lname(site.L)), ok, site.b.where(loc),
               "`%s`: no unset_pawn_double_move on this successor since its creation" % site.b.text_at(loc)[:90])
    ctx.floor("ep-set sites in the generator", len(an.ep_sets), 1)


# ---- R2.4 corner <-> right: every successor whose move touches a rook home corner has lost that right
from wa.cond import refuted_edges, specialise
from . import chess


def _reach_publish(site, removed_nodes, removed_edges, start_edges=None):
    """Publishes (push / hand-over) reachable from the clone site (or from given edge targets)
    in the CFG without the removed nodes/edges."""
    b = site.b
    starts = [site.bb] if start_edges is None else start_edges
    seen = set()
    for st in starts:
        if st in removed_nodes:
            continue
        seen |= b.reach_from(st, removed_nodes, removed_edges)
    hits = []
    for loc, kind, callee in site.publishes:
        if loc[0] in seen and loc[0] != site.bb:
            hits.append((loc, kind))
    return hits


def castling_flag(right):
    return {"WhiteKingSide": "white_king_side_castle", "WhiteQueenSide": "white_queen_side_castle",
            "BlackKingSide": "black_king_side_castle", "BlackQueenSide": "black_queen_side_castle"}[right]


def r2_4(ctx):
    """For each rook home corner C with right V: no path from a successor's creation to its
    publication is consistent with `to == C` (resp. `from == C`, piece not a king) unless
    take_away_castling_rights(V) was applied to it; a king move removes both rights of its colour."""
    an = get(ctx)
    f = ctx.facts
    kinds = f.enum_variant_by_discr("board::PieceKind")
    colours = f.enum_variant_by_discr("board::PieceColor")
    n = 0
    for site in an.sites:
        b, ex, L = site.b, site.ex, site.L
        # the move this successor makes: arguments of move_piece(&mut L, from, to)
        mp = [(loc, ev) for loc, evs in site.events.items() for ev in evs if ev[0] == "call" and ev[1] == MOVE_PIECE and ev[2] == 0]
        takes = {}
        take_blocks = set()
        for loc, evs in site.events.items():
            for ev in evs:
                if ev[0] == "call" and ev[1] == TAKE_AWAY and ev[2] == 0:
                    take_blocks.add(loc[0])
                    v = strip_refs(ex.call_args(loc[0])[1])
                    if v[0] == "agg":
                        takes.setdefault(v[2], set()).add(loc[0])

        def takes_under(hyp, right):
            """(blocks that remove `right` on paths consistent with hyp, refuted edges): the right
            named at a call may be a value selected by the hypothesis (`match square {..}` in a
            helper), so it is read on the body specialised under the hypothesis."""
            b2, ex2, ref = specialise(b, hyp, variants)
            blocks = set()
            for bb in take_blocks:
                if bb not in b2.reachable:
                    continue
                v = strip_refs(ex2.call_args(bb)[1])
                if v[0] == "named":
                    v = v[2]
                if v[0] == "agg" and v[2] == right:
                    blocks.add(bb)
            return blocks, ref
        if not mp or not take_blocks:
            continue   # castling / promotion successors: rights handled by R2.6 / inherited
        if len(mp) != 1:
            continue   # castling successors move king and rook: their rights are R2.6's obligations
        args = ex.call_args(mp[0][0][0])
        frm, to = strip_refs(args[1]), strip_refs(args[2])
        # piece kind / colour expressions: fields of the Piece parameter
        pp = [i for i in range(1, b.arg_count + 1) if b.local_ty(i) == "board::Piece"]
        if len(pp) != 1:
            raise ShapeNotRecognised("%s: Piece parameter" % site.name)
        kind_e = ("field", ("arg", pp[0]), "kind")
        col_e = ("field", ("arg", pp[0]), "color")
        variants = {kind_e: kinds, col_e: colours}
        for corner, right in sorted(chess.CORNER_RIGHT.items()):
            r, c = chess.sq(corner)
            for role, pt in (("to", to), ("from", frm)):
                hyp = {("field", pt, "0"): ("eq", r), ("field", pt, "1"): ("eq", c)}
                # the right is still held by the parent (otherwise there is nothing to remove)
                if site.src_local is not None:
                    hyp[("field", ("deref", ("arg", site.src_local)), castling_flag(right))] = ("eq", True)
                if role == "from":
                    hyp[kind_e] = ("ne", ("King", "Pawn"))   # kings: own instance below; pawns never stand on a corner
                tk, ref = takes_under(hyp, right)
                hits = _reach_publish(site, tk, ref)
                n += 1
                ctx.ob("%s:%s==%s->%s" % (site.name, role, corner, right), not hits, b.where(hits[0][0]) if hits else b.where(site.loc),
                       "a successor whose move goes %s %s can be published%s without take_away_castling_rights(%s): the right outlives its rook" % (
                           role, corner, " at " + b.where(hits[0][0]) if hits else "", right) if hits else
                       "every path consistent with %s == %s (%d,%d) passes take_away_castling_rights(%s)" % (role, corner, r, c, right))
        for colour in ("White", "Black"):
            for right in [k for k, v in chess.RIGHT_COLOUR.items() if v == colour]:
                hyp = {kind_e: ("eq", "King"), col_e: ("eq", colour)}
                if site.src_local is not None:
                    hyp[("field", ("deref", ("arg", site.src_local)), castling_flag(right))] = ("eq", True)
                tk, ref = takes_under(hyp, right)
                hits = _reach_publish(site, tk, ref)
                n += 1
                ctx.ob("%s:king(%s)->%s" % (site.name, colour, right), not hits, b.where(hits[0][0]) if hits else b.where(site.loc),
                       "a %s king move can be published without removing %s" % (colour, right) if hits else
                       "every path consistent with a %s king move removes %s" % (colour, right))
    ctx.floor("corner/king right obligations", n, 12)


def _target_row_source(facts, to, mover, colours):
    """`to` is `(f(piece, row, col, ..) as Some).0` for a crate-local f: if, on f specialised to a piece of
    colour `mover`, every returned `Some(Point(r, c))` has r == <usize parameter k> + dir(mover), return
    the caller's expression for parameter k (the row one step behind the target as seen by the mover)."""
    from wa.linear import linear
    t = strip_refs(to)
    if not (t[0] == "field" and t[2] == "0" and t[1][0] == "downcast" and t[1][2] == "Some" and t[1][1][0] == "call"):
        return None
    call = t[1][1]
    if not facts.has_body(call[1]):
        return None
    cb = facts.body(call[1])
    pp = [i for i in range(1, cb.arg_count + 1) if cb.local_ty(i) == "board::Piece"]
    if len(pp) != 1:
        return None
    col_e = ("field", ("arg", pp[0]), "color")
    b2, ex2, _ = specialise(cb, {col_e: ("eq", mover)}, {col_e: colours})
    src = set()
    nsome = 0
    for loc, st in b2.iter_stmts():
        if st["k"] != "assign" or st["rv"]["k"] != "aggregate" or st["rv"].get("adt") != "std::option::Option" or st["rv"].get("variant") != "Some":
            continue
        if not b2.local_ty(st["place"]["local"]).startswith("std::option::Option<board::Point"):
            continue
        e = ex2.rvalue(st["rv"], loc)
        pt = strip_refs(e[3][0])
        if not (pt[0] == "agg" and pt[1] == "board::Point" and len(pt[3]) == 2):
            return None
        lr = linear(pt[3][0])
        if lr is None or len(lr[0]) != 1 or lr[1] != chess.PAWN[mover]["dir"]:
            return None
        (k, c), = lr[0].items()
        k = strip_refs(k)
        if c != 1 or k[0] != "arg":
            return None
        nsome += 1
        src.add(k[1])
    if nsome == 0 or len(src) != 1:
        return None
    k = next(iter(src))
    return strip_refs(call[2][k - 1])


def r2_7(ctx):
    """Move identity: last_move names exactly the move that move_piece made (same from/to values);
    the en-passant removal square is one step behind the target as seen by the mover; promote_pawn
    is handed (from, to) in that order and rewrites the to-square."""
    an = get(ctx)
    n = 0
    for site in an.sites:
        b, ex, L = site.b, site.ex, site.L
        mp = [(loc, ev) for loc, evs in site.events.items() for ev in evs if ev[0] == "call" and ev[1] == MOVE_PIECE and ev[2] == 0]
        lm = [(loc, ev) for loc, evs in site.events.items() for ev in evs if ev[0] == "write" and ev[1][0] == "last_move"]
        if len(mp) == 1 and len(lm) == 1:
            n += 1
            a = ex.call_args(mp[0][0][0])
            frm, to = strip_refs(a[1]), strip_refs(a[2])
            v = strip_refs(lm[0][1][2])
            ok = v[0] == "agg" and v[2] == "Some" and v[3][0][0] == "agg" and v[3][0][1] == "tuple" and \
                strip_refs(v[3][0][3][0]) == frm and strip_refs(v[3][0][3][1]) == to
            ctx.ob("%s:last_move-names-the-move" % site.name, ok, b.where(lm[0][0]),
                   "move_piece(%s, %s) and last_move = %s must name the same squares in the same order" % (show_expr(frm, b)[:30], show_expr(to, b)[:40], show_expr(v, b)[:80]))
            frm_ok = frm[0] == "arg" and b.local_ty(frm[1]) == "board::Point"
            ctx.ob("%s:moves-the-piece-it-was-called-for" % site.name, frm_ok, b.where(mp[0][0]), "from-square is the square of the piece being generated for")
            # ep removal
            emp = [(loc, ev) for loc, evs in site.events.items() for ev in evs if ev[0] == "write" and ev[1][0] == "board" and ev[2][0] == "agg" and ev[2][2] == "Empty"]
            if emp:
                colours = ctx.facts.enum_variant_by_discr("board::PieceColor")
                pp = [i for i in range(1, b.arg_count + 1) if b.local_ty(i) == "board::Piece"]
                from wa.linear import linear
                # per capturer colour: on the body specialised to that colour, every square emptied on
                # this successor is (target.row - dir, target.col) — whether the two colours are two
                # branches each with its own write, or one write of a square selected by `match color`
                col_e = ("field", ("arg", pp[0]), "color") if pp else None
                for mover in ("White", "Black"):
                    if col_e is None:
                        break
                    b2, ex2, ref = specialise(b, {col_e: ("eq", mover)}, {col_e: colours})
                    if site.bb not in b2.reachable:
                        continue
                    found = 0
                    okp = True
                    where = site.loc
                    for loc, ev in emp:
                        if loc[0] not in b2.reachable or not (loc[0] == site.bb or b2.reaches(site.bb, loc[0])):
                            continue
                        found += 1
                        where = loc
                        st = b.stmts(loc[0])[loc[1]]
                        idx = [ex2.local(e["local"], loc) for e in st["place"]["proj"] if e["k"] == "index"]
                        ok1 = False
                        if len(idx) == 2:
                            lr, lc = linear(idx[0]), linear(idx[1])
                            ok1 = lr is not None and lc is not None and _ck(lr[0]) == {canon(("field", to, "0")): 1} and lr[1] == -chess.PAWN[mover]["dir"] and _ck(lc[0]) == {canon(("field", to, "1")): 1} and lc[1] == 0
                            if not ok1 and lr is not None and lc is not None and _ck(lc[0]) == {canon(("field", to, "1")): 1} and lc[1] == 0 and lr[1] == 0 and len(lr[0]) == 1:
                                # "beside the capturer": the row is the row the target was computed from, and the
                                # function that computed the target returns (that row + dir, ..) for this colour
                                rel = _target_row_source(ctx.facts, to, mover, colours)
                                ok1 = rel is not None and _ck(lr[0]) == {canon(rel): 1}
                        okp = okp and ok1
                    ctx.ob("%s:ep-removes-the-passed-pawn:%s" % (site.name, mover), found > 0 and okp, b.where(where),
                           "the square emptied by the en-passant capture is (target.row %+d, target.col) for a %s capturer: one step behind the target%s" % (
                               -chess.PAWN[mover]["dir"], mover, "" if found else " — no square is emptied on the %s trace" % mover))
        elif not mp and lm:
            # promote_pawn: parameters (start, target)
            pts = [i for i in range(1, b.arg_count + 1) if b.local_ty(i) == "board::Point"]
            n += 1
            v = strip_refs(lm[0][1][2])
            ok = len(pts) == 2 and v[0] == "agg" and v[2] == "Some" and strip_refs(v[3][0][3][0]) == ("arg", pts[0]) and strip_refs(v[3][0][3][1]) == ("arg", pts[1])
            if not ok and "::{closure#" in b.name and v[0] == "agg" and v[2] == "Some":
                # the successors are finished in a closure (`extend(KINDS.iter().map(|k| ..))`): (start, target)
                # are captures of the enclosing function's parameters
                from .hash import closure_translator
                ct = closure_translator(ctx.facts, b.name)
                if ct is not None:
                    pfn, pb, cloc, tr = ct
                    ppts = [i for i in range(1, pb.arg_count + 1) if pb.local_ty(i) == "board::Point"]
                    tv = tr(v)
                    if tv is not None and len(ppts) == 2:
                        ok = canon(tv[3][0][3][0]) == canon(("arg", ppts[0])) and canon(tv[3][0][3][1]) == canon(("arg", ppts[1]))
                        pts = pts if len(pts) == 2 else []
            ctx.ob("%s:last_move=(start,target)" % site.name, ok, b.where(lm[0][0]),
                   "promotion successor names (start, target) as handed in by the caller%s" % (
                       "" if ok else ": NOT so - the origin square of a promotion cannot be derived from the target (a capturing pawn arrives from the neighbouring file), it has to be the caller's from-square: `%s`" % show_expr(v, b)[:80]))
            if len(pts) == 2:
                wr = [(loc, ev) for loc, evs in site.events.items() for ev in evs if ev[0] == "write" and ev[1][0] == "board"]
                for loc, ev in wr:
                    st = b.stmts(loc[0])[loc[1]]
                    idx = [ex.local(e["local"], loc) for e in st["place"]["proj"] if e["k"] == "index"]
                    okw = idx == [("field", ("arg", pts[1]), "0"), ("field", ("arg", pts[1]), "1")]
                    ctx.ob("%s:promotes-on-target" % site.name, okw, b.where(loc), "the promotion piece is written on the target square")
                # callers pass (from, to) of their own move in that order
                for caller in an.sites:
                    for loc, kind, callee in caller.publishes:
                        if kind == "delegate" and callee[0] == b.name:
                            ca = caller.ex.call_args(loc[0])
                            cmp_ = [(l2, e2) for l2, evs in caller.events.items() for e2 in evs if e2[0] == "call" and e2[1] == MOVE_PIECE and e2[2] == 0]
                            if cmp_:
                                a2 = caller.ex.call_args(cmp_[0][0][0])
                                okc = strip_refs(ca[pts[0] - 1]) == strip_refs(a2[1]) and strip_refs(ca[pts[1] - 1]) == strip_refs(a2[2])
                                ctx.ob("%s:hand-over(from,to)@%d" % (caller.name, loc[0]), okc, caller.b.where(loc), "promote_pawn receives the from/to squares of the move just made, in that order")
    ctx.floor("move identity sites", n, 2)
