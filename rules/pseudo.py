"""Pseudo-move generators: R1.4 direction tables, R1.5 pawn tables, R1.6 enumeration shape,
R13.2 capture filters.  Every `moves.push(Point(..))` site is reduced to (target offset relative to
the piece, normalised guard conditions) and compared with the rules of movement."""
from wa.mir import AnchorMissing, ShapeNotRecognised, callee_of, operand_alias
from wa.expr import Exprs, show_expr, strip_refs, subexprs, root_local, data_slice
from wa.cond import dominating_facts
from wa.linear import linear
from wa.paths import enum_paths
from wa.pathsym import eval_path, cond_truth
from . import chess
from .attack import table_loops, _strip_cd

MODE_TY = "move_generation::MoveGenerationMode"
GEN = {"Pawn": "move_generation::pawn_moves", "Rook": "move_generation::rook_moves", "Bishop": "move_generation::bishop_moves",
       "Knight": "move_generation::knight_moves", "King": "move_generation::king_moves", "Queen": "move_generation::queen_moves"}


def _sig(b):
    """(piece, row, col, board, moves, mode) parameter locals of a pseudo-move generator."""
    piece = [i for i in range(1, b.arg_count + 1) if b.local_ty(i) == "board::Piece"]
    us = [i for i in range(1, b.arg_count + 1) if b.local_ty(i) == "usize"]
    board = [i for i in range(1, b.arg_count + 1) if b.local_ty(i) == "&board::BoardState"]
    moves = [i for i in range(1, b.arg_count + 1) if b.local_ty(i) == "&mut std::vec::Vec<board::Point>"]
    mode = [i for i in range(1, b.arg_count + 1) if b.local_ty(i) == MODE_TY]
    if len(piece) != 1 or len(us) != 2 or len(board) != 1 or len(moves) != 1:
        raise ShapeNotRecognised("%s: unexpected signature" % b.name)
    return piece[0], us[0], us[1], board[0], moves[0], (mode[0] if mode else None)


def _offset(e, base):
    """e == base + k  ->  k (base is ('arg', i)); None otherwise."""
    le = linear(e)
    if le is None:
        return None
    terms = {_strip_cd(t): c for t, c in le[0].items()}
    if terms == {base: 1}:
        return le[1]
    return None


def _square_of(e, board, row, col):
    """Square-valued expression -> (dr, dc) if it is board.board[row+dr][col+dc]."""
    e = strip_refs(e)
    if e[0] == "index" and e[1][0] == "index":
        basee = strip_refs(e[1][1])
        if basee[0] == "field" and basee[2] == "board" and strip_refs(basee[1]) == ("arg", board):
            a, c = _offset(e[1][2], ("arg", row)), _offset(e[2], ("arg", col))
            if a is not None and c is not None:
                return (a, c)
    return None


def push_sites(b, ex, moves):
    out = []
    for bb, t in b.iter_calls():
        c = callee_of(t) or ""
        if c.endswith("Vec::<T, A>::push"):
            al = operand_alias(b, t["args"][0])
            if al and al[0] == moves:
                out.append((bb, strip_refs(ex.call_args(bb)[1])))
    return out


def guard_conditions(f, b, ex, bb, sig, allow_vars=None, any_square=None):
    """Normalised conditions that dominate block bb; unknown ones are returned as ('?', text)."""
    piece, row, col, board, moves, mode = sig
    colours = f.enum_variant_by_discr("board::PieceColor")
    conds = set()
    mover = None
    fulls = {}
    for d, vals, excl, s, tg in dominating_facts(b, ex, bb):
        truth = True if ((vals is None and excl == [0]) or vals == [1]) else (False if vals == [0] else None)
        d0 = strip_refs(d)
        if d0[0] == "discr" and d0[1][0] == "call" and d0[1][1].endswith("::next"):
            continue    # loop iteration
        if d0[0] == "discr":
            x = strip_refs(d0[1])
            if x == ("field", ("arg", piece), "color"):
                if vals is not None and len(vals) == 1:
                    mover = colours.get(vals[0])
                    conds.add(("mover", mover))
                continue
            sq = _square_of(x, board, row, col)
            if sq is not None and vals == [1]:
                fulls[sq] = True
                continue
            if x[0] == "field" and x[2] == "color" and x[1][0] == "field" and x[1][1][0] == "downcast":
                sq = _square_of(x[1][1][1], board, row, col)
                if sq is not None and vals is not None and len(vals) == 1:
                    conds.add(("colour", sq, colours.get(vals[0])))
                    continue
            if d0[1][0] == "call" and d0[1][1].endswith("::next"):
                continue    # loop iteration
            conds.add(("?", show_expr(d0, b)[:60] + "=%s" % (vals if vals is not None else "not%s" % excl)))
            continue
        if truth is None:
            conds.add(("?", show_expr(d0, b)[:60]))
            continue
        if d0[0] == "call" and d0[1] in ("board::Square::is_empty", "board::Square::is_color", "board::Square::is_empty_or_color"):
            sqe = strip_refs(d0[2][0])
            sq = _square_of(sqe, board, row, col)
            where = sq if sq is not None else ("var", root_local(sqe)) if sqe[0] == "var" and (allow_vars is None or root_local(sqe) in allow_vars) else None
            if where is None and any_square is not None and sqe[0] == "index" and sqe[1][0] == "index":
                any_square.append((sqe[1][2], sqe[2]))
                where = "sq"
            if where is None:
                conds.add(("?", show_expr(d0, b)[:60]))
                continue
            name = d0[1].split("::")[-1]
            if name == "is_empty":
                conds.add(("empty" if truth else "nonempty", where))
            else:
                c = strip_refs(d0[2][1])
                enemy = c == ("call", "board::PieceColor::opposite", (("field", ("arg", piece), "color"),), None)
                conds.add((name + ("" if truth else ":false"), where, "enemy" if enemy else show_expr(c, b)))
            continue
        if d0[0] == "bin" and d0[1] == "Eq":
            a, c = strip_refs(d0[2]), strip_refs(d0[3])
            for x, k in ((a, c), (c, a)):
                if mode is not None and x == ("arg", mode) and k[0] == "agg":
                    conds.add(("mode", k[2] if truth else {"AllMoves": "CapturesOnly", "CapturesOnly": "AllMoves"}[k[2]]))
                    break
                if x == ("arg", row) and k[0] == "const":
                    conds.add(("row==" if truth else "row!=", k[1]))
                    break
                if x == ("field", ("arg", piece), "color") and k[0] == "agg":
                    mover = k[2] if truth else {"White": "Black", "Black": "White"}[k[2]]
                    conds.add(("mover", mover))
                    break
            else:
                conds.add(("?", show_expr(d0, b)[:60]))
            continue
        if d0[0] == "bin" and d0[1] in ("Le", "Lt", "Ge", "Gt") and strip_refs(d0[2]) == ("arg", row) and strip_refs(d0[3])[0] == "const":
            k = strip_refs(d0[3])[1]
            op = d0[1] if truth else {"Le": "Gt", "Lt": "Ge", "Ge": "Lt", "Gt": "Le"}[d0[1]]
            if op == "Lt":
                op, k = "Le", k - 1
            if op == "Gt":
                op, k = "Ge", k + 1
            conds.add(("row<=" if op == "Le" else "row>=", k))
            continue
        conds.add(("?", show_expr(d0, b)[:60]))
    for sq in fulls:
        conds.add(("full", sq))
    return conds


def r1_5(ctx):
    """Pawn tables: direction by colour, double step only from the start rank through two empty
    squares, captures only onto enemy-occupied diagonals (both modes), pushes only in AllMoves."""
    f = ctx.facts
    b = f.body(GEN["Pawn"])
    ctx.note_fn(GEN["Pawn"])
    ex = Exprs(b)
    sig = _sig(b)
    piece, row, col, board, moves, mode = sig
    got = {"White": set(), "Black": set()}
    for bb, pt in push_sites(b, ex, moves):
        if not (pt[0] == "agg" and pt[1] == "board::Point"):
            ctx.ob("pawn_moves:push-shape", False, b.where(b.term_loc(bb)), "pushes `%s`" % show_expr(pt, b)[:60], reason="shape-not-recognised")
            continue
        dr, dc = _offset(pt[3][0], ("arg", row)), _offset(pt[3][1], ("arg", col))
        conds = guard_conditions(f, b, ex, bb, sig)
        mover = next((c[1] for c in conds if c[0] == "mover"), None)
        if mover is None or dr is None or dc is None:
            ctx.ob("pawn_moves:push@%s" % b.line(b.term_loc(bb)), False, b.where(b.term_loc(bb)), "cannot place this push on a colour trace / offset: %s" % sorted(map(str, conds)), reason="shape-not-recognised")
            continue
        # pawns of the mover stand on rows promo+dir .. start only, so a one-sided test at the start
        # row is the same condition as equality there
        start = chess.PAWN[mover]["start"]
        norm = set()
        for c in conds:
            if c[0] == "mover":
                continue
            if (c == ("row<=", start) and chess.PAWN[mover]["dir"] > 0) or (c == ("row>=", start) and chess.PAWN[mover]["dir"] < 0):
                c = ("row==", start)
            norm.add(c)
        got[mover].add(((dr, dc), frozenset(norm)))
    for colour in ("White", "Black"):
        d = chess.PAWN[colour]["dir"]
        enemy = "Black" if colour == "White" else "White"
        want = {
            ((d, -1), frozenset({("full", (d, -1)), ("colour", (d, -1), enemy)})),
            ((d, 1), frozenset({("full", (d, 1)), ("colour", (d, 1), enemy)})),
            ((d, 0), frozenset({("mode", "AllMoves"), ("empty", (d, 0))})),
            ((2 * d, 0), frozenset({("mode", "AllMoves"), ("empty", (d, 0)), ("row==", chess.PAWN[colour]["start"]), ("empty", (2 * d, 0))})),
        }
        missing = want - got[colour]
        extra = got[colour] - want
        def fmt(x):
            return "to (%+d,%+d) if %s" % (x[0][0], x[0][1], sorted(map(str, x[1])))
        ctx.ob("pawn_moves:%s:targets" % colour, not missing and not extra, b.file,
               "%s pawn targets match the rules" % colour if not missing and not extra else
               "%s pawn: missing %s; unexpected %s" % (colour, [fmt(x) for x in missing], [fmt(x) for x in extra]))


def r1_5_ep(ctx):
    """En-passant pseudo-move: only from the fifth rank of the mover, onto the diagonal-forward
    square that equals the recorded target."""
    f = ctx.facts
    fn = "move_generation::pawn_moves_en_passant"
    b = f.body(fn)
    ctx.note_fn(fn)
    ex = Exprs(b)
    piece = [i for i in range(1, b.arg_count + 1) if b.local_ty(i) == "board::Piece"][0]
    us = [i for i in range(1, b.arg_count + 1) if b.local_ty(i) == "usize"]
    row, col = us
    bp = [i for i in range(1, b.arg_count + 1) if b.local_ty(i) == "&board::BoardState"][0]
    colours = f.enum_variant_by_discr("board::PieceColor")
    got = {"White": set(), "Black": set()}
    for blocks, dec in enum_paths(b, ex):
        if b.term(blocks[-1])["k"] != "return":
            continue
        env, conds = eval_path(b, blocks)
        r = env.get(0)
        if not (r and r[0] == "agg" and r[2] == "Some"):
            continue
        pt = strip_refs(r[3][0])
        colour, rowk, eq_target, has_target = None, None, False, False
        for c in conds:
            d, tr = strip_refs(c[0]), cond_truth(c)
            if d[0] == "discr" and strip_refs(d[1]) == ("field", ("arg", piece), "color") and not c[2] and len(c[1]) == 1:
                colour = colours.get(c[1][0])
            elif d[0] == "discr" and strip_refs(d[1])[0] == "field" and strip_refs(d[1])[2] == "pawn_double_move" and c[1] == [1]:
                has_target = True
            elif d[0] == "bin" and d[1] == "Eq" and tr:
                a, k = strip_refs(d[2]), strip_refs(d[3])
                if a == ("arg", row) and k[0] == "const":
                    rowk = k[1]
                elif k == ("arg", row) and a[0] == "const":
                    rowk = a[1]
                elif (a == pt or k == pt) and any(x[0] == "field" and x[2] == "pawn_double_move" for y in (a, k) for x in subexprs(y)):
                    eq_target = True
        if pt[0] == "agg" and pt[1] == "board::Point":
            dr, dc = _offset(pt[3][0], ("arg", row)), _offset(pt[3][1], ("arg", col))
        else:
            dr = dc = None
        if colour:
            got[colour].add((rowk, dr, dc, eq_target and has_target))
    for colour in ("White", "Black"):
        d = chess.PAWN[colour]["dir"]
        want = {(chess.PAWN[colour]["ep_from"], d, -1, True), (chess.PAWN[colour]["ep_from"], d, 1, True)}
        ctx.ob("pawn_moves_en_passant:%s" % colour, got[colour] == want, b.file,
               "%s captures en passant (from row, dr, dc, target must equal pawn_double_move): %s; the rules: %s" % (colour, sorted(got[colour], key=str), sorted(want)))


def _ray_generator(ctx, f, kind, want_dirs):
    fn = GEN[kind]
    b = f.body(fn)
    ctx.note_fn(fn)
    ex = Exprs(b)
    sig = _sig(b)
    piece, row, col, board, moves, mode = sig
    short = fn.split("::")[-1]
    tl = table_loops(b, ex)
    loops = b.loops()
    if len(tl) != 1:
        ctx.ob("%s:direction-table" % short, False, b.file, "expected one loop over a direction table, found %d" % len(tl), reason="shape-not-recognised")
        return
    h, (body_, tab, item) = next(iter(tl.items()))
    ctx.ob("%s:direction-table" % short, tab == want_dirs, b.where(b.term_loc(h)), "directions %s; the rules: %s" % (sorted(tab), sorted(want_dirs)))
    inner = [(h2, b2) for h2, b2 in loops.items() if b2 < body_]
    if len(inner) != 1:
        ctx.ob("%s:ray-walk" % short, False, b.file, "expected one walking loop, found %d" % len(inner), reason="shape-not-recognised")
        return
    h2, b2 = inner[0]
    # walking condition
    cond = None
    for x in b2:
        if b.term(x)["k"] == "switch":
            d = ex.switch_discr(x)
            if d[0] == "call" and d[1] == "board::Square::is_empty":
                cond = (x, strip_refs(d[2][0]))
    if cond is None or cond[1][0] != "var":
        ctx.ob("%s:ray-walk" % short, False, b.where(b.term_loc(h2)), "the walk does not continue on `square.is_empty()`")
        return
    sqv = cond[1][1]
    t = b.term(cond[0])
    ok_cont = t["otherwise"] in b2 and all(tg not in b2 for v, tg in t["cases"] if v == 0)
    # steps and reload (as in the attack test)
    steps = []
    for x in b2:
        tt = b.term(x)
        if tt["k"] == "call" and (callee_of(tt) or "").endswith("AddAssign<&i8>>::add_assign"):
            al = operand_alias(b, tt["args"][0])
            steps.append((al[0] if al else None, _strip_cd(strip_refs(ex.call_args(x)[1]))))
    want_comp = {_strip_cd(("field", ("deref", item), "0")), _strip_cd(("field", ("deref", item), "1"))}
    reloads = [(loc, k) for loc, k in b.reaching().all_sites(sqv) if loc[0] in b2]
    ok_reload = False
    rowl = coll = None
    if len(reloads) == 1:
        loc = reloads[0][0]
        e = ex.rvalue(b.stmts(loc[0])[loc[1]]["rv"], loc)
        if e[0] == "index" and e[1][0] == "index":
            rowl, coll = root_local(_strip_cd(e[1][2])), root_local(_strip_cd(e[2]))
            ok_reload = {rowl, coll} == {l for l, _ in steps} and all(
                b.node_dominates(x, loc[0]) for x in b2 if b.term(x)["k"] == "call" and (callee_of(b.term(x)) or "").endswith("add_assign"))
    m = dict(steps)
    ok_comp = rowl is not None and m.get(rowl) == _strip_cd(("field", ("deref", item), "0")) and m.get(coll) == _strip_cd(("field", ("deref", item), "1"))
    ctx.ob("%s:ray-walk" % short, ok_cont and {c for _, c in steps} == want_comp and len(steps) == 2 and ok_reload and ok_comp, b.where(b.term_loc(h2)),
           "walk continues only on empty squares: %s; one step of (dr, dc) per iteration: %s; reloads the square after stepping: %s; row<-dr, col<-dc: %s" % (
               ok_cont, len(steps) == 2, ok_reload, ok_comp))
    # pushes: inside the walk under AllMoves (before stepping), after the walk under is_color(enemy)
    pushes = push_sites(b, ex, moves)
    kinds = []
    for bb, pt in pushes:
        conds = guard_conditions(f, b, ex, bb, sig, allow_vars={sqv})
        tgt_ok = pt[0] == "agg" and pt[1] == "board::Point" and root_local(_strip_cd(pt[3][0])) == rowl and root_local(_strip_cd(pt[3][1])) == coll
        if bb in b2:
            want = {("empty", ("var", sqv)), ("mode", "AllMoves")}
            stepb = [x for x in b2 if b.term(x)["k"] == "call" and (callee_of(b.term(x)) or "").endswith("add_assign")]
            before_step = all(not b.node_dominates(x, bb) for x in stepb) and all(b.reaches(bb, x, removed_nodes={h2}) for x in stepb)
            ok = conds == want and tgt_ok and before_step
            kinds.append("walk")
            ctx.ob("%s:push:empty-squares-only-in-AllMoves" % short, ok, b.where(b.term_loc(bb)),
                   "squares walked over are pushed iff the mode is AllMoves, before stepping on: conditions %s" % sorted(map(str, conds)))
        else:
            want = {("is_color", ("var", sqv), "enemy")}
            ok = want <= conds <= (want | {("nonempty", ("var", sqv))}) and tgt_ok and bb in body_
            kinds.append("capture")
            ctx.ob("%s:push:terminal-enemy-piece" % short, ok, b.where(b.term_loc(bb)),
                   "the square the walk stopped on is pushed iff it holds an enemy piece (both modes): conditions %s" % sorted(map(str, conds)))
    ctx.ob("%s:push-sites" % short, sorted(kinds) == ["capture", "walk"], b.file, "push sites: %s" % kinds)


def r1_4(ctx):
    """Slider generators: direction tables and walk/push shape; queen = rook + bishop."""
    f = ctx.facts
    _ray_generator(ctx, f, "Rook", chess.ROOK_DIRS)
    _ray_generator(ctx, f, "Bishop", chess.BISHOP_DIRS)
    b = f.body(GEN["Queen"])
    ctx.note_fn(GEN["Queen"])
    callees = sorted(callee_of(t) for _, t in b.iter_calls())
    ctx.ob("queen_moves:rook+bishop", callees == sorted([GEN["Rook"], GEN["Bishop"]]), b.file, "queen_moves calls %s" % [c.split("::")[-1] for c in callees])


def _step_generator(ctx, f, kind):
    """knight_moves / king_moves: one probe per offset; push iff empty-or-enemy, and in
    CapturesOnly only if not empty."""
    fn = GEN[kind]
    b = f.body(fn)
    ctx.note_fn(fn)
    ex = Exprs(b)
    sig = _sig(b)
    piece, row, col, board, moves, mode = sig
    short = fn.split("::")[-1]
    pushes = push_sites(b, ex, moves)
    seen = set()
    offsets_ok = True
    for bb, pt in pushes:
        probed = []
        conds = guard_conditions(f, b, ex, bb, sig, allow_vars=set(), any_square=probed)
        seen.add(frozenset(conds))
        same = bool(probed) and len({(_strip_cd(r), _strip_cd(c)) for r, c in probed}) == 1 and pt[0] == "agg" and \
            _strip_cd(pt[3][0]) == _strip_cd(probed[0][0]) and _strip_cd(pt[3][1]) == _strip_cd(probed[0][1])
        offsets_ok = offsets_ok and same
    want = {
        frozenset({("is_empty_or_color", "sq", "enemy"), ("mode", "CapturesOnly"), ("nonempty", "sq")}),
        frozenset({("is_empty_or_color", "sq", "enemy"), ("mode", "AllMoves")}),
    }
    ctx.ob("%s:push-conditions" % short, seen == want, b.file,
           "a target is pushed iff it is empty or enemy-occupied, and in CapturesOnly only if occupied: %s" % [sorted(map(str, s)) for s in seen])
    ctx.ob("%s:pushes-the-probed-square" % short, offsets_ok, b.file, "the pushed point is the square that was tested")
    # offsets
    if kind == "Knight":
        tl = table_loops(b, ex)
        tabs = [t for _, (_, t, _) in tl.items()]
        ctx.ob("knight_moves:offset-table", tabs == [chess.KNIGHT_OFFSETS], b.file, "offsets %s" % [sorted(t) for t in tabs])
        for h, (body_, tab, item) in tl.items():
            sv = [loc for l in range(len(b.locals)) if b.local_ty(l) == "board::Square" for loc, k in b.reaching().all_sites(l)]
            ok = False
            for loc in sv:
                if loc[1] >= len(b.stmts(loc[0])):
                    continue
                e = ex.rvalue(b.stmts(loc[0])[loc[1]]["rv"], loc)
                if e[0] == "index" and e[1][0] == "index":
                    lr, lc = linear(e[1][2]), linear(e[2])
                    if lr and lc and lr[1] == 0 and lc[1] == 0:
                        tr = {_strip_cd(k): v for k, v in lr[0].items()}
                        tc = {_strip_cd(k): v for k, v in lc[0].items()}
                        ok = tr == {("arg", row): 1, _strip_cd(("field", ("deref", item), "0")): 1} and tc == {("arg", col): 1, _strip_cd(("field", ("deref", item), "1")): 1}
            ctx.ob("knight_moves:probe = square + offset", ok, b.file, "probes board[row + dr][col + dc]")
    else:
        # king: two nested 0..3 ranges, target (row + i - 1, col + j - 1)
        sv = [loc for l in range(len(b.locals)) if b.local_ty(l) == "board::Square" for loc, k in b.reaching().all_sites(l)]
        ok = False
        rngs = []
        for loc in sv:
            e = ex.rvalue(b.stmts(loc[0])[loc[1]]["rv"], loc)
            if e[0] == "index" and e[1][0] == "index":
                lr, lc = linear(e[1][2]), linear(e[2])
                if lr and lc and lr[1] == -1 and lc[1] == -1 and len(lr[0]) == 2 and len(lc[0]) == 2:
                    ir = [t for t in lr[0] if _strip_cd(t) != ("arg", row)]
                    ic = [t for t in lc[0] if _strip_cd(t) != ("arg", col)]
                    okr = ("arg", row) in {_strip_cd(t) for t in lr[0]} and ("arg", col) in {_strip_cd(t) for t in lc[0]}
                    for it in ir + ic:
                        for y in data_slice(ex, it):
                            if y[0] == "agg" and y[1].endswith("ops::Range") and all(z[0] == "const" for z in y[3]):
                                rngs.append((y[3][0][1], y[3][1][1]))
                    ok = okr and len(ir) == 1 and len(ic) == 1 and ir[0] != ic[0]
        ctx.ob("king_moves:neighbourhood", ok and set(rngs) == {(0, 3)}, b.file,
               "king targets are (row + i - 1, col + j - 1) for i, j in %s" % sorted(set(rngs)))


def r13_2(ctx):
    f = ctx.facts
    _step_generator(ctx, f, "Knight")
    _step_generator(ctx, f, "King")


def r1_6(ctx):
    """Enumeration shape: every square of the board, pieces of the side to move, six kinds to six
    generators, castling exactly in AllMoves."""
    f = ctx.facts
    b = f.body("move_generation::get_moves")
    ctx.note_fn("move_generation::get_moves", "move_generation::generate_moves")
    ex = Exprs(b)
    kinds = f.enum_variant_by_discr("board::PieceKind")
    m = {}
    for blocks, dec in enum_paths(b, ex):
        kind = None
        for d, (vals, oth) in dec.items():
            if d[0] == "discr" and not oth and len(vals) == 1:
                kind = kinds.get(vals[0])
        for bb in blocks:
            t = b.term(bb)
            if t["k"] == "call" and f.has_body(callee_of(t) or ""):
                m[kind] = callee_of(t)
                # arguments are passed through unchanged
                args = ex.call_args(bb)
                okargs = all(strip_refs(a)[0] == "arg" for a in args)
                if not okargs:
                    m[kind] = "?args"
    ctx.ob("get_moves:kind-to-generator", m == GEN, b.file, "dispatch %s" % {k: (v or "?").split("::")[-1] for k, v in m.items()})
    g = f.body("move_generation::generate_moves")
    gex = Exprs(g)
    loops = g.loops()
    rngs = []
    for h, body_ in loops.items():
        for x in body_:
            if g.term(x)["k"] == "switch":
                d = gex.switch_discr(x)
                if d[0] == "discr" and d[1][0] == "call" and d[1][1].endswith("Range<A>>::next"):
                    for y in data_slice(gex, strip_refs(d[1][2][0])):
                        if y[0] == "agg" and y[1].endswith("ops::Range") and all(z[0] == "const" for z in y[3]):
                            rngs.append((y[3][0][1], y[3][1][1]))
    ctx.ob("generate_moves:visits-64-squares", sorted(set(rngs)) == [(2, 10)] and len(loops) == 2, g.file, "loops over %s" % rngs)
    bp = [i for i in range(1, g.arg_count + 1) if g.local_ty(i) == "&board::BoardState"][0]
    mp = [i for i in range(1, g.arg_count + 1) if g.local_ty(i) == MODE_TY][0]
    calls = g.calls_to("move_generation::generate_moves_for_piece")
    ok = len(calls) == 1
    why = "%d calls of generate_moves_for_piece" % len(calls)
    if ok:
        bb, t = calls[0]
        conds = []
        for d, vals, excl, s, tg in dominating_facts(g, gex, bb):
            truth = True if ((vals is None and excl == [0]) or vals == [1]) else (False if vals == [0] else None)
            d0 = strip_refs(d)
            if d0[0] == "bin" and d0[1] == "Eq" and truth:
                a, c = strip_refs(d0[2]), strip_refs(d0[3])
                if {a[0], c[0]} == {"field"} and {a[2], c[2]} == {"color", "to_move"}:
                    conds.append("own")
        args = gex.call_args(bb)
        pc = strip_refs(args[0])
        pt = strip_refs(args[2])
        on_square = pt[0] == "agg" and pt[1] == "board::Point" and pc[0] == "field" and pc[1][0] == "downcast" and \
            strip_refs(pc[1][1])[0] == "index" and strip_refs(pc[1][1])[2] == pt[3][1] and strip_refs(pc[1][1])[1][2] == pt[3][0]
        ok = "own" in conds and on_square and strip_refs(args[1]) == ("arg", bp) and strip_refs(args[4]) == ("arg", mp)
        why = "called for the piece on (i, j) when its colour is the side to move: colour test %s, square = loop indices %s, same board and mode passed on" % ("own" in conds, on_square)
    ctx.ob("generate_moves:own-pieces", ok, g.file, why)
    cc = g.calls_to("move_generation::generate_castling_moves")
    ok = len(cc) == 1
    if ok:
        bb, t = cc[0]
        facts_ = [(strip_refs(d), vals, excl) for d, vals, excl, s, tg in dominating_facts(g, gex, bb)
                  if not (strip_refs(d)[0] == "discr" and strip_refs(d)[1][0] == "call" and strip_refs(d)[1][1].endswith("::next"))]
        ok = any(d[0] == "bin" and d[1] == "Eq" and {strip_refs(d[2]), strip_refs(d[3])} == {("arg", mp), ("agg", MODE_TY, "AllMoves", ())} and ((vals is None and excl == [0]) or vals == [1])
                 for d, vals, excl in facts_) and len(facts_) == 1 and not any(bb in body_ for body_ in loops.values())
    ctx.ob("generate_moves:castling-iff-AllMoves", ok, g.file, "generate_castling_moves is called once, after the loops, exactly when mode == AllMoves")
