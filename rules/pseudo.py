"""Pseudo-move generators: R1.4 direction tables, R1.5 pawn tables, R1.6 enumeration shape,
R13.2 capture filters.  The generators are executed symbolically (wa/symex.py: whole function for
the pawn functions, one loop iteration for the table-driven ones, after wa/itermodel.py has turned
iterator folds / closures / new helpers into plain code) and compared with the rules of movement
as decision tables: for every generation mode and every state of the squares the rules speak
about, the one feasible path pushes exactly the targets the rules allow."""
from wa.mir import AnchorMissing, ShapeNotRecognised, callee_of, operand_alias
from wa.expr import Exprs, show_expr, strip_refs, subexprs, root_local, data_slice
from wa.cond import dominating_facts
from wa.linear import linear
from wa.paths import enum_paths
from wa.pathsym import cond_truth
from . import chess
from .attack import table_loops, _strip_cd, RayWalk, square_lin
from wa.itermodel import xbody
from wa.symex import summarise_loop, erase, elinear

MODE_TY = "move_generation::MoveGenerationMode"
GEN = {"Pawn": "move_generation::pawn_moves", "Rook": "move_generation::rook_moves", "Bishop": "move_generation::bishop_moves",
       "Knight": "move_generation::knight_moves", "King": "move_generation::king_moves", "Queen": "move_generation::queen_moves"}


def _sig(b):
    """(piece, row, col, board, moves, mode) parameter locals of a pseudo-move generator."""
    piece = [i for i in range(1, b.arg_count + 1) if b.local_ty(i) == "board::Piece"]
    us = [i for i in range(1, b.arg_count + 1) if b.local_ty(i) == "usize"]
    board = [i for i in range(1, b.arg_count + 1) if b.local_ty(i) == "&board::BoardState"]
    moves = [i for i in range(1, b.arg_count + 1) if b.local_ty(i) == "&mut std::vec::Vec<board::Point>"]
    mode = [i for i in range(1, b.arg_count + 1) if b.local_ty(i) == MODE_TY]
    if len(piece) != 1 or len(us) != 2 or len(board) != 1 or len(moves) != 1:
        raise ShapeNotRecognised("%s: unexpected signature" % b.name)
    return piece[0], us[0], us[1], board[0], moves[0], (mode[0] if mode else None)


def _offset(e, base):
    """e == base + k  ->  k (base is ('arg', i)); None otherwise."""
    le = linear(e)
    if le is None:
        return None
    terms = {_strip_cd(t): c for t, c in le[0].items()}
    if terms == {base: 1}:
        return le[1]
    return None


def _square_of(e, board, row, col):
    """Square-valued expression -> (dr, dc) if it is board.board[row+dr][col+dc]."""
    e = strip_refs(e)
    if e[0] == "index" and e[1][0] == "index":
        basee = strip_refs(e[1][1])
        if basee[0] == "field" and basee[2] == "board" and strip_refs(basee[1]) == ("arg", board):
            a, c = _offset(e[1][2], ("arg", row)), _offset(e[2], ("arg", col))
            if a is not None and c is not None:
                return (a, c)
    return None


def push_sites(b, ex, moves):
    out = []
    for bb, t in b.iter_calls():
        c = callee_of(t) or ""
        if c.endswith("Vec::<T, A>::push"):
            al = operand_alias(b, t["args"][0])
            if al and al[0] == moves:
                out.append((bb, strip_refs(ex.call_args(bb)[1])))
    return out


def _holds(c, value):
    """Does a recorded switch decision (wa/symex cond) agree with the concrete discriminant value?"""
    if isinstance(value, bool):
        value = int(value)
    d, vals, oth, listed = c
    return value in vals or (oth and value not in listed)


def r1_5(ctx):
    """Pawn tables as a decision table.  pawn_moves is executed symbolically per colour (hypothesis
    piece.color == C); for every generation mode, every row a pawn can stand on and every state of
    the four squares the rules speak about (the two forward diagonals: empty / white / black / off
    board; one and two steps ahead: empty / white / black) exactly one path is feasible, and the
    squares it pushes are exactly: each forward diagonal holding an enemy piece (both modes), and in
    AllMoves one step ahead if empty, two steps ahead if on the start rank and both are empty."""
    from wa.symex import SymEx
    from wa.interp import eval_expr, Unknown
    f = ctx.facts
    b = xbody(f, GEN["Pawn"])
    ctx.note_fn(GEN["Pawn"])
    sig = _sig(b)
    piece, row, col, board, moves, mode = sig
    colours = f.enum_variants("board::PieceColor")
    sqv = f.enum_variants("board::Square")
    rowk, colk = (frozenset({(("arg", row), 1)}),), (frozenset({(("arg", col), 1)}),)

    def offset_of(sqe):
        sl = square_lin(sqe, board)
        if sl is None or sl[0][0] != rowk[0] or sl[1][0] != colk[0]:
            return None
        return (sl[0][1], sl[1][1])

    for colour in ("White", "Black"):
        d = chess.PAWN[colour]["dir"]
        start = chess.PAWN[colour]["start"]
        enemy = "Black" if colour == "White" else "White"
        cval = ("agg", "board::PieceColor", colour, ())
        sx = SymEx(f, assume={("field", ("arg", piece), "color"): cval}, body_of=lambda n: xbody(f, n))
        try:
            paths = [p for p in sx.run(b, 0, {}) if p.end == "return"]
        except ShapeNotRecognised as e:
            ctx.ob("pawn_moves:%s:targets" % colour, False, b.file, "cannot execute pawn_moves symbolically: %s" % e, reason="shape-not-recognised")
            continue
        conds = [[(erase(c[0]), c) for c in p.conds] for p in paths]
        pushed = []
        okshape = True
        for p in paths:
            offs = []
            for ev in _pushes(p, moves):
                pt = ev[3][1]
                lr = elinear(pt[3][0]) if pt[0] == "agg" and pt[1] == "board::Point" else None
                lc = elinear(pt[3][1]) if lr is not None else None
                if lr is None or lc is None or lr[0] != rowk[0] or lc[0] != colk[0]:
                    okshape = False
                    offs.append(None)
                else:
                    offs.append((lr[1], lc[1]))
            pushed.append(sorted(offs, key=str))
        if not okshape:
            ctx.ob("pawn_moves:%s:targets" % colour, False, b.file, "a pushed point is not (row + k, col + k')", reason="shape-not-recognised")
            continue
        squares = [(d, -1), (d, 1), (d, 0), (2 * d, 0)]

        def value(e, env, state):
            """Concrete value of a (erased) condition expression under the instantiation."""
            k = e[0]
            if k == "discr" and mode is not None and e[1] == ("arg", mode):
                return f.enum_variants(MODE_TY)[env[("arg", mode)]]
            if k == "discr":
                x = e[1]
                off = offset_of(x)
                if off is not None and e[2] == "board::Square" or (off is not None and x[0] == "index"):
                    if off not in state:
                        raise Undecided(e)
                    stt = state[off]
                    return sqv["Empty"] if stt == "empty" else sqv["Boundary"] if stt == "boundary" else sqv["Full"]
                if x[0] == "field" and x[2] == "color" and x[1][0] == "field" and x[1][1][0] == "downcast" and x[1][1][2] == "Full":
                    off = offset_of(x[1][1][1])
                    if off is None or off not in state or state[off] not in colours:
                        raise Undecided(e)
                    return colours[state[off]]
                raise Undecided(e)
            if k == "call" and e[1] in SQ_PREDS:
                off = offset_of(e[2][0])
                if off is None or off not in state:
                    raise Undecided(e)
                stt = state[off]
                name = e[1].split("::")[-1]
                if name == "is_empty":
                    return stt == "empty"
                c = e[2][1]
                if c == ("call", "board::PieceColor::opposite", (("field", ("arg", piece), "color"),), None) or c == ("call", "board::PieceColor::opposite", (cval,), None):
                    cn = enemy
                elif c[0] == "agg" and c[1] == "board::PieceColor":
                    cn = c[2]
                else:
                    raise Undecided(e)
                return stt == cn if name == "is_color" else stt in ("empty", cn)
            if k == "un" and e[1] == "Not":
                return not value(e[2], env, state)
            if k == "bin" and e[1] in ("BitOr", "BitAnd"):
                x, y = value(e[2], env, state), value(e[3], env, state)
                return (x or y) if e[1] == "BitOr" else (x and y)
            if k == "bin" and e[1] in ("Eq", "Ne") and e[2][0] == "agg" and e[3][0] == "agg" and not e[2][3] and not e[3][3]:
                return (e[2][2] == e[3][2]) == (e[1] == "Eq")
            try:
                return eval_expr(e, env)
            except (Unknown, TypeError, ValueError, IndexError):
                raise Undecided(e)

        bad = []
        why = ""
        n = 0
        try:
            for m in MODES:
                env0 = {("arg", mode): m, ("agg", MODE_TY, "AllMoves", ()): "AllMoves", ("agg", MODE_TY, "CapturesOnly", ()): "CapturesOnly"} if mode is not None else {}
                for r in range(3, 9):      # the rows a pawn can stand on (ranks 7..2)
                    env = dict(env0)
                    env[("arg", row)] = r
                    for s0 in ("empty", "White", "Black", "boundary"):
                        for s1 in ("empty", "White", "Black", "boundary"):
                            for s2 in ("empty", "White", "Black"):
                                for s3 in ("empty", "White", "Black"):
                                    state = dict(zip(squares, (s0, s1, s2, s3)))
                                    feas = []
                                    memo = {}
                                    for i, cs in enumerate(conds):
                                        ok = True
                                        for e, c in cs:
                                            if e not in memo:
                                                memo[e] = value(e, env, state)
                                            if not _holds(c, memo[e]):
                                                ok = False
                                                break
                                        if ok:
                                            feas.append(i)
                                    want = [sq for sq in squares[:2] if state[sq] == enemy]
                                    if m == "AllMoves" and s2 == "empty":
                                        want.append(squares[2])
                                        if r == start and s3 == "empty":
                                            want.append(squares[3])
                                    n += 1
                                    got = pushed[feas[0]] if len(feas) == 1 else None
                                    if got != sorted(want, key=str) and len(bad) < 3:
                                        bad.append((m, r, dict(state), got, sorted(want, key=str), len(feas)))
                                    elif got != sorted(want, key=str):
                                        bad.append(None)
        except Undecided as e:
            why = "a decision of pawn_moves is not a function of (mode, row, the two forward diagonals, the two squares ahead): `%s`" % show_expr(e.args[0], b)[:120]
        def fmt(x):
            m, r, state, got, want, nf = x
            return "%s, row %d, squares %s: pushes %s, the rules %s%s" % (m, r, {"%+d%+d" % k: v for k, v in state.items()}, got, want, "" if nf == 1 else " (%d feasible paths)" % nf)
        ctx.ob("pawn_moves:%s:targets" % colour, not bad and not why and n > 0, b.file,
               "%s pawn targets match the rules in all %d (mode, row, square states) cases" % (colour, n) if not bad and not why else
               why or "%s pawn: wrong in %d of %d cases, e.g. %s" % (colour, len(bad), n, "; ".join(fmt(x) for x in bad if x)))


def r1_5_ep(ctx):
    """En-passant pseudo-move: only from the fifth rank of the mover, onto the diagonal-forward
    square that equals the recorded target."""
    f = ctx.facts
    fn = "move_generation::pawn_moves_en_passant"
    b = f.body(fn)
    ctx.note_fn(fn)
    ex = Exprs(b)
    piece = [i for i in range(1, b.arg_count + 1) if b.local_ty(i) == "board::Piece"][0]
    us = [i for i in range(1, b.arg_count + 1) if b.local_ty(i) == "usize"]
    row, col = us
    bp = [i for i in range(1, b.arg_count + 1) if b.local_ty(i) == "&board::BoardState"][0]
    colours = f.enum_variant_by_discr("board::PieceColor")
    got = {"White": set(), "Black": set()}
    # every path of the function by symbolic execution (`?` on the Option, tuple-valued matches and
    # early returns all reduce to: conditions decided on the path + the value returned)
    from wa.symex import SymEx
    b = xbody(f, fn)
    sx = SymEx(f, body_of=lambda n: xbody(f, n))
    for p in sx.run(b, 0, {}):
        if p.end != "return":
            continue
        r = p.ret
        if not (r and r[0] == "agg" and r[2] == "Some"):
            continue
        pt = erase(r[3][0])
        colour, rowk, eq_target, has_target = None, None, False, False
        for c in p.conds:
            d, tr = erase(c[0]), cond_truth(c)
            if d[0] == "discr" and d[1] == ("field", ("arg", piece), "color") and not c[2] and len(c[1]) == 1:
                colour = colours.get(c[1][0])
            elif d[0] == "discr" and d[1][0] == "field" and d[1][2] == "pawn_double_move" and d[1][1] == ("arg", bp) and c[1] == [1] and not c[2]:
                has_target = True
            elif d[0] == "call" and d[1].endswith("Option::<T>::is_some") and tr and d[2][0][0] == "field" and d[2][0][2] == "pawn_double_move":
                has_target = True
            elif d[0] == "bin" and d[1] == "Eq" and tr:
                a, k = d[2], d[3]
                if a == ("arg", row) and k[0] == "const":
                    rowk = k[1]
                elif k == ("arg", row) and a[0] == "const":
                    rowk = a[1]
                elif (a == pt or k == pt) and any(x[0] == "field" and x[2] == "pawn_double_move" for y in (a, k) for x in subexprs(y)):
                    eq_target = True
                elif {a[0], k[0]} == {"field", "agg"} or (a[0] == "agg" and k[0] == "agg"):
                    # colour written as `piece.color == White`
                    for x, y in ((a, k), (k, a)):
                        if x == ("field", ("arg", piece), "color") and y[0] == "agg" and y[1] == "board::PieceColor":
                            colour = y[2]
            elif d[0] == "bin" and d[1] == "Ne" and tr is False and ((d[2] == ("arg", row) and d[3][0] == "const") or (d[3] == ("arg", row) and d[2][0] == "const")):
                rowk = d[3][1] if d[2] == ("arg", row) else d[2][1]
            elif d[0] == "bin" and d[1] == "Eq" and tr is False:
                for x, y in ((d[2], d[3]), (d[3], d[2])):
                    if x == ("field", ("arg", piece), "color") and y[0] == "agg" and y[1] == "board::PieceColor":
                        colour = {"White": "Black", "Black": "White"}[y[2]]
        if pt[0] == "agg" and pt[1] == "board::Point":
            dr, dc = _offset(pt[3][0], ("arg", row)), _offset(pt[3][1], ("arg", col))
        else:
            dr = dc = None
        if colour:
            got[colour].add((rowk, dr, dc, eq_target and has_target))
    for colour in ("White", "Black"):
        d = chess.PAWN[colour]["dir"]
        want = {(chess.PAWN[colour]["ep_from"], d, -1, True), (chess.PAWN[colour]["ep_from"], d, 1, True)}
        ctx.ob("pawn_moves_en_passant:%s" % colour, got[colour] == want, b.file,
               "%s captures en passant (from row, dr, dc, target must equal pawn_double_move): %s; the rules: %s" % (colour, sorted(got[colour], key=str), sorted(want)))


PUSH = "Vec::<T, A>::push"
SQ_PREDS = ("board::Square::is_empty", "board::Square::is_color", "board::Square::is_empty_or_color")
MODES = ("AllMoves", "CapturesOnly")
STATES = ("empty", "enemy", "own", "boundary")
_SQ_DISCR = {}       # variant name -> discriminant of Square


class Undecided(Exception):
    pass


_MODE_DISCR = {}     # variant name -> discriminant of MoveGenerationMode (filled from the facts by the rules)


def _note_modes(f):
    _MODE_DISCR.clear()
    _MODE_DISCR.update(f.enum_variants(MODE_TY))
    _SQ_DISCR.clear()
    _SQ_DISCR.update(f.enum_variants("board::Square"))


def _truth(d, mode_local, piece, mode, state, is_sq):
    """Value of a boolean condition for one generation mode and one state of the probed square.
    `is_sq(e)`: is e the probed square?  Raises Undecided for anything the table does not determine."""
    d = erase(d)
    k = d[0]
    if k == "const" and isinstance(d[1], bool):
        return d[1]
    if k == "discr" and mode_local is not None and d[1] == ("arg", mode_local) and mode in _MODE_DISCR:
        # `match mode { AllMoves => .., CapturesOnly => .. }`, e.g. of an inlined predicate method on the mode
        return _MODE_DISCR[mode]
    if k == "discr" and is_sq(d[1]) and _SQ_DISCR:
        # `match square { Empty => .., Full(..) => .., _ => .. }`
        return _SQ_DISCR["Empty"] if state == "empty" else _SQ_DISCR["Boundary"] if state == "boundary" else _SQ_DISCR["Full"]
    if k == "un" and d[1] == "Not":
        return not _truth(d[2], mode_local, piece, mode, state, is_sq)
    if k == "bin" and d[1] in ("BitOr", "BitAnd", "BitXor"):
        x, y = _truth(d[2], mode_local, piece, mode, state, is_sq), _truth(d[3], mode_local, piece, mode, state, is_sq)
        return (x or y) if d[1] == "BitOr" else (x and y) if d[1] == "BitAnd" else (x != y)
    if k == "bin" and d[1] in ("Eq", "Ne"):
        for x, y in ((d[2], d[3]), (d[3], d[2])):
            if mode_local is not None and x == ("arg", mode_local) and y[0] == "agg" and y[1] == MODE_TY and y[2] in MODES:
                return (y[2] == mode) == (d[1] == "Eq")
            if x[0] == "const" and isinstance(x[1], bool):
                return (_truth(y, mode_local, piece, mode, state, is_sq) == x[1]) == (d[1] == "Eq")
        raise Undecided(d)
    if k == "call" and d[1] in SQ_PREDS:
        if not is_sq(d[2][0]):
            raise Undecided(d)
        name = d[1].split("::")[-1]
        if name == "is_empty":
            return state == "empty"
        enemy = ("call", "board::PieceColor::opposite", (("field", ("arg", piece), "color"),), None)
        who = "enemy" if d[2][1] == enemy else "own" if d[2][1] == ("field", ("arg", piece), "color") else None
        if who is None:
            raise Undecided(d)
        return state == who if name == "is_color" else state in ("empty", who)
    raise Undecided(d)


def _feasible(p, mode_local, piece, mode, state, is_sq):
    """Is the path taken for this (mode, state)?  Iterator-protocol decisions (Some/None of `next`) do
    not depend on either and are ignored."""
    for c in p.conds:
        d = erase(c[0])
        if d[0] == "discr" and d[1][0] == "call" and d[1][1].endswith("::next"):
            continue
        if not _holds(c, _truth(d, mode_local, piece, mode, state, is_sq)):
            return False
    return True


def _pushes(p, moves):
    return [ev for ev in p.events if ev[0] == "call" and ev[2].endswith(PUSH) and erase(ev[3][0]) == ("arg", moves)]


def _ray_generator(ctx, f, kind, want_dirs):
    _note_modes(f)
    fn = GEN[kind]
    b = xbody(f, fn)
    ctx.note_fn(fn)
    ex = Exprs(b)
    sig = _sig(b)
    piece, row, col, board, moves, mode = sig
    short = fn.split("::")[-1]
    tl = table_loops(b, ex)
    loops = b.loops()
    if len(tl) != 1:
        ctx.ob("%s:direction-table" % short, False, b.file, "expected one loop over a direction table, found %d" % len(tl), reason="shape-not-recognised")
        return
    h, (body_, tab, item) = next(iter(tl.items()))
    ctx.ob("%s:direction-table" % short, tab == want_dirs, b.where(b.term_loc(h)), "directions %s; the rules: %s" % (sorted(tab), sorted(want_dirs)))
    inner = [(h2, b2) for h2, b2 in loops.items() if b2 < body_]
    if len(inner) != 1:
        ctx.ob("%s:ray-walk" % short, False, b.file, "expected one walking loop, found %d" % len(inner), reason="shape-not-recognised")
        return
    h2, b2 = inner[0]
    rw = RayWalk(f, b, ex, h, item, h2, b2, board, (("arg", row), ("arg", col)))
    # decision table of one iteration: (mode, state of the square at the walk position) -> the one path
    # taken, whether it continues the walk, and what it pushes
    table = {}
    why = ""
    try:
        for m in MODES:
            for stt in STATES:
                ps = [p for p in rw.paths if _feasible(p, mode, piece, m, stt, rw.cur)]
                table[(m, stt)] = ps
    except Undecided as e:
        table = None
        why = "; a decision of the walk is not a function of (mode, square at the walk position): `%s`" % show_expr(e.args[0], b)[:100]
    det = table is not None and all(len(ps) == 1 for ps in table.values())
    ok_cont = det and all((table[(m, stt)][0] in rw.cont) == (stt == "empty") for m in MODES for stt in STATES)
    ctx.ob("%s:ray-walk" % short, ok_cont and rw.ok_step and rw.ok_init and rw.ok_inv, b.where(b.term_loc(h2)),
           "walk continues exactly on empty squares: %s; one step of (dr, dc) per iteration, row<-dr, col<-dc: %s; starts one step from the piece: %s; the square tested is the one at the walk position: %s%s" % (
               ok_cont, rw.ok_step, rw.ok_init, rw.ok_inv, why))
    if not det:
        ctx.ob("%s:push:empty-squares-only-in-AllMoves" % short, False, b.where(b.term_loc(h2)), "no decision table for the walk%s" % why, reason="shape-not-recognised")
        return
    np_ = {k: len(_pushes(ps[0], moves)) for k, ps in table.items()}
    at_pos = all(ev[3][1][0] == "agg" and ev[3][1][1] == "board::Point" and rw.cur_point(ev[3][1][3][0], ev[3][1][3][1])
                 for ps in table.values() for ev in _pushes(ps[0], moves))
    ok_walk = np_[("AllMoves", "empty")] == 1 and np_[("CapturesOnly", "empty")] == 0
    ctx.ob("%s:push:empty-squares-only-in-AllMoves" % short, ok_walk and at_pos, b.where(b.term_loc(h2)),
           "an empty square walked over is pushed (before stepping on) iff the mode is AllMoves: pushes in AllMoves %d, in CapturesOnly %d; pushed point is the walk position: %s" % (
               np_[("AllMoves", "empty")], np_[("CapturesOnly", "empty")], at_pos))
    ok_cap = all(np_[(m, "enemy")] == 1 and np_[(m, "own")] == 0 and np_[(m, "boundary")] == 0 for m in MODES)
    ctx.ob("%s:push:terminal-enemy-piece" % short, ok_cap and at_pos, b.where(b.term_loc(h2)),
           "the square the walk stopped on is pushed iff it holds an enemy piece (both modes): pushes %s" % {"%s/%s" % k: v for k, v in sorted(np_.items()) if k[1] != "empty"})


def r1_4(ctx):
    """Slider generators: direction tables and walk/push shape; queen = rook + bishop."""
    f = ctx.facts
    _ray_generator(ctx, f, "Rook", chess.ROOK_DIRS)
    _ray_generator(ctx, f, "Bishop", chess.BISHOP_DIRS)
    b = f.body(GEN["Queen"])
    ctx.note_fn(GEN["Queen"])
    callees = sorted(callee_of(t) for _, t in b.iter_calls())
    ctx.ob("queen_moves:rook+bishop", callees == sorted([GEN["Rook"], GEN["Bishop"]]), b.file, "queen_moves calls %s" % [c.split("::")[-1] for c in callees])


def _step_generator(ctx, f, kind):
    """knight_moves / king_moves: one probe per offset; push iff empty-or-enemy, and in
    CapturesOnly only if not empty.  Decided as a decision table of one iteration of the innermost
    loop around the pushes: for each (mode, state of the probed square) exactly one path through the
    iteration is taken, and it pushes the probed square's coordinates once or not at all."""
    _note_modes(f)
    fn = GEN[kind]
    b = xbody(f, fn)
    ctx.note_fn(fn)
    ex = Exprs(b)
    sig = _sig(b)
    piece, row, col, board, moves, mode = sig
    short = fn.split("::")[-1]
    pushes = push_sites(b, ex, moves)
    loops = b.loops()
    around = [(h, blk) for h, blk in loops.items() if pushes and all(bb in blk for bb, _ in pushes)]
    if not around:
        ctx.ob("%s:push-conditions" % short, False, b.file, "no loop around the %d push site(s)" % len(pushes), reason="shape-not-recognised")
        return
    h, blk = min(around, key=lambda x: len(x[1]))
    exits_to = {s_ for x in blk for s_ in b.succ.get(x, []) if s_ not in blk}
    carried, paths = summarise_loop(f, b, ex, h, blk, stop=exits_to)
    cont = [p for p in paths if p.end == "stop" and p.end_bb == h]
    leave = [p for p in paths if p not in cont]
    probed = set()
    for p in paths:
        for c in p.conds:
            for x in subexprs(erase(c[0])):
                if x[0] == "call" and x[1] in SQ_PREDS:
                    probed.add(square_lin(x[2][0], board))
    why = ""
    one_square = len(probed) == 1 and None not in probed
    sl = next(iter(probed)) if one_square else None
    is_sq = lambda e: one_square and square_lin(e, board) == sl
    table = {}
    try:
        for m in MODES:
            for stt in STATES:
                table[(m, stt)] = [p for p in cont if _feasible(p, mode, piece, m, stt, is_sq)]
    except Undecided as e:
        table = None
        why = "a push decision is not a function of (mode, probed square): `%s`" % show_expr(e.args[0], b)[:100]
    det = table is not None and all(len(ps) == 1 for ps in table.values())
    got = {k: len(_pushes(ps[0], moves)) for k, ps in table.items()} if det else {}
    want = {(m, stt): int(stt == "enemy" or (stt == "empty" and m == "AllMoves")) for m in MODES for stt in STATES}
    quiet_exit = all(not _pushes(p, moves) for p in leave)
    ctx.ob("%s:push-conditions" % short, det and got == want and quiet_exit, b.file,
           "a target is pushed iff it is empty or enemy-occupied, and in CapturesOnly only if occupied: %s" % (
               why or ("pushes per (mode, square) %s; the rules %s" % ({"%s/%s" % k: v for k, v in sorted(got.items())}, {"%s/%s" % k: v for k, v in sorted(want.items())}) if det
                       else "not exactly one way through an iteration for some (mode, square): %s" % {"%s/%s" % k: len(v) for k, v in sorted((table or {}).items())})))
    same = one_square and bool(cont)
    for p in paths:
        for ev in _pushes(p, moves):
            pt = ev[3][1]
            same = same and pt[0] == "agg" and pt[1] == "board::Point" and (elinear(pt[3][0]), elinear(pt[3][1])) == sl
    ctx.ob("%s:pushes-the-probed-square" % short, same, b.file, "the pushed point is the square that was tested")
    # offsets
    if kind == "Knight":
        tl = table_loops(b, ex)
        tabs = [t for _, (_, t, _) in tl.items()]
        ctx.ob("knight_moves:offset-table", tabs == [chess.KNIGHT_OFFSETS], b.file, "offsets %s" % [sorted(t) for t in tabs])
        for h, (body_, tab, item) in tl.items():
            sv = [loc for l in range(len(b.locals)) if b.local_ty(l) == "board::Square" for loc, k in b.reaching().all_sites(l)]
            ok = False
            for loc in sv:
                if loc[1] >= len(b.stmts(loc[0])):
                    continue
                e = ex.rvalue(b.stmts(loc[0])[loc[1]]["rv"], loc)
                if e[0] == "index" and e[1][0] == "index":
                    lr, lc = linear(e[1][2]), linear(e[2])
                    if lr and lc and lr[1] == 0 and lc[1] == 0:
                        tr = {_strip_cd(k): v for k, v in lr[0].items()}
                        tc = {_strip_cd(k): v for k, v in lc[0].items()}
                        ok = tr == {("arg", row): 1, _strip_cd(("field", ("deref", item), "0")): 1} and tc == {("arg", col): 1, _strip_cd(("field", ("deref", item), "1")): 1}
            ctx.ob("knight_moves:probe = square + offset", ok, b.file, "probes board[row + dr][col + dc]")
    else:
        # king: two nested 0..3 ranges, target (row + i - 1, col + j - 1)
        sv = [loc for l in range(len(b.locals)) if b.local_ty(l) == "board::Square" for loc, k in b.reaching().all_sites(l)]
        ok = False
        rngs = []
        for loc in sv:
            e = ex.rvalue(b.stmts(loc[0])[loc[1]]["rv"], loc)
            if e[0] == "index" and e[1][0] == "index":
                lr, lc = linear(e[1][2]), linear(e[2])
                if lr and lc and lr[1] == -1 and lc[1] == -1 and len(lr[0]) == 2 and len(lc[0]) == 2:
                    ir = [t for t in lr[0] if _strip_cd(t) != ("arg", row)]
                    ic = [t for t in lc[0] if _strip_cd(t) != ("arg", col)]
                    okr = ("arg", row) in {_strip_cd(t) for t in lr[0]} and ("arg", col) in {_strip_cd(t) for t in lc[0]}
                    for it in ir + ic:
                        for y in data_slice(ex, it):
                            if y[0] == "agg" and y[1].endswith("ops::Range") and all(z[0] == "const" for z in y[3]):
                                rngs.append((y[3][0][1], y[3][1][1]))
                    ok = okr and len(ir) == 1 and len(ic) == 1 and ir[0] != ic[0]
        ctx.ob("king_moves:neighbourhood", ok and set(rngs) == {(0, 3)}, b.file,
               "king targets are (row + i - 1, col + j - 1) for i, j in %s" % sorted(set(rngs)))


def r13_2(ctx):
    f = ctx.facts
    _step_generator(ctx, f, "Knight")
    _step_generator(ctx, f, "King")


def r1_6(ctx):
    """Enumeration shape: every square of the board, pieces of the side to move, six kinds to six
    generators, castling exactly in AllMoves."""
    from wa.cond import specialise
    f = ctx.facts
    ctx.note_fn("move_generation::generate_moves")
    kinds = f.enum_variant_by_discr("board::PieceKind")
    # the dispatch on the piece kind that fills the target list, wherever it lives: the function(s), other
    # than the generators themselves, that call a per-kind generator.  For each kind K the body specialised
    # under `kind == K` must reach exactly K's generator (any number of syntactic call sites), handing on
    # the piece whose kind was matched, its square, the board and the mode.
    gens = set(GEN.values())
    homes = []
    for fn in f.body_names():
        if fn in gens or not f.has_body(fn):
            continue
        raw = f.d["bodies"][fn]
        if any(blk["term"]["k"] == "call" and (blk["term"].get("resolved") or blk["term"].get("callee")) in gens for blk in raw["blocks"] if not blk["cleanup"]):
            homes.append(fn)
    m = {}
    where = "src/move_generation.rs"
    if len(homes) != 1:
        ctx.ob("get_moves:kind-to-generator", False, where, "the per-kind generators are called from %d functions: %s" % (len(homes), [h.split("::")[-1] for h in homes]), reason="shape-not-recognised")
    else:
        b = xbody(f, homes[0])
        ctx.note_fn(homes[0])
        where = b.file
        ex = Exprs(b)
        scruts = set()
        for bb in b.normal:
            if bb in b.reachable and b.term(bb)["k"] == "switch":
                d = ex.switch_discr(bb)
                if d[0] == "discr" and "PieceKind" in str(d[2]) and any(callee_of(b.term(x)) in gens for x in b.reach_from(bb) if b.term(x)["k"] == "call"):
                    scruts.add(strip_refs(d[1]))
        if len(scruts) != 1:
            ctx.ob("get_moves:kind-to-generator", False, where, "no single `match <piece>.kind` in front of the generator calls (%d scrutinees)" % len(scruts), reason="shape-not-recognised")
        else:
            X = next(iter(scruts))
            piece_e = X[1] if X[0] == "field" and X[2] == "kind" else None
            us = [i for i in range(1, b.arg_count + 1) if b.local_ty(i) == "usize"]
            pts = [i for i in range(1, b.arg_count + 1) if b.local_ty(i) == "board::Point"]
            for dv, K in sorted(kinds.items()):
                b2, ex2, _dead = specialise(b, {X: ("eq", K)}, {X: kinds})
                called = set()
                okargs = True
                for bb, t in b2.iter_calls():
                    c = callee_of(t)
                    if c not in gens:
                        continue
                    called.add(c)
                    cb = f.body(c)
                    args = [strip_refs(a) for a in ex2.call_args(bb)]
                    for i, a in enumerate(args):
                        ty = cb.local_ty(i + 1)
                        if ty == "board::Piece":
                            okargs = okargs and piece_e is not None and a == strip_refs(piece_e)
                        elif ty in ("&board::BoardState", MODE_TY):
                            okargs = okargs and a[0] == "arg" and b.local_ty(a[1]) == ty
                    coords = [a for i, a in enumerate(args) if cb.local_ty(i + 1) == "usize"]
                    if len(us) == 2:
                        okargs = okargs and coords == [("arg", us[0]), ("arg", us[1])]
                    elif len(pts) == 1:
                        okargs = okargs and coords == [("field", ("arg", pts[0]), "0"), ("field", ("arg", pts[0]), "1")]
                    else:
                        okargs = False
                m[K] = next(iter(called)) if len(called) == 1 and okargs else ("?args" if len(called) == 1 else "?%d" % len(called))
            ctx.ob("get_moves:kind-to-generator", m == GEN, where, "dispatch %s" % {k: (v or "?").split("::")[-1] for k, v in m.items()})
    # generate_moves: one iteration of the innermost loop around the generate_moves_for_piece call, by
    # symbolic execution.  The element the iteration works on is a generic element of what is iterated:
    # nested `for i in a..b { for j in a..b` and a lazy chain `(a..b).flat_map(|i| (a..b).map(move |j| ..))
    # .filter_map(..)` both give: a point (I, J) of two different range generators, and the conditions
    # under which the call is made.
    from wa.symex import gen_range
    from .attack import _path_feasible, KINDS, Undecided as AUndecided
    GMFP = "move_generation::generate_moves_for_piece"
    g = xbody(f, "move_generation::generate_moves")
    gex = Exprs(g)
    loops = g.loops()
    bp = [i for i in range(1, g.arg_count + 1) if g.local_ty(i) == "&board::BoardState"][0]
    mp = [i for i in range(1, g.arg_count + 1) if g.local_ty(i) == MODE_TY][0]
    calls = g.calls_to(GMFP)
    around = [(h, blk) for h, blk in loops.items() if len(calls) == 1 and calls[0][0] in blk]
    ok64 = okown = False
    why64 = why = "%d calls of generate_moves_for_piece, %d loops around it" % (len(calls), len(around))
    if around:
        h, blk = min(around, key=lambda x: len(x[1]))
        exits_to = {s_ for x in blk for s_ in g.succ.get(x, []) if s_ not in blk}
        carried, paths = summarise_loop(f, g, gex, h, blk, stop=exits_to, inline=None)
        cont = [p for p in paths if p.end == "stop" and p.end_bb == h]
        evs = [ev for p in paths for ev in p.events if ev[0] == "call" and ev[2] == GMFP]
        cb = f.body(GMFP)
        pos = {ty: [i for i in range(1, cb.arg_count + 1) if cb.local_ty(i) == ty] for ty in ("board::Piece", "&board::BoardState", "board::Point", MODE_TY)}
        argsets = {tuple(erase(a) for a in ev[3]) for ev in evs}
        if len(argsets) == 1 and all(len(v) == 1 for v in pos.values()):
            args = next(iter(argsets))
            pa, ba, pt, ma = (args[pos[ty][0] - 1] for ty in ("board::Piece", "&board::BoardState", "board::Point", MODE_TY))

            def range_of(x):
                gr = gen_range(x)
                if gr:
                    return (gr[1], gr[2])
                if x[0] == "field" and x[1][0] == "downcast" and x[1][1][0] == "call" and x[1][1][1].endswith("::next"):
                    for y in data_slice(gex, x[1][1]):
                        if y[0] == "agg" and y[1].endswith("ops::Range") and len(y[3]) == 2 and all(z[0] == "const" for z in y[3]):
                            return (y[3][0][1], y[3][1][1])
                return None
            if pt[0] == "agg" and pt[1] == "board::Point":
                I, J = pt[3]
                rI, rJ = range_of(I), range_of(J)
                ok64 = rI == (2, 10) and rJ == (2, 10) and I != J
                why64 = "the square handed on is (I, J) with I in %s and J in %s, independent generators: %s" % (rI, rJ, I != J)
                cur = (elinear(I), elinear(J))
                is_cur = lambda e: square_lin(e, bp) == cur
                on_square = pa[0] == "field" and pa[2] == "0" and pa[1][0] == "downcast" and pa[1][2] == "Full" and is_cur(pa[1][1])
                tbl_ok = True
                detail = ""
                try:
                    for mover in ("White", "Black"):
                        for stt in ["empty", "boundary"] + [(c, k) for c in ("White", "Black") for k in KINDS]:
                            m = {"f": f, "comps": {("field", ("arg", bp), "to_move"): mover}, "C": None, "color": None, "is_cur": is_cur, "state": stt}
                            feas = [p for p in cont if _path_feasible(p, m)]
                            ncalls = [len([ev for ev in p.events if ev[0] == "call" and ev[2] == GMFP]) for p in feas]
                            want = [1] if isinstance(stt, tuple) and stt[0] == mover else None
                            if (want is not None and ncalls != want) or (want is None and any(ncalls)):
                                tbl_ok = False
                                detail = "; with %s to move and %s on the square: %s call(s)" % (mover, stt, ncalls)
                except AUndecided as e:
                    tbl_ok = False
                    detail = "; a condition of the call is not a function of (side to move, what stands on the square): `%s`" % show_expr(e.args[0], g)[:100]
                quiet = all(not [ev for ev in p.events if ev[0] == "call" and ev[2] == GMFP] for p in paths if p not in cont)
                okown = tbl_ok and quiet and on_square and ba == ("arg", bp) and ma == ("arg", mp)
                why = "called exactly when the square holds a piece of the side to move: %s%s; with that piece and its square: %s; same board and mode passed on: %s" % (
                    tbl_ok and quiet, detail, on_square, ba == ("arg", bp) and ma == ("arg", mp))
            else:
                why64 = why = "the square handed to generate_moves_for_piece is not Point(I, J): `%s`" % show_expr(pt, g)[:80]
        else:
            why64 = why = "generate_moves_for_piece is called with different arguments on different paths"
    ctx.ob("generate_moves:visits-64-squares", ok64, g.file, why64)
    ctx.ob("generate_moves:own-pieces", okown, g.file, why)
    # castling exactly in AllMoves: on the body specialised under mode == M the call is made on every
    # path to the return (M = AllMoves) resp. is unreachable (M = CapturesOnly); whether the mode is
    # compared with `==`, matched, or asked through a predicate method makes no difference
    GCM = "move_generation::generate_castling_moves"
    cc = g.calls_to(GCM)
    ok = len(cc) == 1 and not any(cc[0][0] in body_ for body_ in loops.values())
    detail = []
    if ok:
        modes = f.enum_variant_by_discr(MODE_TY)
        for M in sorted(modes.values()):
            g2, gex2, _dead = specialise(g, {("arg", mp): ("eq", M)}, {("arg", mp): modes})
            sites = [bb for bb, t in g2.iter_calls(callee=GCM)]
            if M == "AllMoves":
                rets = g2.return_blocks()
                must = bool(sites) and all(not g2.reaches(0, r, removed_nodes=set(sites)) and r != 0 for r in rets)
                ok = ok and must
                detail.append("AllMoves: called on every path: %s" % must)
            else:
                ok = ok and not sites
                detail.append("%s: never called: %s" % (M, not sites))
    ctx.ob("generate_moves:castling-iff-AllMoves", ok, g.file, "generate_castling_moves is called once, after the loops, exactly when mode == AllMoves (%s)" % "; ".join(detail))
