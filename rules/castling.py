"""Castling rules: R1.2 (can_castle_* test exactly the FIDE squares) and R2.6 (castling successors
have the oracle's geometry)."""
from wa.mir import AnchorMissing, ShapeNotRecognised, callee_of
from wa.expr import Exprs, show_expr, strip_refs, subexprs, root_local
from wa.cond import dominating_facts
from wa.paths import enum_paths
from . import chess, successor

CAN = "move_generation::can_castle"
IS_CHECK = "move_generation::is_check"
ICC = "move_generation::is_check_cords"
GCM = "move_generation::generate_castling_moves"
FLAG_OF = {"WhiteKingSide": "white_king_side_castle", "WhiteQueenSide": "white_queen_side_castle",
           "BlackKingSide": "black_king_side_castle", "BlackQueenSide": "black_queen_side_castle"}


def dispatch(f):
    """right -> can_castle_* function, from the match in can_castle."""
    b = f.body(CAN)
    ex = Exprs(b)
    variants = f.enum_variant_by_discr("move_generation::CastlingType")
    out = {}
    for blocks, dec in enum_paths(b, ex):
        var = None
        for d, (vals, oth) in dec.items():
            if d[0] == "discr" and not oth and len(vals) == 1:
                var = variants.get(vals[0])
        for bb in blocks:
            t = b.term(bb)
            if t["k"] == "call" and f.has_body(callee_of(t) or ""):
                if var:
                    out[var] = callee_of(t)
    return out


def _const_point(e):
    e = strip_refs(e)
    if e[0] == "agg" and e[1] == "board::Point" and all(x[0] == "const" for x in e[3]):
        return (e[3][0][1], e[3][1][1])
    return None


def _const_square_index(e):
    """board.board[r][c] with constant indices -> (r, c)."""
    e = strip_refs(e)
    if e[0] == "index" and e[1][0] == "index" and e[2][0] == "const" and e[1][2][0] == "const":
        base = strip_refs(e[1][1])
        while base[0] == "field" and base[2] == "board" and base[1][0] in ("ref", "deref"):
            base = ("field", strip_refs(base[1]), "board")
        if base[0] == "field" and base[2] == "board":
            return (e[1][2][1], e[2][1])
    return None


def _primitive(name, T=None):
    """Functions whose meaning the oracle speaks about directly (not executed symbolically)."""
    from wa.expr import PURE
    return name in PURE or name in (IS_CHECK, ICC) or (T is not None and name == T.name)


def r1_2(ctx):
    """can_castle(board, R) for each right R, by symbolic execution of the test specialised to R (the
    dispatch `match`, per-right functions, a table-driven merged function with `all` / `any` over
    constant column tables all execute to the same loop-free paths): the paths that answer `true`
    must have decided exactly: R's own flag, the between squares empty, not in check, the crossed and
    landing squares unattacked."""
    from wa.itermodel import xbody
    from wa.symex import SymEx, erase
    from wa.pathsym import cond_truth
    from .attack import attack_test
    f = ctx.facts
    T = attack_test(f)     # the square-attack test (by name or by role) and what its colour parameter means
    xb = lambda n: xbody(f, n, keep={T.name})
    b = xb(CAN)
    ctx.note_fn(CAN)
    bp = [i for i in range(1, b.arg_count + 1) if b.local_ty(i) == "&board::BoardState"]
    tp = [i for i in range(1, b.arg_count + 1) if "CastlingType" in b.local_ty(i)]
    if len(bp) != 1 or len(tp) != 1:
        raise ShapeNotRecognised("can_castle(board, castling type) parameters not found")
    bp, tp = bp[0], tp[0]
    fmt = lambda ss: sorted(chess.name(x) if 2 <= x[0] <= 9 and 2 <= x[1] <= 9 else str(x) for x in ss)
    for right in sorted(chess.CASTLING):
        kf, kt, rf, rt, between, transit = chess.CASTLING[right]
        colour = chess.RIGHT_COLOUR[right]
        tv = ("agg", "move_generation::CastlingType", right, ())
        if b.local_ty(tp).startswith("&"):
            tv = ("ref", tv)
        sx = SymEx(f, inline=lambda n: f.has_body(n) and not _primitive(n, T), body_of=xb)
        paths = [p for p in sx.run(b, 0, {tp: tv}) if p.end == "return"]
        for fid, fe in sx.frames.items():
            ctx.note_fn(fe.b.name)
        key = "can_castle(%s)" % right
        trues = []
        for p in paths:
            r = p.ret
            if r == ("const", True):
                trues.append((p, list(p.conds)))
            elif r == ("const", False):
                continue
            elif r is not None and r[0] == "un" and r[1] == "Not":
                trues.append((p, list(p.conds) + [(r[2], [0], False, [0, 1])]))
            elif r is not None:
                trues.append((p, list(p.conds) + [(r, [1], False, [0, 1])]))
        if not trues:
            ctx.ob("%s:shape" % key, False, b.file, "no path answers `true` for %s" % right, reason="shape-not-recognised")
            continue
        summaries = set()
        where = b.where(b.term_loc(trues[0][0].end_bb))
        for p, conds in trues:
            flags, empties, attacked, checks, unknown = set(), set(), set(), set(), []
            for c in conds:
                d0 = erase(c[0])
                truth = cond_truth(c)
                if d0[0] == "field" and d0[2] in FLAG_OF.values() and d0[1] == ("arg", bp):
                    if truth:
                        flags.add(d0[2])
                    else:
                        unknown.append("flag %s=%s" % (d0[2], truth))
                elif d0[0] == "call" and d0[1] == "board::Square::is_empty":
                    sq = _const_square_index(d0[2][0])
                    if sq and truth and d0[2][0][1][1][1] == ("arg", bp):
                        empties.add(sq)
                    else:
                        unknown.append("is_empty(%s)=%s" % (show_expr(d0[2][0], b)[:40], truth))
                elif d0[0] == "call" and d0[1] == IS_CHECK:
                    c_ = d0[2][1]
                    if truth is False and c_[0] == "agg" and d0[2][0] == ("arg", bp):
                        checks.add(c_[2])
                    else:
                        unknown.append("is_check(%s)=%s" % (show_expr(c_, b), truth))
                elif d0[0] == "call" and d0[1] == T.name and len(d0[2]) == 3:
                    c_ = d0[2][T.color - 1]
                    pt = _const_point(d0[2][T.sq - 1])
                    if truth is False and pt and c_[0] == "agg" and c_[2] == T.colour_arg_for(colour) and d0[2][T.board - 1] == ("arg", bp):
                        attacked.add(pt)
                    else:
                        unknown.append("%s(%s, %s)=%s" % (T.name.split("::")[-1], show_expr(c_, b), show_expr(d0[2][T.sq - 1], b)[:30], truth))
                else:
                    unknown.append("%s=%s" % (show_expr(d0, b)[:50], truth if truth is not None else c[1]))
            summaries.add((frozenset(flags), frozenset(empties), frozenset(checks), frozenset(attacked), tuple(unknown)))
        if len(summaries) != 1:
            ctx.ob("%s:no-other-conditions" % key, False, where, "castling %s is allowed under %d different sets of conditions" % (right, len(summaries)))
            continue
        flags, empties, checks, attacked, unknown = next(iter(summaries))
        ctx.ob("%s:right-flag" % key, flags == {FLAG_OF[right]}, where, "castling %s requires its own right flag %s (found %s)" % (right, FLAG_OF[right], sorted(flags)))
        want_e = {chess.sq(x) for x in between}
        ctx.ob("%s:empty-squares" % key, set(empties) == want_e, where,
               "squares required empty: %s; the rules require exactly %s (between king and rook)" % (fmt(empties), sorted(between)))
        ctx.ob("%s:not-in-check" % key, set(checks) == {colour}, where, "king must not be in check: is_check(board, %s) false edge (found colour %s)" % (colour, sorted(checks)))
        want_t = {chess.sq(x) for x in transit}
        ctx.ob("%s:unattacked-squares" % key, set(attacked) == want_t, where,
               "squares required unattacked by %s's enemy: %s; the rules require exactly %s (crossed and landed on by the king)" % (colour, fmt(attacked), sorted(transit)))
        ctx.ob("%s:no-other-conditions" % key, not unknown, where, "other conditions on castling: %s" % list(unknown))


def castling_records(f):
    """Successors created by generate_castling_moves, per side to move: the function is executed
    symbolically under the hypothesis board.to_move == C (helpers that build the successor are part
    of the body; a `match board.to_move` selecting ranks / castling types / descriptors folds to
    C's arm; a loop over a table of castling types is unrolled).  Returns (body, board param, clone
    blocks, {C: {clone block: [record]}}); a record has the can_castle rights answered `true` so far
    ('guards'), the calls made on the object and its field writes."""
    if "_castling_records" in f.__dict__:
        return f.__dict__["_castling_records"]
    from wa.symex import SymEx, erase
    from wa.pathsym import cond_truth
    b = f.body(GCM)
    bps = [i for i in range(1, b.arg_count + 1) if b.local_ty(i) == "&board::BoardState"]
    if len(bps) != 1:
        raise ShapeNotRecognised("generate_castling_moves(board, ..) parameter not found")
    bp = bps[0]
    clone_sites = sorted(bb for bb, t in b.iter_calls(callee=successor.CLONE))
    out = {}
    for colour in ("White", "Black"):
        to_move = ("field", ("arg", bp), "to_move")
        sx = SymEx(f, assume={to_move: ("agg", "board::PieceColor", colour, ())})
        paths = [p for p in sx.run(b, 0, {}) if p.end == "return"]
        recs = {}
        for p in paths:
            guards = []
            open_ = {}
            for ev in p.events:
                if ev[0] == "cond":
                    d = erase(ev[2][0])
                    if d[0] == "call" and d[1] == CAN and cond_truth(ev[2]) is True:
                        own = d[2][0] == ("arg", bp)
                        v = d[2][1]
                        guards.append(v[2] if own and v[0] == "agg" else "?")
                elif ev[0] == "call":
                    if ev[2] == successor.CLONE and ev[5] is not None and erase(ev[3][0]) == ("arg", bp):
                        rec = {"guards": list(guards), "calls": [], "writes": {}, "loc": ev[1]}
                        # the object may be handed on by plain moves (inlined constructor helper)
                        for x in successor._move_chain(b, ev[5]):
                            open_[x] = rec
                        recs.setdefault(ev[1][1], []).append(rec)
                    else:
                        a0 = ev[3][0] if ev[3] else None
                        if a0 is not None and a0[0] == "addr" and a0[2] in open_ and not a0[3]:
                            open_[a0[2]]["calls"].append(ev)
                elif ev[0] == "write" and ev[3] in open_:
                    open_[ev[3]]["writes"][ev[4][0]] = (ev[1], ev[5])
        out[colour] = recs
    f.__dict__["_castling_records"] = (b, bp, clone_sites, out)
    return f.__dict__["_castling_records"]


def king_cache_of_castling(ctx):
    """R2.5, castling part: every castling successor stores, in the mover's own cached king square
    and in no other, the oracle's destination for the right it was created under.  Returns the number
    of obligations."""
    f = ctx.facts
    b, bp, clone_sites, per_colour = castling_records(f)
    n = 0
    done = set()
    for colour, recs in sorted(per_colour.items()):
        for cbb, lst in sorted(recs.items()):
            for r in lst:
                right = r["guards"][-1] if r["guards"] else None
                if right not in chess.CASTLING:
                    continue      # reported by R2.6 (guard)
                for field, (loc, v) in sorted(r["writes"].items()):
                    if not field.endswith("_king_location"):
                        continue
                    dest = _const_point(v)
                    own = field == "%s_king_location" % chess.RIGHT_COLOUR[right].lower()
                    okd = own and dest == chess.sq(chess.CASTLING[right][1])
                    if (right, field, bool(okd), dest) in done:
                        continue
                    done.add((right, field, bool(okd), dest))
                    n += 1
                    ctx.ob("generate_castling_moves(%s):%s:castling-destination" % (right, field), bool(okd), b.where(b.term_loc(cbb)),
                           "castling %s stores %s in %s; the rules put the king on %s" % (
                               right, chess.name(dest) if dest and all(2 <= x <= 9 for x in dest) else dest, field, chess.CASTLING[right][1]))
    return n


def r2_6(ctx):
    """Castling successors, per side to move (see castling_records).  Every successor created on a
    path is attributed to the right R whose `can_castle(board, R)` answer `true` was the last one
    before it was created, and compared with the oracle's squares for R."""
    from wa.symex import erase
    f = ctx.facts
    ctx.note_fn(GCM)
    b, bp, clone_sites, per_colour = castling_records(f)
    seen = set()
    nrec = 0
    for colour in ("White", "Black"):
        recs = per_colour[colour]
        # a successor belongs to the right whose can_castle answer `true` was the last one obtained
        # before it was created (so two blocks, or one block run once per entry of a table of rights,
        # are the same thing); all records of one right must agree
        by_right = {}
        for cbb, lst in sorted(recs.items()):
            for r in lst:
                nrec += 1
                right = r["guards"][-1] if r["guards"] else None
                if right is None or right == "?" or right not in chess.CASTLING:
                    ctx.ob("generate_castling_moves:successor#%d:guard" % clone_sites.index(cbb), False, b.where(b.term_loc(cbb)),
                           "castling successor not created under a can_castle(board, <right>) answer (with %s to move: %s)" % (colour, r["guards"]))
                    continue
                by_right.setdefault(right, []).append((cbb, r))
        for right, items in sorted(by_right.items()):
            cbb = items[0][0]
            lst = [r for _, r in items]
            where = b.where(b.term_loc(cbb))
            seen.add(right)
            kf, kt, rf, rt, _, _ = chess.CASTLING[right]
            rcolour = chess.RIGHT_COLOUR[right]
            key = "generate_castling_moves(%s)" % right
            ctx.ob(key + ":side-to-move", rcolour == colour, where, "generated only when %s is to move (found reachable with %s to move)" % (rcolour, colour))
            if rcolour != colour:
                continue
            # the same construction on every path
            shapes = set()
            for r in lst:
                takes = set()
                moves = []
                unset = False
                for ev in r["calls"]:
                    if ev[2] == successor.TAKE_AWAY:
                        v = erase(ev[3][1])
                        takes.add(v[2] if v[0] == "agg" else "?")
                    elif ev[2] == successor.MOVE_PIECE:
                        moves.append((erase(ev[3][1]), erase(ev[3][2])))
                    elif ev[2] == successor.UNSET_EP:
                        unset = True
                kfield = "%s_king_location" % rcolour.lower()
                kw = r["writes"].get(kfield)
                kdest = _const_point(kw[1]) if kw else None
                lm = r["writes"].get("last_move")
                lmv = None
                if lm:
                    e = erase(lm[1])
                    if e[0] == "agg" and e[2] == "Some" and e[3] and e[3][0][0] == "agg" and len(e[3][0][3]) == 2:
                        pr = e[3][0][3]
                        lmv = (_const_point(pr[0]), _const_point(pr[1]))
                shapes.add((frozenset(takes), tuple(moves), unset, kdest, lmv))
            if len(shapes) != 1:
                ctx.ob(key + ":one-construction", False, where, "the successor is built differently on different paths")
                continue
            takes, moves, unset, kdest, lmv = next(iter(shapes))
            want_takes = {r for r, c in chess.RIGHT_COLOUR.items() if c == rcolour}
            ctx.ob(key + ":both-rights-removed", set(takes) == want_takes, where, "rights removed: %s; must be %s" % (sorted(takes), sorted(want_takes)))
            ctx.ob(key + ":ep-cleared", unset, where, "en-passant target cleared")
            ctx.ob(key + ":king-destination", kdest == chess.sq(kt), where,
                   "king cache set to %s; the rules put the king on %s" % (chess.name(kdest) if kdest and all(2 <= v <= 9 for v in kdest) else kdest, kt))
            ctx.ob(key + ":move-descriptor", lmv == (chess.sq(kf), chess.sq(kt)), where,
                   "last_move is %s; must be the king's two-square move %s%s" % (
                       tuple(chess.name(p) if p else "?" for p in lmv) if lmv else lmv, kf, kt))
            kfield = "%s_king_location" % rcolour.lower()
            okk = okr = False
            for a, c in moves:
                # king: from the parent's cached square to the square just stored in the successor
                if a == ("field", ("arg", bp), kfield) and kdest is not None and _const_point(c) == kdest:
                    okk = True
                pa, pc = _const_point(a), _const_point(c)
                if pa == chess.sq(rf) and pc == chess.sq(rt):
                    okr = True
            ctx.ob(key + ":king-moved", okk, where, "the king is moved from the parent's king square to the destination stored in the successor")
            ctx.ob(key + ":rook-moved", okr, where, "the rook is moved %s->%s (found %s)" % (rf, rt, [
                (chess.name(_const_point(a)) if _const_point(a) else "?", chess.name(_const_point(c)) if _const_point(c) else "?") for a, c in moves if _const_point(a)]))
            ctx.ob(key + ":two-piece-moves", len(moves) == 2, where, "%d move_piece calls on the castling successor" % len(moves))
    ctx.floor("castling successor sites", nrec, 1)
    ctx.ob("generate_castling_moves:all-four", seen == set(chess.CASTLING), GCM, "castling successors generated: %s" % sorted(seen))
