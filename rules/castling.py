"""Castling rules: R1.2 (can_castle_* test exactly the FIDE squares) and R2.6 (castling successors
have the oracle's geometry)."""
from wa.mir import AnchorMissing, ShapeNotRecognised, callee_of
from wa.expr import Exprs, show_expr, strip_refs, subexprs, root_local
from wa.cond import dominating_facts
from wa.paths import enum_paths
from . import chess, successor

CAN = "move_generation::can_castle"
IS_CHECK = "move_generation::is_check"
ICC = "move_generation::is_check_cords"
GCM = "move_generation::generate_castling_moves"
FLAG_OF = {"WhiteKingSide": "white_king_side_castle", "WhiteQueenSide": "white_queen_side_castle",
           "BlackKingSide": "black_king_side_castle", "BlackQueenSide": "black_queen_side_castle"}


def dispatch(f):
    """right -> can_castle_* function, from the match in can_castle."""
    b = f.body(CAN)
    ex = Exprs(b)
    variants = f.enum_variant_by_discr("move_generation::CastlingType")
    out = {}
    for blocks, dec in enum_paths(b, ex):
        var = None
        for d, (vals, oth) in dec.items():
            if d[0] == "discr" and not oth and len(vals) == 1:
                var = variants.get(vals[0])
        for bb in blocks:
            t = b.term(bb)
            if t["k"] == "call" and f.has_body(callee_of(t) or ""):
                if var:
                    out[var] = callee_of(t)
    return out


def _const_point(e):
    e = strip_refs(e)
    if e[0] == "agg" and e[1] == "board::Point" and all(x[0] == "const" for x in e[3]):
        return (e[3][0][1], e[3][1][1])
    return None


def _const_square_index(e):
    """board.board[r][c] with constant indices -> (r, c)."""
    e = strip_refs(e)
    if e[0] == "index" and e[1][0] == "index" and e[2][0] == "const" and e[1][2][0] == "const":
        base = strip_refs(e[1][1])
        if base[0] == "field" and base[2] == "board":
            return (e[1][2][1], e[2][1])
    return None


def r1_2(ctx):
    f = ctx.facts
    disp = dispatch(f)
    ctx.ob("can_castle:dispatch", set(disp) == set(chess.CASTLING), "src/move_generation.rs", "can_castle dispatches %s" % {k: v.split("::")[-1] for k, v in disp.items()})
    for right, fn in sorted(disp.items()):
        b = f.body(fn)
        ctx.note_fn(fn)
        ex = Exprs(b)
        kf, kt, rf, rt, between, transit = chess.CASTLING[right]
        colour = chess.RIGHT_COLOUR[right]
        trues = [loc for loc, st in b.iter_stmts() if st["k"] == "assign" and st["place"]["local"] == 0 and not st["place"]["proj"]
                 and ex.rvalue(st["rv"], loc) == ("const", True)]
        others = [loc for loc, st in b.iter_stmts() if st["k"] == "assign" and st["place"]["local"] == 0 and not st["place"]["proj"]
                  and ex.rvalue(st["rv"], loc) not in (("const", True), ("const", False))]
        short = fn.split("::")[-1]
        if len(trues) != 1 or others:
            ctx.ob("%s:shape" % short, False, b.file, "result is not a single `true` guarded by early `return false`s", reason="shape-not-recognised")
            continue
        tloc = trues[0]
        flag_ok = False
        empties, attacked, check_col = set(), set(), None
        unknown = []
        for d, vals, excl, s, tg in dominating_facts(b, ex, tloc[0]):
            truth = True if ((vals is None and excl == [0]) or vals == [1]) else (False if vals == [0] else None)
            d0 = strip_refs(d)
            if d0[0] == "field" and d0[2] in FLAG_OF.values():
                if truth and d0[2] == FLAG_OF[right]:
                    flag_ok = True
                else:
                    unknown.append("flag %s=%s" % (d0[2], truth))
            elif d0[0] == "call" and d0[1] == "board::Square::is_empty":
                sq = _const_square_index(d0[2][0])
                if sq and truth:
                    empties.add(sq)
                else:
                    unknown.append("is_empty(%s)=%s" % (show_expr(d0[2][0], b)[:40], truth))
            elif d0[0] == "call" and d0[1] == IS_CHECK:
                c = strip_refs(d0[2][1])
                if truth is False and c[0] == "agg":
                    check_col = c[2]
                else:
                    unknown.append("is_check=%s" % truth)
            elif d0[0] == "call" and d0[1] == ICC:
                c = strip_refs(d0[2][1])
                p = _const_point(d0[2][2])
                if truth is False and p and c[0] == "agg" and c[2] == colour:
                    attacked.add(p)
                else:
                    unknown.append("is_check_cords(%s, %s)=%s" % (show_expr(c, b), show_expr(d0[2][2], b)[:30], truth))
            else:
                unknown.append(show_expr(d0, b)[:50])
        fmt = lambda ss: sorted(chess.name(x) if 2 <= x[0] <= 9 and 2 <= x[1] <= 9 else str(x) for x in ss)
        ctx.ob("%s:right-flag" % short, flag_ok, b.where(tloc), "castling %s requires its own right flag %s" % (right, FLAG_OF[right]))
        want_e = {chess.sq(x) for x in between}
        ctx.ob("%s:empty-squares" % short, empties == want_e, b.where(tloc),
               "squares required empty: %s; the rules require exactly %s (between king and rook)" % (fmt(empties), sorted(between)))
        ctx.ob("%s:not-in-check" % short, check_col == colour, b.where(tloc), "king must not be in check: is_check(board, %s) false edge (found colour %s)" % (colour, check_col))
        want_t = {chess.sq(x) for x in transit}
        ctx.ob("%s:unattacked-squares" % short, attacked == want_t, b.where(tloc),
               "squares required unattacked by %s's enemy: %s; the rules require exactly %s (crossed and landed on by the king)" % (colour, fmt(attacked), sorted(transit)))
        ctx.ob("%s:no-other-conditions" % short, not unknown, b.where(tloc), "other conditions on castling: %s" % unknown)


def r2_6(ctx):
    an = successor.get(ctx)
    f = ctx.facts
    sites = [s for s in an.sites if s.b.name == GCM]
    ctx.floor("castling successor sites", len(sites), 4)
    seen = set()
    for site in sites:
        b, ex, L = site.b, site.ex, site.L
        # which right: the can_castle(board, &V) true edge dominating the clone
        right = None
        side = None
        bp = site.src_local
        for d, vals, excl, s, tg in dominating_facts(b, ex, site.bb):
            truth = (vals is None and excl == [0]) or vals == [1]
            if not truth:
                continue
            if d[0] == "call" and d[1] == CAN:
                v = strip_refs(d[2][1])
                if v[0] == "agg":
                    right = v[2]
                own = strip_refs(d[2][0]) == ("arg", bp)
                if not own:
                    right = None
            if d[0] == "bin" and d[1] == "Eq":
                for x, k in ((strip_refs(d[2]), strip_refs(d[3])), (strip_refs(d[3]), strip_refs(d[2]))):
                    if k[0] == "agg" and k[1] == "board::PieceColor" and x[0] == "field" and x[2] == "to_move":
                        side = k[2]
        if right is None:
            ctx.ob("%s:guard" % site.name, False, b.where(site.loc), "castling successor not guarded by can_castle(board, <right>)")
            continue
        seen.add(right)
        kf, kt, rf, rt, _, _ = chess.CASTLING[right]
        colour = chess.RIGHT_COLOUR[right]
        key = "%s(%s)" % (site.name.split(":")[0], right)
        ctx.ob(key + ":side-to-move", side == colour, b.where(site.loc), "generated only when %s is to move (found %s)" % (colour, side))
        calls = [(loc, ev) for loc, evs in sorted(site.events.items()) for ev in evs if ev[0] == "call"]
        writes = {ev[1][0]: (loc, ev[2]) for loc, evs in site.events.items() for ev in evs if ev[0] == "write"}
        takes = set()
        moves = []
        unset = False
        for loc, ev in calls:
            if ev[1] == successor.TAKE_AWAY and ev[2] == 0:
                v = strip_refs(ex.call_args(loc[0])[1])
                takes.add(v[2] if v[0] == "agg" else "?")
            elif ev[1] == successor.MOVE_PIECE and ev[2] == 0:
                a = ex.call_args(loc[0])
                moves.append((loc, strip_refs(a[1]), strip_refs(a[2])))
            elif ev[1] == successor.UNSET_EP:
                unset = True
        want_takes = {r for r, c in chess.RIGHT_COLOUR.items() if c == colour}
        ctx.ob(key + ":both-rights-removed", takes == want_takes, b.where(site.loc), "rights removed: %s; must be %s" % (sorted(takes), sorted(want_takes)))
        ctx.ob(key + ":ep-cleared", unset, b.where(site.loc), "en-passant target cleared")
        kfield = "%s_king_location" % colour.lower()
        kw = writes.get(kfield)
        kdest = _const_point(kw[1]) if kw else None
        ctx.ob(key + ":king-destination", kdest == chess.sq(kt), b.where(kw[0]) if kw else b.where(site.loc),
               "king cache set to %s; the rules put the king on %s" % (chess.name(kdest) if kdest and all(2 <= v <= 9 for v in kdest) else kdest, kt))
        lm = writes.get("last_move")
        lmv = None
        if lm:
            e = strip_refs(lm[1])
            if e[0] == "agg" and e[2] == "Some" and e[3][0][0] == "agg":
                pr = e[3][0][3]
                lmv = (_const_point(pr[0]), _const_point(pr[1]))
        ctx.ob(key + ":move-descriptor", lmv == (chess.sq(kf), chess.sq(kt)), b.where(lm[0]) if lm else b.where(site.loc),
               "last_move is %s; must be the king's two-square move %s%s" % (
                   tuple(chess.name(p) if p else "?" for p in lmv) if lmv else lmv, kf, kt))
        # the two move_piece calls: king from the parent's cached square to the successor's cached square; rook per oracle
        okk = okr = False
        for loc, a, c in moves:
            if a[0] == "field" and a[2] == kfield and root_local(a) == bp and c[0] == "field" and c[2] == kfield and root_local(c) == L:
                okk = True
            pa, pc = _const_point(a), _const_point(c)
            if pa == chess.sq(rf) and pc == chess.sq(rt):
                okr = True
        ctx.ob(key + ":king-moved", okk, b.where(site.loc), "the king is moved from the parent's king square to the destination stored in the successor")
        ctx.ob(key + ":rook-moved", okr, b.where(site.loc), "the rook is moved %s->%s (found %s)" % (rf, rt, [
            (chess.name(_const_point(a)) if _const_point(a) else "?", chess.name(_const_point(c)) if _const_point(c) else "?") for _, a, c in moves if _const_point(a)]))
        ctx.ob(key + ":two-piece-moves", len(moves) == 2, b.where(site.loc), "%d move_piece calls on the castling successor" % len(moves))
    ctx.ob("generate_castling_moves:all-four", seen == set(chess.CASTLING), GCM, "castling successors generated: %s" % sorted(seen))
