// wfacts: a rustc_private driver that dumps the type-checked MIR of the crate being compiled as
// one JSON "fact file".  It is injected with RUSTC_WORKSPACE_WRAPPER under `cargo +nightly check`
// so that it sees exactly the flags / cfgs / dependency graph of the real build.
//
// Environment:
//   WFACTS_OUT    path of the fact file to write (required for a dump; without it we only compile)
//   WFACTS_NONCE  copied into the fact file so the caller can assert freshness
//   WFACTS_CRATE  crate name to dump (default: walleye)
#![feature(rustc_private)]
#![allow(clippy::all)]

extern crate rustc_abi;
extern crate rustc_driver;
extern crate rustc_hir;
extern crate rustc_interface;
extern crate rustc_middle;
extern crate rustc_span;

use rustc_driver::Compilation;
use rustc_hir::def::DefKind;
use rustc_hir::def_id::DefId;
use rustc_middle::mir::{self, *};
use rustc_middle::ty::{self, Instance, Ty, TyCtxt, TypingEnv};
use rustc_span::Span;
use std::fmt::Write as _;

// ---------------------------------------------------------------- tiny JSON
enum J {
    Null,
    Bool(bool),
    Int(i128),
    UInt(u128),
    Str(String),
    Arr(Vec<J>),
    Obj(Vec<(&'static str, J)>),
    Map(Vec<(String, J)>),
}

fn esc(s: &str, out: &mut String) {
    out.push('"');
    for c in s.chars() {
        match c {
            '"' => out.push_str("\\\""),
            '\\' => out.push_str("\\\\"),
            '\n' => out.push_str("\\n"),
            '\r' => out.push_str("\\r"),
            '\t' => out.push_str("\\t"),
            c if (c as u32) < 0x20 => {
                let _ = write!(out, "\\u{:04x}", c as u32);
            }
            c => out.push(c),
        }
    }
    out.push('"');
}

impl J {
    fn write(&self, out: &mut String) {
        match self {
            J::Null => out.push_str("null"),
            J::Bool(b) => out.push_str(if *b { "true" } else { "false" }),
            J::Int(i) => {
                let _ = write!(out, "{}", i);
            }
            J::UInt(i) => {
                let _ = write!(out, "{}", i);
            }
            J::Str(s) => esc(s, out),
            J::Arr(v) => {
                out.push('[');
                for (i, x) in v.iter().enumerate() {
                    if i > 0 {
                        out.push(',');
                    }
                    x.write(out);
                }
                out.push(']');
            }
            J::Obj(v) => {
                out.push('{');
                for (i, (k, x)) in v.iter().enumerate() {
                    if i > 0 {
                        out.push(',');
                    }
                    esc(k, out);
                    out.push(':');
                    x.write(out);
                }
                out.push('}');
            }
            J::Map(v) => {
                out.push('{');
                for (i, (k, x)) in v.iter().enumerate() {
                    if i > 0 {
                        out.push(',');
                    }
                    esc(k, out);
                    out.push(':');
                    x.write(out);
                }
                out.push('}');
            }
        }
    }
}

fn s<T: ToString>(x: T) -> J {
    J::Str(x.to_string())
}

// ---------------------------------------------------------------- helpers
struct Cx<'tcx> {
    tcx: TyCtxt<'tcx>,
}

impl<'tcx> Cx<'tcx> {
    fn path(&self, did: DefId) -> String {
        ty::print::with_no_trimmed_paths!(self.tcx.def_path_str(did))
    }

    fn ty_str(&self, t: Ty<'tcx>) -> String {
        ty::print::with_no_trimmed_paths!(format!("{}", t))
    }

    fn span(&self, sp: Span) -> J {
        let sm = self.tcx.sess.source_map();
        let exp = sp.from_expansion();
        let sp2 = if exp { sp.source_callsite() } else { sp };
        let lo = sm.lookup_char_pos(sp2.lo());
        let hi = sm.lookup_char_pos(sp2.hi());
        let file = match &lo.file.name {
            rustc_span::FileName::Real(r) => match r.local_path() {
                Some(p) => p.to_string_lossy().to_string(),
                None => format!("{:?}", lo.file.name),
            },
            other => format!("{:?}", other),
        };
        J::Obj(vec![
            ("file", s(file)),
            ("line", J::UInt(lo.line as u128)),
            ("col", J::UInt(lo.col.0 as u128 + 1)),
            ("eline", J::UInt(hi.line as u128)),
            ("ecol", J::UInt(hi.col.0 as u128 + 1)),
            ("exp", J::Bool(exp)),
        ])
    }

    fn field_name(&self, pty: mir::PlaceTy<'tcx>, f: rustc_abi::FieldIdx) -> String {
        match pty.ty.kind() {
            ty::Adt(adt, _) => {
                let v = match pty.variant_index {
                    Some(vi) => adt.variant(vi),
                    None => {
                        if adt.is_enum() {
                            return f.index().to_string();
                        }
                        adt.non_enum_variant()
                    }
                };
                v.fields[f].name.to_string()
            }
            _ => f.index().to_string(),
        }
    }

    fn place(&self, body: &Body<'tcx>, p: &Place<'tcx>) -> J {
        let mut pty = mir::PlaceTy::from_ty(body.local_decls[p.local].ty);
        let mut proj = Vec::new();
        for elem in p.projection.iter() {
            let j = match elem {
                ProjectionElem::Deref => J::Obj(vec![("k", s("deref"))]),
                ProjectionElem::Field(f, _) => J::Obj(vec![
                    ("k", s("field")),
                    ("i", J::UInt(f.index() as u128)),
                    ("name", s(self.field_name(pty, f))),
                ]),
                ProjectionElem::Index(l) => {
                    J::Obj(vec![("k", s("index")), ("local", J::UInt(l.index() as u128))])
                }
                ProjectionElem::ConstantIndex { offset, min_length, from_end } => J::Obj(vec![
                    ("k", s("cindex")),
                    ("offset", J::UInt(offset as u128)),
                    ("min_length", J::UInt(min_length as u128)),
                    ("from_end", J::Bool(from_end)),
                ]),
                ProjectionElem::Downcast(name, vi) => J::Obj(vec![
                    ("k", s("downcast")),
                    ("variant", match name {
                        Some(n) => s(n),
                        None => J::Null,
                    }),
                    ("vi", J::UInt(vi.index() as u128)),
                ]),
                other => J::Obj(vec![("k", s("other")), ("dbg", s(format!("{:?}", other)))]),
            };
            proj.push(j);
            pty = pty.projection_ty(self.tcx, elem);
        }
        J::Obj(vec![
            ("local", J::UInt(p.local.index() as u128)),
            ("proj", J::Arr(proj)),
            ("ty", s(self.ty_str(pty.ty))),
        ])
    }

    fn scalar_int(&self, si: ty::ScalarInt, t: Ty<'tcx>) -> J {
        let size = si.size();
        let bits = si.to_bits(size);
        if t.is_signed() {
            let nb = size.bits() as u32;
            let v = if nb == 128 {
                bits as i128
            } else {
                let shift = 128 - nb;
                ((bits << shift) as i128) >> shift
            };
            J::Int(v)
        } else {
            J::UInt(bits)
        }
    }

    fn const_operand(&self, body_did: DefId, c: &ConstOperand<'tcx>) -> J {
        let tcx = self.tcx;
        let cst = c.const_;
        let t = cst.ty();
        let mut o: Vec<(&'static str, J)> = vec![("k", s("const")), ("ty", s(self.ty_str(t)))];
        match cst {
            Const::Unevaluated(uv, _) => {
                o.push(("def", s(self.path(uv.def))));
                if let Some(p) = uv.promoted {
                    o.push(("promoted", J::UInt(p.index() as u128)));
                }
            }
            _ => {}
        }
        if let ty::FnDef(did, _) = t.kind() {
            o.push(("fn", s(self.path(*did))));
        }
        let env = TypingEnv::post_analysis(tcx, body_did);
        // do not try to evaluate promoteds (they are bodies of their own) nor fn items
        let is_promoted = matches!(cst, Const::Unevaluated(uv, _) if uv.promoted.is_some());
        if !is_promoted && !matches!(t.kind(), ty::FnDef(..)) {
            if t.is_integral() || t.is_bool() || t.is_char() || t.is_floating_point() {
                if let Some(si) = cst.try_eval_scalar_int(tcx, env) {
                    o.push(("val", self.scalar_int(si, t)));
                }
            } else if let Ok(val) = cst.eval(tcx, env, c.span) {
                match val {
                    ConstValue::Slice { .. } => {
                        if let Some(bytes) = val.try_get_slice_bytes_for_diagnostics(tcx) {
                            match std::str::from_utf8(bytes) {
                                Ok(st) if self.ty_str(t).contains("str") => o.push(("str", s(st))),
                                _ => o.push((
                                    "bytes",
                                    J::Arr(bytes.iter().map(|b| J::UInt(*b as u128)).collect()),
                                )),
                            }
                        }
                    }
                    ConstValue::Scalar(mir::interpret::Scalar::Ptr(ptr, _)) => {
                        let (prov, _off) = ptr.into_raw_parts();
                        let aid = prov.alloc_id();
                        match tcx.global_alloc(aid) {
                            mir::interpret::GlobalAlloc::Static(sd) => {
                                o.push(("static", s(self.path(sd))))
                            }
                            _ => {}
                        }
                    }
                    ConstValue::Scalar(mir::interpret::Scalar::Int(si)) => {
                        // small ADT constants (field-less enums, bool-like) as raw bits
                        o.push(("bits", J::UInt(si.to_bits(si.size()))));
                    }
                    _ => {}
                }
            }
        }
        o.push(("text", s(ty::print::with_no_trimmed_paths!(format!("{}", cst)))));
        J::Obj(o)
    }

    fn operand(&self, body_did: DefId, body: &Body<'tcx>, op: &Operand<'tcx>) -> J {
        match op {
            Operand::Copy(p) => J::Obj(vec![("k", s("copy")), ("place", self.place(body, p))]),
            Operand::Move(p) => J::Obj(vec![("k", s("move")), ("place", self.place(body, p))]),
            Operand::Constant(c) => self.const_operand(body_did, c),
            #[allow(unreachable_patterns)]
            other => J::Obj(vec![("k", s("otherop")), ("dbg", s(format!("{:?}", other)))]),
        }
    }

    fn rvalue(&self, body_did: DefId, body: &Body<'tcx>, rv: &Rvalue<'tcx>) -> J {
        let op = |o: &Operand<'tcx>| self.operand(body_did, body, o);
        match rv {
            Rvalue::Use(o, ..) => J::Obj(vec![("k", s("use")), ("op", op(o))]),
            Rvalue::Repeat(o, n) => J::Obj(vec![
                ("k", s("repeat")),
                ("op", op(o)),
                ("n", s(ty::print::with_no_trimmed_paths!(format!("{}", n)))),
            ]),
            Rvalue::Ref(_, bk, p) => J::Obj(vec![
                ("k", s("ref")),
                ("mut", J::Bool(matches!(bk, BorrowKind::Mut { .. }))),
                ("place", self.place(body, p)),
            ]),
            Rvalue::RawPtr(_, p) => J::Obj(vec![("k", s("rawptr")), ("place", self.place(body, p))]),
            Rvalue::Cast(kind, o, t) => J::Obj(vec![
                ("k", s("cast")),
                ("kind", s(format!("{:?}", kind))),
                ("op", op(o)),
                ("ty", s(self.ty_str(*t))),
            ]),
            Rvalue::BinaryOp(bop, ops) => J::Obj(vec![
                ("k", s("binop")),
                ("op", s(format!("{:?}", bop))),
                ("a", op(&ops.0)),
                ("b", op(&ops.1)),
            ]),
            Rvalue::UnaryOp(uop, o) => {
                J::Obj(vec![("k", s("unop")), ("op", s(format!("{:?}", uop))), ("a", op(o))])
            }
            Rvalue::Discriminant(p) => {
                J::Obj(vec![("k", s("discr")), ("place", self.place(body, p))])
            }
            Rvalue::Aggregate(kind, fields) => {
                let mut o: Vec<(&'static str, J)> = vec![("k", s("aggregate"))];
                match &**kind {
                    AggregateKind::Array(t) => {
                        o.push(("agg", s("array")));
                        o.push(("elem_ty", s(self.ty_str(*t))));
                    }
                    AggregateKind::Tuple => o.push(("agg", s("tuple"))),
                    AggregateKind::Adt(did, vi, _, _, active) => {
                        o.push(("agg", s("adt")));
                        o.push(("adt", s(self.path(*did))));
                        let adt = self.tcx.adt_def(*did);
                        let v = adt.variant(*vi);
                        o.push(("variant", s(v.name)));
                        o.push(("vi", J::UInt(vi.index() as u128)));
                        o.push((
                            "field_names",
                            J::Arr(v.fields.iter().map(|f| s(f.name)).collect()),
                        ));
                        if let Some(a) = active {
                            o.push(("active_field", J::UInt(a.index() as u128)));
                        }
                    }
                    AggregateKind::Closure(did, _) => {
                        o.push(("agg", s("closure")));
                        o.push(("closure", s(self.path(*did))));
                    }
                    other => {
                        o.push(("agg", s("other")));
                        o.push(("dbg", s(format!("{:?}", other))));
                    }
                }
                o.push(("fields", J::Arr(fields.iter().map(|f| op(f)).collect())));
                J::Obj(o)
            }
            Rvalue::CopyForDeref(p) => {
                J::Obj(vec![("k", s("use")), ("op", J::Obj(vec![("k", s("copy")), ("place", self.place(body, p))]))])
            }
            other => J::Obj(vec![("k", s("other")), ("dbg", s(format!("{:?}", other)))]),
        }
    }

    fn bb(&self, b: BasicBlock) -> J {
        J::UInt(b.index() as u128)
    }

    fn unwind(&self, u: &UnwindAction) -> J {
        match u {
            UnwindAction::Cleanup(b) => self.bb(*b),
            _ => J::Null,
        }
    }

    fn terminator(&self, body_did: DefId, body: &Body<'tcx>, t: &Terminator<'tcx>) -> J {
        let tcx = self.tcx;
        let op = |o: &Operand<'tcx>| self.operand(body_did, body, o);
        let mut o: Vec<(&'static str, J)> = Vec::new();
        match &t.kind {
            TerminatorKind::Goto { target } => {
                o.push(("k", s("goto")));
                o.push(("target", self.bb(*target)));
            }
            TerminatorKind::SwitchInt { discr, targets } => {
                o.push(("k", s("switch")));
                o.push(("discr", op(discr)));
                o.push(("discr_ty", s(self.ty_str(discr.ty(body, tcx)))));
                let mut cases = Vec::new();
                for (v, b) in targets.iter() {
                    cases.push(J::Arr(vec![J::UInt(v), self.bb(b)]));
                }
                o.push(("cases", J::Arr(cases)));
                o.push(("otherwise", self.bb(targets.otherwise())));
            }
            TerminatorKind::Return => o.push(("k", s("return"))),
            TerminatorKind::Unreachable => o.push(("k", s("unreachable"))),
            TerminatorKind::UnwindResume => o.push(("k", s("resume"))),
            TerminatorKind::UnwindTerminate(_) => o.push(("k", s("terminate"))),
            TerminatorKind::Drop { place, target, unwind, .. } => {
                o.push(("k", s("drop")));
                o.push(("place", self.place(body, place)));
                o.push(("target", self.bb(*target)));
                o.push(("unwind", self.unwind(unwind)));
            }
            TerminatorKind::Call { func, args, destination, target, unwind, .. } => {
                o.push(("k", s("call")));
                let fty = func.ty(body, tcx);
                match fty.kind() {
                    ty::FnDef(did, gargs) => {
                        o.push(("callee", s(self.path(*did))));
                        o.push((
                            "callee_full",
                            s(ty::print::with_no_trimmed_paths!(
                                tcx.def_path_str_with_args(*did, gargs)
                            )),
                        ));
                        o.push((
                            "generic_args",
                            J::Arr(
                                gargs
                                    .iter()
                                    .map(|a| s(ty::print::with_no_trimmed_paths!(format!("{}", a))))
                                    .collect(),
                            ),
                        ));
                        o.push(("callee_local", J::Bool(did.is_local())));
                        let env = TypingEnv::post_analysis(tcx, body_did);
                        match Instance::try_resolve(tcx, env, *did, gargs) {
                            Ok(Some(inst)) => {
                                let rd = inst.def_id();
                                o.push(("resolved", s(self.path(rd))));
                                o.push(("resolved_local", J::Bool(rd.is_local())));
                            }
                            _ => {
                                o.push(("resolved", J::Null));
                            }
                        }
                    }
                    _ => {
                        o.push(("callee", J::Null));
                        o.push(("func", op(func)));
                    }
                }
                let mut jargs = Vec::new();
                let mut jtys = Vec::new();
                let mut closures = Vec::new();
                for a in args.iter() {
                    jargs.push(op(&a.node));
                    let aty = a.node.ty(body, tcx);
                    jtys.push(s(self.ty_str(aty)));
                    aty.walk().for_each(|ga| {
                        if let Some(t) = ga.as_type() {
                            if let ty::Closure(cd, _) = t.kind() {
                                closures.push(s(self.path(*cd)));
                            }
                        }
                    });
                }
                o.push(("args", J::Arr(jargs)));
                o.push(("arg_tys", J::Arr(jtys)));
                o.push(("closure_args", J::Arr(closures)));
                o.push(("dest", self.place(body, destination)));
                o.push(("target", match target {
                    Some(b) => self.bb(*b),
                    None => J::Null,
                }));
                o.push(("unwind", self.unwind(unwind)));
            }
            TerminatorKind::Assert { cond, expected, msg, target, unwind } => {
                o.push(("k", s("assert")));
                o.push(("cond", op(cond)));
                o.push(("expected", J::Bool(*expected)));
                let (kind, ops): (String, Vec<J>) = match &**msg {
                    AssertKind::BoundsCheck { len, index } => {
                        ("bounds".into(), vec![op(len), op(index)])
                    }
                    AssertKind::Overflow(bop, a, b) => {
                        (format!("overflow:{:?}", bop), vec![op(a), op(b)])
                    }
                    AssertKind::OverflowNeg(a) => ("overflow_neg".into(), vec![op(a)]),
                    AssertKind::DivisionByZero(a) => ("div_zero".into(), vec![op(a)]),
                    AssertKind::RemainderByZero(a) => ("rem_zero".into(), vec![op(a)]),
                    other => (format!("other:{:?}", other), vec![]),
                };
                o.push(("assert_kind", s(kind)));
                o.push(("ops", J::Arr(ops)));
                o.push(("target", self.bb(*target)));
                o.push(("unwind", self.unwind(unwind)));
            }
            other => {
                o.push(("k", s("otherterm")));
                o.push(("dbg", s(format!("{:?}", other))));
                let succ: Vec<J> = t.successors().map(|b| self.bb(b)).collect();
                o.push(("succ", J::Arr(succ)));
            }
        }
        o.push(("span", self.span(t.source_info.span)));
        J::Obj(o)
    }

    fn body(&self, body_did: DefId, body: &Body<'tcx>, kind: &str, name: String) -> J {
        let tcx = self.tcx;
        let mut locals = Vec::new();
        for (_l, d) in body.local_decls.iter_enumerated() {
            locals.push(J::Obj(vec![
                ("ty", s(self.ty_str(d.ty))),
                ("mut", J::Bool(d.mutability.is_mut())),
            ]));
        }
        let mut dbg = Vec::new();
        for v in body.var_debug_info.iter() {
            let val = match &v.value {
                VarDebugInfoContents::Place(p) => self.place(body, p),
                VarDebugInfoContents::Const(c) => self.const_operand(body_did, c),
            };
            dbg.push(J::Obj(vec![
                ("name", s(v.name)),
                ("value", val),
                ("arg", match v.argument_index {
                    Some(i) => J::UInt(i as u128),
                    None => J::Null,
                }),
            ]));
        }
        let mut blocks = Vec::new();
        for (_bb, data) in body.basic_blocks.iter_enumerated() {
            let mut stmts = Vec::new();
            for st in data.statements.iter() {
                let j = match &st.kind {
                    StatementKind::Assign(bx) => {
                        let (p, rv) = &**bx;
                        J::Obj(vec![
                            ("k", s("assign")),
                            ("place", self.place(body, p)),
                            ("rv", self.rvalue(body_did, body, rv)),
                            ("span", self.span(st.source_info.span)),
                        ])
                    }
                    StatementKind::SetDiscriminant { place, variant_index } => J::Obj(vec![
                        ("k", s("setdiscr")),
                        ("place", self.place(body, place)),
                        ("vi", J::UInt(variant_index.index() as u128)),
                        ("span", self.span(st.source_info.span)),
                    ]),
                    StatementKind::StorageLive(_)
                    | StatementKind::StorageDead(_)
                    | StatementKind::Nop => continue,
                    other => J::Obj(vec![
                        ("k", s("otherstmt")),
                        ("dbg", s(format!("{:?}", other))),
                        ("span", self.span(st.source_info.span)),
                    ]),
                };
                stmts.push(j);
            }
            let term = self.terminator(body_did, body, data.terminator());
            blocks.push(J::Obj(vec![
                ("cleanup", J::Bool(data.is_cleanup)),
                ("stmts", J::Arr(stmts)),
                ("term", term),
            ]));
        }
        let _ = tcx;
        J::Obj(vec![
            ("name", s(name)),
            ("kind", s(kind)),
            ("span", self.span(body.span)),
            ("arg_count", J::UInt(body.arg_count as u128)),
            ("locals", J::Arr(locals)),
            ("debug", J::Arr(dbg)),
            ("blocks", J::Arr(blocks)),
        ])
    }
}

fn dump<'tcx>(tcx: TyCtxt<'tcx>, out_path: &str) {
    let cx = Cx { tcx };
    let mut bodies: Vec<(String, J)> = Vec::new();
    let mut consts: Vec<(String, J)> = Vec::new();
    let mut statics: Vec<J> = Vec::new();
    let mut adts: Vec<(String, J)> = Vec::new();
    let mut items: Vec<J> = Vec::new();

    let mut keys: Vec<_> = tcx.mir_keys(()).iter().copied().collect();
    keys.sort_by_key(|k| tcx.def_path_str(k.to_def_id()));
    for ldid in keys {
        let did = ldid.to_def_id();
        let kind = tcx.def_kind(did);
        let name = cx.path(did);
        match kind {
            DefKind::Fn | DefKind::AssocFn | DefKind::Closure => {
                let body = tcx.optimized_mir(did);
                bodies.push((name.clone(), cx.body(did, body, &format!("{:?}", kind), name.clone())));
                let proms = tcx.promoted_mir(did);
                for (pi, pb) in proms.iter_enumerated() {
                    let pname = format!("{}::{{promoted#{}}}", name, pi.index());
                    bodies.push((pname.clone(), cx.body(did, pb, "Promoted", pname)));
                }
            }
            DefKind::Const { .. } | DefKind::AssocConst { .. } | DefKind::Static { .. } => {
                let body = tcx.mir_for_ctfe(did);
                let t = tcx.type_of(did).instantiate_identity().skip_norm_wip();
                let mut o: Vec<(&'static str, J)> = vec![
                    ("name", s(name.clone())),
                    ("ty", s(cx.ty_str(t))),
                    ("body", cx.body(did, body, &format!("{:?}", kind), name.clone())),
                ];
                let proms = tcx.promoted_mir(did);
                let mut pj = Vec::new();
                for (pi, pb) in proms.iter_enumerated() {
                    let pname = format!("{}::{{promoted#{}}}", name, pi.index());
                    pj.push(cx.body(did, pb, "Promoted", pname));
                }
                o.push(("promoted", J::Arr(pj)));
                if let DefKind::Static { .. } = kind {
                    let env = TypingEnv::post_analysis(tcx, did);
                    o.push(("mutable", J::Bool(tcx.is_mutable_static(did))));
                    o.push(("thread_local", J::Bool(tcx.is_thread_local_static(did))));
                    o.push(("freeze", J::Bool(t.is_freeze(tcx, env))));
                    o.push(("span", cx.span(tcx.def_span(did))));
                    statics.push(J::Obj(o));
                } else {
                    consts.push((name, J::Obj(o)));
                }
            }
            _ => {}
        }
    }

    for ldid in tcx.hir_crate_items(()).definitions() {
        let did = ldid.to_def_id();
        let kind = tcx.def_kind(did);
        items.push(J::Obj(vec![
            ("name", s(cx.path(did))),
            ("kind", s(format!("{:?}", kind))),
            ("span", cx.span(tcx.def_span(did))),
        ]));
        match kind {
            DefKind::Struct | DefKind::Enum | DefKind::Union => {
                let adt = tcx.adt_def(did);
                let mut variants = Vec::new();
                for (vi, v) in adt.variants().iter_enumerated() {
                    let mut fields = Vec::new();
                    for f in v.fields.iter() {
                        let ft = tcx.type_of(f.did).instantiate_identity().skip_norm_wip();
                        fields.push(J::Obj(vec![("name", s(f.name)), ("ty", s(cx.ty_str(ft)))]));
                    }
                    let discr = if adt.is_enum() {
                        J::UInt(adt.discriminant_for_variant(tcx, vi).val)
                    } else {
                        J::Null
                    };
                    variants.push(J::Obj(vec![
                        ("name", s(v.name)),
                        ("discr", discr),
                        ("fields", J::Arr(fields)),
                    ]));
                }
                adts.push((
                    cx.path(did),
                    J::Obj(vec![("kind", s(format!("{:?}", kind))), ("variants", J::Arr(variants))]),
                ));
            }
            _ => {}
        }
    }

    let nonce = std::env::var("WFACTS_NONCE").unwrap_or_default();
    let root = J::Obj(vec![
        ("crate", s(tcx.crate_name(rustc_hir::def_id::LOCAL_CRATE))),
        ("nonce", s(nonce)),
        ("test_cfg", J::Bool(tcx.sess.opts.test)),
        ("overflow_checks", J::Bool(tcx.sess.overflow_checks())),
        ("bodies", J::Map(bodies)),
        ("consts", J::Map(consts)),
        ("statics", J::Arr(statics)),
        ("adts", J::Map(adts)),
        ("items", J::Arr(items)),
    ]);
    let mut out = String::with_capacity(8 << 20);
    root.write(&mut out);
    let path = if tcx.sess.opts.test { format!("{}.test", out_path) } else { out_path.to_string() };
    std::fs::write(&path, out).expect("wfacts: cannot write fact file");
}

struct Cb;

impl rustc_driver::Callbacks for Cb {
    fn after_analysis<'tcx>(
        &mut self,
        _compiler: &rustc_interface::interface::Compiler,
        tcx: TyCtxt<'tcx>,
    ) -> Compilation {
        let want = std::env::var("WFACTS_CRATE").unwrap_or_else(|_| "walleye".to_string());
        let name = tcx.crate_name(rustc_hir::def_id::LOCAL_CRATE).to_string();
        if name == want {
            if let Ok(out) = std::env::var("WFACTS_OUT") {
                dump(tcx, &out);
            }
        }
        Compilation::Continue
    }
}

fn main() {
    let mut args: Vec<String> = std::env::args().collect();
    // as a RUSTC_WORKSPACE_WRAPPER, argv[1] is the path of the real rustc
    if args.len() > 1 && (args[1].ends_with("rustc") || args[1].contains("/rustc")) {
        args.remove(1);
    }
    rustc_driver::run_compiler(&args, &mut Cb);
}
