"""Iterator adaptors and closures as the loops / inlined code they are (MIR-to-MIR on the JSON facts).

`xs.iter().map(f).any(p)` is, by the definition of the std adaptors, the loop

    loop { match inner.next() { None => break false, Some(x) => if p(f(x)) { break true } } }

and a closure call is a call of the closure body (a MIR body of its own, `<fn>::{closure#N}`, whose
`_1` is the (reference to the) closure aggregate: the captured upvars are its fields) with the
arguments untupled.  `expand` rewrites a body so that

  * `Iterator::any / all / find` over a base iterator, optionally through `map` adaptors, becomes the
    explicit `next` loop with the closure bodies spliced in;
  * `Fn::call / FnMut::call_mut / FnOnce::call_once` on a closure defined in the crate becomes the
    spliced closure body.

Block and local numbering of the original body is kept (new blocks / locals are appended), so
locations found on the expanded body that lie in the old range are locations of the original.
Nothing here knows a function, closure or variable name of any tree."""
import copy

from .inline import _shift

MAX_ROUNDS = 12
MAX_BLOCKS = 900

_FOLDS = {"std::iter::Iterator::any": "any", "std::iter::Iterator::all": "all", "std::iter::Iterator::find": "find"}
_CALLS = ("std::ops::Fn::call", "std::ops::FnMut::call_mut", "std::ops::FnOnce::call_once")


def _closure_ty_key(ty):
    """`{closure@src/x.rs:363:25: 363:69}` (possibly behind & / &mut) -> ('src/x.rs', 363, 25)."""
    i = ty.find("{closure@")
    if i < 0:
        return None
    s = ty[i + len("{closure@"):]
    s = s.split("}")[0]
    parts = s.split(":")
    try:
        return (parts[0], int(parts[1]), int(parts[2]))
    except (IndexError, ValueError):
        return None


def _closure_index(bodies):
    idx = {}
    for n, b in bodies.items():
        if b.get("kind") == "Closure":
            sp = b["span"]
            idx[(sp["file"], sp["line"], sp["col"])] = n
    return idx


def _whole_defs(d, local):
    """All (kind, bb, i) sites that assign the bare local."""
    out = []
    for bi, blk in enumerate(d["blocks"]):
        if blk["cleanup"]:
            continue
        for i, st in enumerate(blk["stmts"]):
            if st["k"] == "assign" and st["place"]["local"] == local and not st["place"]["proj"]:
                out.append(("stmt", bi, i))
        t = blk["term"]
        if t["k"] == "call" and t["dest"]["local"] == local and not t["dest"]["proj"]:
            out.append(("call", bi, None))
    return out


def _env_written(cd):
    """Does the closure body write into its own environment (`(*_1).k = ..` for a by-value capture)?"""
    for blk in cd["blocks"]:
        for st in blk["stmts"]:
            if st["k"] == "assign" and st["place"]["local"] == 1:
                return True
            if st["k"] == "assign" and st["rv"]["k"] in ("ref", "rawptr") and st["rv"].get("mut", True) and st["rv"]["place"]["local"] == 1:
                pr = st["rv"]["place"]["proj"]
                # `&mut (*_1).k` of a by-value capture; `&mut *((*_1).k)` re-borrows a captured pointer
                if not (len(pr) >= 3 and pr[0]["k"] == "deref" and pr[1]["k"] == "field" and pr[2]["k"] == "deref"):
                    return True
        t = blk["term"]
        if t["k"] == "call" and t["dest"]["local"] == 1:
            return True
    return False


class _Prepared:
    """Read-only view of the body table in which closure bodies come out prepared (helper calls of
    functions outside the reference vocabulary inlined, as Facts.body does for named functions)."""

    def __init__(self, bodies, prep):
        self.raw, self.prep, self.memo = bodies, prep, {}

    def __contains__(self, name):
        return name in self.raw

    def __getitem__(self, name):
        if name not in self.memo:
            b = self.raw[name]
            self.memo[name] = self.prep(b) if self.prep is not None and b.get("kind") == "Closure" else b
        return self.memo[name]


class _Builder:
    def __init__(self, bodies, d, prep=None):
        self.bodies = _Prepared(bodies, prep)
        self.cidx = _closure_index(bodies)
        nd = {k: v for k, v in d.items() if k not in ("blocks", "locals", "debug")}
        nd["blocks"] = copy.deepcopy(d["blocks"])
        nd["locals"] = [dict(l) for l in d["locals"]]
        nd["debug"] = list(d["debug"])
        self.d = nd
        self.done = []

    # ---- primitives --------------------------------------------------------------------------
    def new_local(self, ty, mut=True):
        self.d["locals"].append({"ty": ty, "mut": mut})
        return len(self.d["locals"]) - 1

    def new_block(self, stmts, term):
        self.d["blocks"].append({"cleanup": False, "stmts": stmts, "term": term})
        return len(self.d["blocks"]) - 1

    def local_ty(self, l):
        return self.d["locals"][l]["ty"]

    @staticmethod
    def pl(l, ty, proj=None):
        return {"local": l, "proj": proj or [], "ty": ty}

    def mv(self, l, proj=None, ty=None):
        return {"k": "move", "place": self.pl(l, ty or self.local_ty(l), proj)}

    def cp(self, l):
        return {"k": "copy", "place": self.pl(l, self.local_ty(l))}

    def assign(self, l, rv, span):
        return {"k": "assign", "place": self.pl(l, self.local_ty(l)), "rv": rv, "span": span, "synthetic": True}

    @staticmethod
    def const_bool(v):
        return {"k": "const", "val": 1 if v else 0, "ty": "bool", "text": "true" if v else "false"}

    def closure_of_operand(self, op):
        if op["k"] not in ("copy", "move"):
            return None
        key = _closure_ty_key(op["place"].get("ty") or self.local_ty(op["place"]["local"]))
        return self.cidx.get(key)

    # ---- closure call ------------------------------------------------------------------------
    def splice_closure(self, cname, env_op, env_is_ref, arg_ops, dest, cont, span):
        """Append the closure body; returns the entry block.  env_op: operand holding the closure
        (by value) or a reference to it (env_is_ref); arg_ops: one operand per closure parameter."""
        cd = self.bodies[cname]
        if cd["arg_count"] != 1 + len(arg_ops):
            return None
        loff = len(self.d["locals"])
        locs = [dict(l) for l in cd["locals"]]
        env_ty = locs[1]["ty"]
        wants_ref = env_ty.startswith("&")
        if env_ty.startswith("&mut ") and not _env_written(cd):
            # the environment is only read: a shared reference is the same thing, and lets the value
            # numbering see through to the captured variables
            locs[1] = {"ty": "&" + env_ty[len("&mut "):], "mut": locs[1].get("mut", True)}
        self.d["locals"] += locs
        pre = []
        if wants_ref and not env_is_ref:
            if env_op["k"] not in ("copy", "move") or env_op["place"]["proj"]:
                return None
            pre.append(self.assign(loff + 1, {"k": "ref", "mut": False, "place": self.pl(env_op["place"]["local"], env_op["place"].get("ty"))}, span))
        elif (wants_ref and env_is_ref) or (not wants_ref and not env_is_ref):
            pre.append(self.assign(loff + 1, {"k": "use", "op": env_op}, span))
        else:
            # closure taken by value but called through a reference (call_once shim): copy out
            if env_op["k"] not in ("copy", "move") or env_op["place"]["proj"]:
                return None
            pre.append(self.assign(loff + 1, {"k": "use", "op": {"k": "copy", "place": self.pl(env_op["place"]["local"], env_ty, [{"k": "deref"}])}}, span))
        for j, a in enumerate(arg_ops):
            pre.append(self.assign(loff + 2 + j, {"k": "use", "op": a}, span))
        boff = len(self.d["blocks"]) + 1
        entry = self.new_block(pre, {"k": "goto", "target": boff, "span": span, "inlined_call": cname})
        ret_ty = cd["locals"][0]["ty"]
        for blk in cd["blocks"]:
            nb = _shift(blk, loff, boff)
            if nb["term"]["k"] == "return" and not nb["cleanup"]:
                nb["stmts"].append({"k": "assign", "place": dest, "rv": {"k": "use", "op": {"k": "move", "place": self.pl(loff, ret_ty)}},
                                    "span": nb["term"]["span"], "inline_ret": cname})
                nb["term"] = {"k": "goto", "target": cont, "span": nb["term"]["span"]} if cont is not None else {"k": "unreachable", "span": nb["term"]["span"]}
            self.d["blocks"].append(nb)
        for dbg in cd["debug"]:
            v = dbg["value"]
            if "local" in v and not v["proj"]:
                e = _shift(dbg, loff, boff)
                e["arg"] = None
                e["inlined_from"] = cname
                self.d["debug"].append(e)
        self.done.append(cname)
        return entry

    # ---- iterator chains ---------------------------------------------------------------------
    def iterator_chain(self, it_op):
        """The operand of a fold is `&mut IT`; IT is a base iterator local or `map(inner, f)`.
        Returns (base iterator local, [closure operand of each map, innermost first]) or None."""
        if it_op["k"] not in ("copy", "move") or it_op["place"]["proj"]:
            return None
        l = it_op["place"]["local"]
        by_ref = self.local_ty(l).startswith("&")
        for _ in range(6):
            if not self.local_ty(l).startswith("&"):
                break
            defs = _whole_defs(self.d, l)
            if len(defs) != 1 or defs[0][0] != "stmt":
                return None
            rv = self.d["blocks"][defs[0][1]]["stmts"][defs[0][2]]["rv"]
            if rv["k"] == "ref":
                p = rv["place"]
                if not p["proj"]:
                    l = p["local"]
                elif len(p["proj"]) == 1 and p["proj"][0]["k"] == "deref":
                    l = p["local"]
                else:
                    return None
            elif rv["k"] == "use" and rv["op"]["k"] in ("copy", "move") and not rv["op"]["place"]["proj"]:
                l = rv["op"]["place"]["local"]
            else:
                return None
        if self.local_ty(l).startswith("&"):
            return None
        maps = []
        for _ in range(6):
            defs = _whole_defs(self.d, l)
            if len(defs) == 1 and defs[0][0] == "call":
                t = self.d["blocks"][defs[0][1]]["term"]
                if t.get("callee") == "std::iter::Iterator::map" and len(t["args"]) == 2:
                    a0 = t["args"][0]
                    if a0["k"] in ("copy", "move") and not a0["place"]["proj"] and self.closure_of_operand(t["args"][1]):
                        maps.append(t["args"][1])
                        l = a0["place"]["local"]
                        continue
            elif len(defs) == 1 and defs[0][0] == "stmt":
                rv = self.d["blocks"][defs[0][1]]["stmts"][defs[0][2]]["rv"]
                if rv["k"] == "use" and rv["op"]["k"] in ("copy", "move") and not rv["op"]["place"]["proj"]:
                    l = rv["op"]["place"]["local"]
                    continue
            break
        maps.reverse()
        return l, maps

    @staticmethod
    def next_names(ity):
        if ity.startswith("std::slice::Iter<"):
            res = "<std::slice::Iter<'a, T> as std::iter::Iterator>::next"
        elif ity.startswith("std::ops::Range<"):
            res = "std::iter::range::<impl std::iter::Iterator for std::ops::Range<A>>::next"
        else:
            res = "<%s as std::iter::Iterator>::next" % ity
        return "<%s as std::iter::Iterator>::next" % ity, res

    def expand_fold(self, bi, kind):
        blk = self.d["blocks"][bi]
        t = blk["term"]
        span = t["span"]
        if len(t["args"]) != 2 or t.get("target") is None or t["dest"]["proj"]:
            return False
        pred = self.closure_of_operand(t["args"][1])
        chain = self.iterator_chain(t["args"][0])
        if pred is None or chain is None:
            return False
        base, maps = chain
        # the base iterator may be `std::iter::successors(first, f)`: by definition the iterator whose
        # state is an Option<T>, that yields the state's payload and replaces the state by f(&payload)
        succ = None
        bdefs = _whole_defs(self.d, base)
        if len(bdefs) == 1 and bdefs[0][0] == "call":
            bt = self.d["blocks"][bdefs[0][1]]["term"]
            if bt.get("callee") in _CALLS and bt.get("closure_args"):
                return False      # a closure call that returns the iterator: spliced first, next round
            if bt.get("callee") == "std::iter::successors" and len(bt["args"]) == 2 and bt.get("target") is not None \
                    and self.closure_of_operand(bt["args"][1]) and self.bodies[self.closure_of_operand(bt["args"][1])]["arg_count"] == 2:
                succ = (bdefs[0][1], bt)
        names = [self.closure_of_operand(m) for m in maps]
        pcd = self.bodies[pred]
        if pcd["arg_count"] != 2 or any(self.bodies[n]["arg_count"] != 2 for n in names):
            return False
        ity = self.local_ty(base)
        # item type: what the innermost closure (or the predicate) takes; `find`'s predicate takes a reference
        first = self.bodies[names[0]] if names else pcd
        item_ty = first["locals"][2]["ty"]
        if kind == "find" and not names:
            item_ty = item_ty[1:] if item_ty.startswith("&") else item_ty
        opt_ty = "std::option::Option<%s>" % item_ty
        l_ref = self.new_local("&mut " + ity)
        l_opt = self.new_local(opt_ty)
        l_dis = self.new_local("isize")
        l_item = self.new_local(item_ty)
        dest = t["dest"]
        target = t["target"]
        # result blocks
        if kind in ("any", "all"):
            b_hit = self.new_block([{"k": "assign", "place": dest, "rv": {"k": "use", "op": self.const_bool(kind == "any")}, "span": span, "synthetic": True}],
                                   {"k": "goto", "target": target, "span": span})
            b_end = self.new_block([{"k": "assign", "place": dest, "rv": {"k": "use", "op": self.const_bool(kind != "any")}, "span": span, "synthetic": True}],
                                   {"k": "goto", "target": target, "span": span})
        else:
            b_hit = None   # built below (needs the item local)
            b_end = self.new_block([{"k": "assign", "place": dest, "rv": {"k": "aggregate", "agg": "adt", "adt": "std::option::Option", "variant": "None", "fields": []}, "span": span, "synthetic": True}],
                                   {"k": "goto", "target": target, "span": span})
        b_unr = self.new_block([], {"k": "unreachable", "span": span})
        if succ is not None:
            sbb, bt = succ
            fname = self.closure_of_operand(bt["args"][1])
            st_ty = bt["args"][0]["place"]["ty"] if bt["args"][0]["k"] in ("copy", "move") else opt_ty
            l_state = self.new_local(st_ty or opt_ty)
            l_fn = self.new_local(bt["args"][1]["place"]["ty"])
            sblk = self.d["blocks"][sbb]
            sblk["stmts"].append(self.assign(l_state, {"k": "use", "op": bt["args"][0]}, bt["span"]))
            sblk["stmts"].append(self.assign(l_fn, {"k": "use", "op": bt["args"][1]}, bt["span"]))
            sblk["term"] = {"k": "goto", "target": bt["target"], "span": bt["span"], "expanded_successors": fname}
            head = self.new_block([self.assign(l_opt, {"k": "use", "op": self.cp(l_state)}, span)], {"k": "goto", "target": None, "span": span})
            self.done.append("iter::successors")
        cf, rs = self.next_names(ity)
        head = head if succ is not None else self.new_block(
            [self.assign(l_ref, {"k": "ref", "mut": True, "place": self.pl(base, ity)}, span)],
            {"k": "call", "callee": "std::iter::Iterator::next", "callee_full": cf, "generic_args": [ity], "callee_local": False, "resolved": rs,
             "resolved_local": False, "args": [self.mv(l_ref)], "arg_tys": ["&mut " + ity], "closure_args": [], "dest": self.pl(l_opt, opt_ty),
             "target": None, "unwind": None, "span": span, "synthetic": True})
        sw = self.new_block([self.assign(l_dis, {"k": "discr", "place": self.pl(l_opt, opt_ty)}, span)],
                            {"k": "switch", "discr": self.mv(l_dis), "discr_ty": "isize", "cases": [[0, b_end], [1, None]], "otherwise": b_unr, "span": span})
        self.d["blocks"][head]["term"]["target"] = sw
        some = self.new_block([self.assign(l_item, {"k": "use", "op": self.mv(l_opt, [{"k": "downcast", "variant": "Some", "i": 1}, {"k": "field", "i": 0, "name": "0"}], item_ty)}, span)],
                              {"k": "goto", "target": None, "span": span})
        self.d["blocks"][sw]["term"]["cases"][1][1] = some
        # the chain of closure calls, built back to front
        l_p = self.new_local("bool")
        if kind == "any":
            dec = self.new_block([], {"k": "switch", "discr": self.mv(l_p), "discr_ty": "bool", "cases": [[0, head]], "otherwise": b_hit, "span": span})
        elif kind == "all":
            dec = self.new_block([], {"k": "switch", "discr": self.mv(l_p), "discr_ty": "bool", "cases": [[0, b_hit]], "otherwise": head, "span": span})
        cur = l_item
        vals = [l_item]
        for n in names:
            out_ty = self.bodies[n]["locals"][0]["ty"]
            vals.append(self.new_local(out_ty))
        last = vals[-1]
        if kind == "find":
            b_hit = self.new_block([{"k": "assign", "place": dest, "rv": {"k": "aggregate", "agg": "adt", "adt": "std::option::Option", "variant": "Some", "fields": [self.mv(last)]}, "span": span, "synthetic": True}],
                                   {"k": "goto", "target": target, "span": span})
            dec = self.new_block([], {"k": "switch", "discr": self.mv(l_p), "discr_ty": "bool", "cases": [[0, head]], "otherwise": b_hit, "span": span})
            l_pref = self.new_local("&" + self.local_ty(last))
            parg = self.mv(l_pref)
        else:
            parg = self.mv(last)
        entry = self.splice_closure(pred, t["args"][1], False, [parg], self.pl(l_p, "bool"), dec, span)
        if entry is None:
            return False
        if kind == "find":
            pre = self.new_block([self.assign(l_pref, {"k": "ref", "mut": False, "place": self.pl(last, self.local_ty(last))}, span)], {"k": "goto", "target": entry, "span": span})
            entry = pre
        for k in range(len(names) - 1, -1, -1):
            entry = self.splice_closure(names[k], maps[k], False, [self.mv(vals[k])], self.pl(vals[k + 1], self.local_ty(vals[k + 1])), entry, span)
            if entry is None:
                return False
        if succ is not None:
            fparam_ty = self.bodies[fname]["locals"][2]["ty"]
            l_xr = self.new_local(fparam_ty)
            fentry = self.splice_closure(fname, self.mv(l_fn), False, [self.mv(l_xr)], self.pl(l_state, self.local_ty(l_state)), entry, span)
            if fentry is None:
                return False
            entry = self.new_block([self.assign(l_xr, {"k": "ref", "mut": False, "place": self.pl(l_item, item_ty)}, span)], {"k": "goto", "target": fentry, "span": span})
        self.d["blocks"][some]["term"]["target"] = entry
        blk["term"] = {"k": "goto", "target": head, "span": span, "expanded_fold": kind}
        self.done.append("Iterator::" + kind)
        return True

    def expand_call(self, bi):
        blk = self.d["blocks"][bi]
        t = blk["term"]
        cname = t.get("resolved")
        if cname not in self.bodies or self.bodies[cname].get("kind") != "Closure" or len(t["args"]) != 2:
            return False
        cd = self.bodies[cname]
        span = t["span"]
        tup = t["args"][1]
        n = cd["arg_count"] - 1
        args = []
        if n:
            if tup["k"] not in ("copy", "move") or tup["place"]["proj"]:
                return False
            for j in range(n):
                args.append({"k": "move", "place": self.pl(tup["place"]["local"], cd["locals"][2 + j]["ty"], [{"k": "field", "i": j, "name": str(j)}])})
        env_ty = t["arg_tys"][0] if t.get("arg_tys") else ""
        entry = self.splice_closure(cname, t["args"][0], env_ty.startswith("&"), args, t["dest"], t.get("target"), span)
        if entry is None:
            return False
        blk["term"] = {"k": "goto", "target": entry, "span": span, "inlined_call": cname}
        return True

    def run(self):
        for _ in range(MAX_ROUNDS):
            changed = False
            for bi in range(len(self.d["blocks"])):
                if len(self.d["blocks"]) > MAX_BLOCKS:
                    return
                blk = self.d["blocks"][bi]
                t = blk["term"]
                if blk["cleanup"] or t["k"] != "call":
                    continue
                c = t.get("callee")
                if c in _FOLDS and t.get("closure_args"):
                    changed |= self.expand_fold(bi, _FOLDS[c])
                elif c in _CALLS and t.get("closure_args"):
                    changed |= self.expand_call(bi)
            if not changed:
                return


def expand(bodies, d, prep=None):
    """(expanded body dict, [what was expanded]); `d` is returned unchanged when nothing applies.
    prep: optional function applied to a closure body (dict) before it is spliced."""
    has = any(blk["term"]["k"] == "call" and blk["term"].get("closure_args") and
              (blk["term"].get("callee") in _FOLDS or blk["term"].get("callee") in _CALLS) for blk in d["blocks"] if not blk["cleanup"])
    if not has:
        return d, []
    bld = _Builder(bodies, d, prep)
    bld.run()
    if not bld.done:
        return d, []
    bld.d["expanded"] = sorted(set(bld.done))
    return bld.d, bld.done


def xbody(facts, name, keep=()):
    """`facts.body(name)` with iterator folds and closure calls expanded (cached on the Facts object).
    keep: crate-local helper functions that must stay calls (not inlined by the vocabulary inliner),
    e.g. a renamed primitive that a rule treats as an uninterpreted oracle."""
    from .mir import Body
    cache = facts.__dict__.setdefault("_xbodies", {})
    keep = frozenset(k for k in keep if k and facts.known is not None and k not in facts.known)
    key = (name, keep) if keep else name
    if key not in cache:
        from .inline import inline_body
        prep = None
        if facts.known is not None:
            prep = lambda cd: inline_body(facts.d["bodies"], cd, lambda c: facts._is_helper(c) and c not in keep)[0]
        if keep:
            if name not in facts.d["bodies"]:
                return facts.body(name)     # raises AnchorMissing
            d, _ = inline_body(facts.d["bodies"], facts.d["bodies"][name], lambda c: facts._is_helper(c) and c not in keep)
            b = Body(facts, d)
        else:
            b = facts.body(name)
        d2, done = expand(facts.d["bodies"], b.d, prep)
        cache[key] = b if not done else Body(facts, d2)
    return cache[key]
