"""Loop forms: recognising what a loop iterates over, not how its header is spelled.

`for i in a..b {}` is `Range::next` + a switch on the Option discriminant; `while i < b { ..; i += 1 }`
is a comparison + increment; `for x in &v`, `for x in v.iter().skip(1)`, `for x in &v[1..]` are `next`
on iterators derived from the same vector.  The helpers here answer: which switches are the loop's
own iteration test, which edges leave the loop because the iteration is exhausted, which collection
(local) an iterator / element pointer is derived from and which elements of it are visited."""
from .expr import strip_refs, data_slice


def own_blocks(loops, h):
    """Blocks of loop h that are not inside a loop nested in h."""
    body_ = loops[h]
    inner = set()
    for h2, b2 in loops.items():
        if h2 != h and b2 < body_:
            inner |= b2
    return body_ - inner


def next_switches(b, ex, blocks=None):
    """(switch block, next-call expr, some_target, none_target) for every `match it.next()` switch."""
    for x in (blocks if blocks is not None else b.normal):
        if x not in b.reachable or b.term(x)["k"] != "switch":
            continue
        d = ex.switch_discr(x)
        if d[0] == "discr" and d[1][0] == "call" and d[1][1].endswith("::next") and d[2].startswith("std::option::Option<"):
            t = b.term(x)
            some = [tg for v, tg in t["cases"] if v == 1]
            none = [tg for v, tg in t["cases"] if v == 0]
            oth = t["otherwise"]
            live = b.blocks[oth]["term"]["k"] != "unreachable"
            if not some and live and none:
                some = [oth]
            if not none and live and some:
                none = [oth]
            yield x, d[1], (some[0] if some else None), (none[0] if none else None)


def is_range_next(call):
    """`next` of a numeric range (`a..b`, `a..=b`)."""
    c = call[1]
    return "std::ops::Range<" in c or "std::ops::RangeInclusive<" in c or c.startswith("std::iter::range::")


def range_bounds(ex, call):
    """(lo, hi, inclusive) expressions of the range a `Range::next` call iterates, or None."""
    it = strip_refs(call[2][0])
    for y in data_slice(ex, it):
        if y[0] == "agg" and y[1] and y[1].startswith("std::ops::Range") and len(y[3]) >= 2:
            return y[3][0], y[3][1], y[1].startswith("std::ops::RangeInclusive")
        if y[0] == "call" and y[1].endswith("RangeInclusive::<Idx>::new") and len(y[2]) == 2:
            return y[2][0], y[2][1], True
    return None


def exhaustion_exits(b, ex, loops, h, const_bounds=True):
    """CFG edges that leave loop h because its own iteration is exhausted:
      * the `None` edge of a `next()` on a numeric range (with constant bounds if const_bounds),
      * an edge out of the loop from a comparison of a value with a constant (`while i < N`).
    Switches of nested loops are not considered."""
    from .cond import dominating_facts
    out = set()
    body_ = loops[h]
    own = own_blocks(loops, h)

    def unconditional(x):
        """The test in block x is not itself under a data-dependent condition of this iteration:
        every in-loop switch edge that dominates x is again a bound test (comparison with a constant
        or an iterator `next`).  `if found && d > 5 { break }` is not an exhaustion exit."""
        for d, vals, excl, s, tg in dominating_facts(b, ex, x):
            if s not in body_ or s == x:
                continue
            d0 = strip_refs(d)
            if d0[0] == "bin" and d0[1] in ("Lt", "Le", "Gt", "Ge") and any(y[0] == "const" for y in (d0[2], d0[3])):
                continue
            if d0[0] == "discr" and d0[1][0] == "call" and d0[1][1].endswith("::next"):
                continue
            return False
        return True
    for x, call, some, none in next_switches(b, ex, own):
        if none is None or none in body_ or not is_range_next(call):
            continue
        rb = range_bounds(ex, call)
        if rb is None:
            continue
        if const_bounds and not (strip_refs(rb[0])[0] == "const" and strip_refs(rb[1])[0] == "const"):
            continue
        if unconditional(x):
            out.add((x, none))
    def counted(d):
        """The non-constant side is a loop counter: some local it is read from is stepped by a constant
        inside the loop (`i += 1`).  `alpha.abs() >= K` compares a data value, not the iteration count."""
        from .expr import subexprs
        locs = {y[1] for side in (d[2], d[3]) for y in subexprs(side) if y[0] == "var"}
        for bb in body_:
            for st in b.stmts(bb):
                if st["k"] != "assign" or st["rv"]["k"] != "binop" or not st["rv"]["op"].startswith("Add"):
                    continue
                ops = (st["rv"]["a"], st["rv"]["b"])
                if any(o.get("k") == "const" for o in ops) and any(o.get("k") in ("copy", "move") and not o["place"]["proj"] and o["place"]["local"] in locs for o in ops):
                    return True
        return False
    for x in own:
        if b.term(x)["k"] != "switch":
            continue
        d = ex.switch_discr(x)
        if d[0] == "bin" and d[1] in ("Lt", "Le", "Gt", "Ge") and any(y[0] == "const" for y in (d[2], d[3])) and unconditional(x) and counted(d):
            for tg in b.succ.get(x, []):
                if tg not in body_:
                    out.add((x, tg))
    return out


def receiver_roots(b, ex, e, ty, _seen=None):
    """Locals of type `ty` that a pointer / iterator / element expression is borrowed from, following
    only the receiver chain (`v.iter_mut().find(f)` -> v; captured values of `f` are not followed):
    ref / deref / field / downcast / index are stripped, a method call continues in its first argument,
    a versioned local continues in its whole definitions."""
    seen = _seen if _seen is not None else set()
    out = set()
    st = [e]
    while st:
        x = st.pop()
        if x in seen:
            continue
        seen.add(x)
        k = x[0]
        if k in ("ref", "deref", "field", "downcast", "index", "cidx"):
            st.append(x[1])
        elif k in ("var", "arg", "mem"):
            if b.local_ty(x[1]) in (ty, "&" + ty, "&mut " + ty):
                out.add(x[1])
            elif k != "arg":
                for dloc, kind in x[2]:
                    if kind == "whole":
                        st.append(ex._def_expr(x[1], dloc))
        elif k == "call" and x[2]:
            st.append(x[2][0])
    return out


def _split_part(e):
    """"first" / "rest" if e is the `.0` / `.1` component of the payload of `slice.split_first()`."""
    e = strip_refs(e)
    if e[0] == "field" and e[2] in ("0", "1"):
        p = strip_refs(e[1])
        c = None
        if p[0] == "field" and p[2] == "0" and p[1][0] == "downcast" and p[1][2] == "Some":
            c = strip_refs(p[1][1])
        elif p[0] == "call" and (p[1].endswith("Option::<T>::unwrap") or p[1].endswith("Option::<T>::expect")) and p[2]:
            c = strip_refs(p[2][0])          # `.split_first().unwrap()`
        if c is not None and c[0] == "call" and (c[1].endswith("::split_first") or c[1].endswith("::split_first_mut")):
            return "first" if e[2] == "0" else "rest"
    return None


def element_index(e):
    """k if the expression denotes element k of a vector / slice (`v[k]` with constant k, the head of
    `split_first()`, the payload of `first()`); None otherwise."""
    e = strip_refs(e)
    if e[0] == "call" and (e[1].endswith("::index") or e[1].endswith("::index_mut")) and len(e[2]) == 2:
        return _const_usize(e[2][1])
    if e[0] == "index":                       # `slice[k]` is a place projection, not a call
        return _const_usize(e[2])
    if e[0] == "cidx":
        return e[2] if isinstance(e[2], int) and e[2] >= 0 else None
    if _split_part(e) == "first":
        return 0
    if e[0] == "field" and e[2] == "0" and e[1][0] == "downcast" and e[1][2] == "Some":
        c = strip_refs(e[1][1])
        if c[0] == "call" and (c[1].endswith("::first") or c[1].endswith("::first_mut")):
            return 0
    return None


def _const_usize(e):
    e = strip_refs(e)
    return e[1] if e[0] == "const" and isinstance(e[1], int) and not isinstance(e[1], bool) else None


def iter_start_offset(ex, it):
    """First index visited by an iterator expression over a vector/slice, when it can be told:
    `v.iter()` / `&v` / `v.iter_mut()` -> 0, `.skip(k)` -> +k, `v[k..]` -> +k.  None when the shape
    is not understood (e.g. filter, rev, step_by, a non-constant skip)."""
    sl = data_slice(ex, strip_refs(it))
    off = 0
    seen_source = False
    for y in sl:
        if y[0] != "call":
            continue
        c = y[1]
        if c.endswith("::skip"):
            k = _const_usize(y[2][1])
            if k is None:
                return None
            off += k
        elif c.endswith("::index") or c.endswith("::index_mut"):
            # slicing by a range: v[k..]
            a = strip_refs(y[2][1])
            if a[0] == "agg" and a[1] and a[1].startswith("std::ops::RangeFrom"):
                k = _const_usize(a[3][0])
                if k is None:
                    return None
                off += k
            elif a[0] == "agg" and a[1] and a[1].startswith("std::ops::RangeFull"):
                pass
            elif a[0] == "agg" and a[1] and a[1].startswith("std::ops::Range"):
                return None     # bounded above: not the whole tail
            else:
                return None
        elif c.endswith("::into_iter") or c.endswith("::iter") or c.endswith("::iter_mut"):
            seen_source = True
            # iterating the tail of `split_first()`: `(first, rest) = v.split_first()?; for x in rest`
            a0 = strip_refs(y[2][0]) if y[2] else None
            if a0 is not None and _split_part(a0) == "rest":
                off += 1
        elif c.endswith("::split_first") or c.endswith("::split_first_mut"):
            pass
        elif c.endswith("::deref") or c.endswith("::deref_mut") or c.endswith("::as_slice") or c.endswith("::as_mut_slice") or c.endswith("::next"):
            pass
        elif any(c.endswith(s) for s in ("::filter", "::rev", "::step_by", "::take", "::skip_while", "::take_while", "::filter_map", "::chain", "::zip")):
            return None
    return off if seen_source else None
