"""Trace-partitioned evaluation: value-number a loop-free body along one path (the partition is the
sequence of branch decisions), so that 'on the White trace the clock comes from wtime' is expressible."""
from .expr import Exprs, mk_deref


class PathExprs(Exprs):
    def __init__(self, body):
        super().__init__(body)
        self.env = {}

    def local(self, l, loc):
        if l in self.env:
            return self.env[l]
        if 1 <= l <= self.b.arg_count:
            return ("arg", l)
        return ("opaque", "undef _%d" % l)

    def place(self, p, loc):
        proj = p["proj"]
        l = p["local"]
        e = self.local(l, loc)
        for el in proj:
            k = el["k"]
            if k == "deref":
                e = mk_deref(e)
            elif k == "field":
                e = self._field(e, el)
            elif k == "index":
                e = ("index", e, self.local(el["local"], loc))
            elif k == "cindex":
                e = ("cidx", e, el["offset"])
            elif k == "downcast":
                e = ("downcast", e, el["variant"])
        return e


def eval_path(body, blocks):
    """Returns (env, conditions): env[local] = expression at the end of the path; conditions =
    [(discr_expr, taken_values, is_otherwise)] for each switch passed."""
    px = PathExprs(body)
    conds = []
    for k, bb in enumerate(blocks):
        for i, st in enumerate(body.stmts(bb)):
            if st["k"] != "assign":
                continue
            p = st["place"]
            if p["proj"]:
                if p["local"] in px.env:
                    px.env[p["local"]] = ("opaque", "partially assigned")
                continue
            px.env[p["local"]] = px.rvalue(st["rv"], (bb, i))
        t = body.term(bb)
        loc = body.term_loc(bb)
        if t["k"] == "call" and not t["dest"]["proj"]:
            px.env[t["dest"]["local"]] = px.call_expr(t, None)
        elif t["k"] == "switch" and k + 1 < len(blocks):
            nxt = blocks[k + 1]
            d = px.operand(t["discr"], loc)
            vals = [v for v, tg in t["cases"] if tg == nxt]
            conds.append((d, vals, t["otherwise"] == nxt, [v for v, _ in t["cases"]]))
    return px.env, conds


def cond_truth(c):
    d, vals, oth, listed = c
    if vals == [0] and not oth:
        return False
    if vals == [1] and not oth:
        return True
    if oth and listed == [0]:
        return True
    if oth and listed == [1]:
        return False
    return None
