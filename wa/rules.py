"""Rule / obligation bookkeeping shared by all rule modules."""
import os
import traceback
from .mir import AnchorMissing, ShapeNotRecognised


class Ob:
    __slots__ = ("rule", "key", "ok", "where", "detail", "reason", "nontrivial")

    def __init__(self, rule, key, ok, where, detail, reason, nontrivial):
        self.rule, self.key, self.ok, self.where, self.detail = rule, key, ok, where, detail
        self.reason, self.nontrivial = reason, nontrivial

    def as_dict(self):
        d = {"rule": self.rule, "key": self.key, "status": "discharged" if self.ok else "violated",
             "where": self.where, "detail": self.detail}
        if not self.ok:
            d["reason"] = self.reason
        return d


class Ctx:
    def __init__(self, facts, prop):
        self.facts = facts
        self.prop = prop
        self.obs = []
        self.rule = None
        self.rule_text = {}
        self.analysed = set()   # function names touched
        self.info = {}          # free-form per-rule information for evidence

    def note_fn(self, *names):
        self.analysed.update(names)

    def ob(self, key, ok, where="", detail="", reason="rule-breach", nontrivial=True):
        full = "%s:%s" % (self.rule, key)
        self.obs.append(Ob(self.rule, full, bool(ok), where, detail, reason, nontrivial))
        return bool(ok)

    def floor(self, what, count, floor):
        """A rule that matches fewer instances than were counted by hand passes vacuously: fail."""
        self.ob("floor:%s" % what, count >= floor, "", "%s: found %d, floor %d" % (what, count, floor),
                reason="below-floor", nontrivial=False)


RULE_BUDGET_S = int(os.environ.get("VERIF_RULE_BUDGET_S", "300"))


class _Budget(BaseException):
    pass


def _on_alarm(*_a):
    raise _Budget()


def run_rule(ctx, rid, text, fn):
    """Every rule runs under a time budget: an analysis that does not come back (path explosion on a
    shape it was not written for) is reported as such, fail-closed, instead of hanging the check."""
    ctx.rule = rid
    ctx.rule_text[rid] = text
    old = None
    try:
        import signal
        old = signal.signal(signal.SIGALRM, _on_alarm)
        signal.alarm(RULE_BUDGET_S)
    except (ValueError, AttributeError):
        old = None
    try:
        fn(ctx)
    except _Budget:
        ctx.ob("shape", False, "", "analysis budget of %d s exceeded: the rule's path/state exploration did not terminate on this shape" % RULE_BUDGET_S,
               reason="shape-not-recognised")
    except AnchorMissing as e:
        ctx.ob("anchor", False, "", str(e), reason="anchor-missing")
    except ShapeNotRecognised as e:
        ctx.ob("shape", False, "", str(e), reason="shape-not-recognised")
    except Exception as e:  # a checker crash must not read as a pass: fail closed, and say what it was
        tb = traceback.format_exc(limit=6)
        ctx.ob("shape", False, "", "checker could not analyse this shape: %r\n%s" % (e, tb),
               reason="shape-not-recognised")
    finally:
        try:
            import signal
            signal.alarm(0)
            if old is not None:
                signal.signal(signal.SIGALRM, old)
        except (ValueError, AttributeError):
            pass
        ctx.rule = None
