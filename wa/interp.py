"""Concrete evaluation of expressions under a substitution, and a concrete CFG walker.
Used for finite instantiation rules (e.g. a predicate over all 256 values of a u8)."""
from .mir import fold_binop, INT_RANGES, ShapeNotRecognised
from .expr import wrap


class Unknown(Exception):
    pass


_FACTS = [None]


def set_facts(facts):
    """Enable evaluation of calls to crate-local pure functions (their MIR is walked concretely)."""
    _FACTS[0] = facts


def eval_local_fn(facts, name, argvals, depth=0):
    from .expr import Exprs
    if depth > 4:
        raise Unknown(("depth", name))
    b = facts.body(name)
    if b.loops():
        raise Unknown(("loop", name))
    ex = Exprs(b)
    env = {("arg", i + 1): v for i, v in enumerate(argvals)}
    rb, path = walk(b, ex, env)
    if rb is None:
        raise Unknown(("diverges", name))
    return path_return_value(b, ex, path, env)


def path_return_value(b, ex, path, env):
    val = None
    found = False
    for pb in path:
        for i, st in enumerate(b.stmts(pb)):
            if st["k"] == "assign" and st["place"]["local"] == 0 and not st["place"]["proj"]:
                val = eval_expr(ex.rvalue(st["rv"], (pb, i)), env)
                found = True
        t = b.term(pb)
        if t["k"] == "call" and t["dest"]["local"] == 0 and not t["dest"]["proj"]:
            val = eval_expr(ex.call_expr(t, b.term_loc(pb)), env)
            found = True
    if not found:
        raise Unknown(("no return value",))
    return val


def eval_expr(e, env):
    """env: dict expr -> python value.  Raises Unknown when a needed leaf has no value."""
    if e in env:
        return env[e]
    k = e[0]
    if k == "field":
        base = eval_expr(e[1], env)
        if isinstance(base, tuple):
            try:
                return base[int(e[2])]
            except (ValueError, IndexError):
                raise Unknown(e)
        raise Unknown(e)
    if k == "agg" and e[1] in ("board::Point", "tuple"):
        return tuple(eval_expr(x, env) for x in e[3])
    if k == "const":
        return e[1]
    if k == "float":
        return e[1]
    if k == "char":
        return e[1]
    if k == "str":
        return e[1]
    if k == "bin":
        op = e[1]
        a, b = eval_expr(e[2], env), eval_expr(e[3], env)
        r = fold_binop(op.replace("WithOverflow", ""), a, b)
        if r is None:
            raise Unknown(e)
        return r
    if k == "un":
        a = eval_expr(e[2], env)
        if e[1] == "Not":
            return (not a) if isinstance(a, bool) else ~a
        if e[1] == "Neg":
            return -a
        raise Unknown(e)
    if k == "cast":
        a = eval_expr(e[2], env)
        ty = e[1]
        if ty in INT_RANGES:
            if isinstance(a, float):
                lo, hi = INT_RANGES[ty]
                if a != a:
                    return 0
                return int(max(lo, min(hi, int(a))))
            if isinstance(a, bool):
                return int(a)
            if isinstance(a, str) and len(a) == 1:
                return wrap(ty, ord(a))
            return wrap(ty, a)
        if ty in ("f64", "f32"):
            return float(a)
        raise Unknown(e)
    if k == "call":
        name = e[1]
        args = [eval_expr(a, env) for a in e[2]]
        if name.endswith("::abs") and len(args) == 1:
            return abs(args[0])
        if name.endswith("::abs_diff") and len(args) == 2:
            return abs(args[0] - args[1])
        if name.endswith("<impl str>::contains") and len(args) == 2 and isinstance(args[0], str):
            return args[1] in args[0]
        if name.endswith("<impl str>::starts_with") and len(args) == 2 and isinstance(args[0], str):
            return args[0].startswith(args[1])
        if name.endswith("<impl str>::ends_with") and len(args) == 2 and isinstance(args[0], str):
            return args[0].endswith(args[1])
        if name.endswith("<impl str>::len") and isinstance(args[0], str):
            return len(args[0].encode())
        if name.endswith("<impl str>::is_empty") and isinstance(args[0], str):
            return len(args[0]) == 0
        if name.startswith("<str as std::ops::Index<std::ops::Range") and isinstance(args[0], str):
            r = args[1]
            if isinstance(r, tuple) and len(r) == 2 and r[1] <= len(args[0]) and args[0].isascii():
                return args[0][r[0]:r[1]]
            raise Unknown(e)
        if name == "std::cmp::max":
            return max(args)
        if name == "std::cmp::min":
            return min(args)
        if name.endswith("f64>::round"):
            import math
            a = args[0]
            return math.floor(abs(a) + 0.5) * (1 if a >= 0 else -1)
        if _FACTS[0] is not None and _FACTS[0].has_body(name):
            return eval_local_fn(_FACTS[0], name, args)
        raise Unknown(e)
    if k in ("deref", "ref"):
        return eval_expr(e[1], env)
    if k == "agg" and e[1].endswith("ops::Range") and len(e[3]) == 2:
        return (eval_expr(e[3][0], env), eval_expr(e[3][1], env))
    raise Unknown(e)


def walk(body, ex, env, start_bb=0, max_steps=2000):
    """Follow the normal CFG from start_bb evaluating switch discriminants under env.
    Returns (return_block, path).  Calls and asserts are stepped over (their results are leaves
    that env must cover if a later decision needs them)."""
    bb, path = start_bb, []
    for _ in range(max_steps):
        path.append(bb)
        t = body.term(bb)
        k = t["k"]
        if k == "return":
            return bb, path
        if k in ("goto", "call", "assert", "drop"):
            if t.get("target") is None:
                return None, path
            bb = t["target"]
            continue
        if k == "switch":
            d = ex.switch_discr(bb)
            v = eval_expr(d, env)
            if isinstance(v, bool):
                v = int(v)
            nxt = t["otherwise"]
            for val, tg in t["cases"]:
                if val == v:
                    nxt = tg
            bb = nxt
            continue
        raise ShapeNotRecognised("terminator %s in concrete walk" % k)
    raise ShapeNotRecognised("walk did not terminate")
